"""C13 - string codecs invert exactly; positions count characters; escaping is safe.

Monitor (round trips + independent consumers). For strings s of any content (all strings of
length <= 3 over an alphabet of shell/CSV/HTML/URL metacharacters, multi-byte characters and an
invalid byte; random longer ones) the real interpreter computes, in batches,

 * the round trips `explode|implode`, `tobytes|tostring`, `@base64|@base64d`, `@uri|@urid`,
   `@html|@htmld`, `split($x)|join($x)` and `ascii_downcase`/`ascii_upcase`, which must give s
   back (resp. change ASCII letters only);
 * the escaping formatters alone and inside format strings, whose output is handed to
   *independent consumers*: `/bin/sh` (argv printed NUL-separated by a shell function),
   Python's csv.reader, a TSV splitter/unescaper written from the manual, json.loads,
   html.unescape and html.parser, urllib.parse (unquote_to_bytes, urlsplit, parse_qsl),
   base64.b64decode. Each must recover exactly the data and nothing else;
 * `@base64d` / `@urid` on malformed input: success is only acceptable without loss of input;
 * `match` offsets/lengths against jaq's own slicing and (for valid UTF-8) against Python's
   code-point positions, and the reassembly of s from `split`/`splits` parts and matches, for
   regexes from a small generator under every flag; `length`, slices and `indices` against
   Python's code points.
"""
import base64
import csv
import hashlib
import html
import io
import itertools
import json
import os
import random
import shutil
import subprocess
import sys
import tempfile
import urllib.parse
from collections import Counter
from html.parser import HTMLParser

sys.path.insert(0, os.path.dirname(os.path.dirname(os.path.abspath(__file__))))
from vlib import build, par, values as V
from vlib.client import WorkerDied, classify_death
from vlib.codec import Big, Dec, Obj, S, Str, dec, enc, show
from vlib.run import Distinct, Run, Samples

ALPHA = [b"'", b'"', b"\\", b"`", b"$", b"!", b"*", b" ", b"\t", b"\n", b"\r", b"\x00", b",", b";", b"&", b"<",
         b">", b"%", b"+", "\u00e9".encode(), "\U0001d11e".encode(), b"\xff"]

BIN = {}


# ------------------------------------------------------------------------------------------
# context

class Ctx:
    def __init__(self, profile, seed_tag):
        self.c = par.client(profile, path=BIN.get(profile))
        self.profile = profile
        self.rng = random.Random(seed_tag)
        self.tmp = tempfile.mkdtemp(prefix="c13-")
        self.n = Counter()
        self.viol = []
        self.inconc = []
        self.not_judged = Counter()

    def close(self):
        shutil.rmtree(self.tmp, ignore_errors=True)

    def report(self, prefix, detail, witness):
        self.viol.append((prefix, detail, witness))

    def eval1(self, prog, vars_, take):
        r = self.c.eval(prog, [{"input": None}], vars=vars_, take=take, timeout=300)
        if "results" not in r:
            return ("bad", str(r)[:300])
        res = r["results"][0]
        if res.get("panic"):
            return ("panic", res["panic"])
        if res["end"][0] != "end":
            return ("bad", str(res["end"])[:300])
        return ("ok", [dec(o[0]) for o in res["outs"]])


def batch_eval(ctx, prog, var, items):
    """one output per item; a panic / failure of the batch is localised item by item.
    -> list of value | ('panic', info) | ('bad', info)"""
    st, outs = ctx.eval1(prog, [(var, enc(items))], len(items) + 1)
    if st == "ok" and len(outs) == len(items):
        return outs
    if len(items) == 1:
        return [(st if st != "ok" else "bad", outs if st != "ok" else "%d outputs" % len(outs))]
    h = len(items) // 2
    return batch_eval(ctx, prog, var, items[:h]) + batch_eval(ctx, prog, var, items[h:])


# ------------------------------------------------------------------------------------------
# the shell as consumer

SH_PRELUDE = b"n() { printf '%d\\0' \"$#\"; for a in \"$@\"; do printf '%s\\0' \"$a\"; done; }\n"


def run_sh(ctx, frags):
    """frags: shell command lines of the form `n <words>`; -> (list of argv lists | None, stderr)"""
    d = os.path.join(ctx.tmp, "sh")
    os.makedirs(d, exist_ok=True)
    path = os.path.join(ctx.tmp, "script.sh")
    with open(path, "wb") as f:
        f.write(SH_PRELUDE + b"".join(fr + b"\n" for fr in frags))
    ctx.n["sh_invocations"] += 1
    try:
        p = subprocess.run(["/bin/sh", path], stdin=subprocess.DEVNULL, stdout=subprocess.PIPE, stderr=subprocess.PIPE,
                           env={"PATH": "/nonexistent", "HOME": d, "IFS": " \t\n"}, cwd=d, timeout=120)
    except subprocess.TimeoutExpired:
        return None, b"timeout"
    for name in os.listdir(d):          # anything an injected redirection may have created
        try:
            os.unlink(os.path.join(d, name))
        except OSError:
            shutil.rmtree(os.path.join(d, name), ignore_errors=True)
        ctx.n["sh_created_files"] += 1
    toks = p.stdout.split(b"\0")
    if toks and toks[-1] == b"":
        toks.pop()
    recs = []
    i = 0
    while i < len(toks):
        try:
            k = int(toks[i])
        except ValueError:
            return None, p.stderr + b" [unparsable output]"
        recs.append(toks[i + 1:i + 1 + k])
        if len(recs[-1]) != k:
            return None, p.stderr + b" [truncated output]"
        i += 1 + k
    if p.returncode != 0 or p.stderr:
        return (recs if len(recs) == len(frags) else None), p.stderr or b"exit %d" % p.returncode
    return recs, b""


def _sh_batch(ctx, cases):
    if not cases:
        return []
    recs, err = run_sh(ctx, [c[1] for c in cases])
    if recs is not None and len(recs) == len(cases) and not err:
        ctx.n["sh_words_recovered"] += sum(len(c[2]) for c in cases)
        return [(c, "sh-recovers-other-argv", [x.hex() for x in r]) for c, r in zip(cases, recs) if r != c[2]]
    if len(cases) == 1:
        got = recs[0] if recs else None
        return [(cases[0], "sh-syntax-error-or-injection",
                 {"argv": [x.hex() for x in got] if got else None, "stderr": err.decode("latin-1")[:200]})]
    h = len(cases) // 2
    return _sh_batch(ctx, cases[:h]) + _sh_batch(ctx, cases[h:])


def sh_check(ctx, cases):
    """cases: list of (tag, fragment, expected argv) -> list of (tag, class, observed).
    One shell runs many fragments; a fragment whose quoting is broken can swallow its
    neighbours, so every suspect is confirmed in a shell of its own before it is blamed."""
    out = []
    for case, cls, got in _sh_batch(ctx, cases):
        if len(cases) > 1:
            alone = _sh_batch(ctx, [case])
            if not alone:
                ctx.n["sh_collateral_of_a_broken_neighbour"] += 1
                continue
            _, cls, got = alone[0]
        out.append((case[0], cls, got))
    return out


# ------------------------------------------------------------------------------------------
# other consumers

def csv_fields(row_bytes):
    rows = list(csv.reader(io.StringIO(row_bytes.decode("latin-1"), newline=""), strict=True))
    if len(rows) != 1:
        return ("rows", len(rows))
    return [f.encode("latin-1") for f in rows[0]]


TSV_UNESC = {ord("n"): b"\n", ord("r"): b"\r", ord("t"): b"\t", ord("\\"): b"\\", ord("0"): b"\0"}


def tsv_fields(row_bytes):
    """the reader the manual describes: rows end at newlines, fields at tabs, the escapes
    \\n \\r \\t \\\\ \\0 denote LF CR TAB backslash NUL"""
    if b"\n" in row_bytes or b"\r" in row_bytes:
        return ("raw-newline", None)
    out = []
    for f in row_bytes.split(b"\t"):
        b = bytearray()
        i = 0
        while i < len(f):
            c = f[i]
            if c == 0x5c:
                if i + 1 >= len(f) or f[i + 1] not in TSV_UNESC:
                    return ("stray-backslash", None)
                b += TSV_UNESC[f[i + 1]]
                i += 2
            else:
                if c == 0:
                    return ("raw-nul", None)
                b.append(c)
                i += 1
        out.append(bytes(b))
    return out


class _HP(HTMLParser):
    def __init__(self):
        super().__init__(convert_charrefs=True)
        self.ev = []

    def handle_starttag(self, tag, attrs):
        self.ev.append(("s", tag, attrs))

    def handle_endtag(self, tag):
        self.ev.append(("e", tag))

    def handle_data(self, d):
        if self.ev and self.ev[-1][0] == "d":
            self.ev[-1] = ("d", self.ev[-1][1] + d)
        else:
            self.ev.append(("d", d))

    def handle_comment(self, d):
        self.ev.append(("comment", d))

    def handle_decl(self, d):
        self.ev.append(("decl", d))

    def handle_pi(self, d):
        self.ev.append(("pi", d))

    def unknown_decl(self, d):
        self.ev.append(("unknown", d))


def html_events(doc_bytes):
    p = _HP()
    p.feed(doc_bytes.decode("latin-1"))
    p.close()
    return p.ev


def json_str(b):
    """bytes of the string a JSON text denotes (invalid UTF-8 carried through)"""
    v = json.loads(b.decode("utf-8", "surrogateescape"))
    if not isinstance(v, str):
        raise ValueError("not a string")
    return v.encode("utf-8", "surrogateescape")


URI_SAFE = set(b"ABCDEFGHIJKLMNOPQRSTUVWXYZabcdefghijklmnopqrstuvwxyz0123456789-_.~")
HEX = set(b"0123456789abcdefABCDEF")


def uri_wellformed(b):
    """only unreserved characters and %XX triplets"""
    i = 0
    while i < len(b):
        if b[i] == 0x25:
            if len(b) - i < 3 or b[i + 1] not in HEX or b[i + 2] not in HEX:
                return False
            i += 3
        elif b[i] in URI_SAFE:
            i += 1
        else:
            return False
    return True


# ------------------------------------------------------------------------------------------
# S: per-string obligations

STR_ITEMS = [
    ("explode|implode", "explode | implode"),
    ("tobytes|tostring", "tobytes | tostring"),
    ("@base64", "@base64"),
    ("@base64|@base64d", "@base64 | @base64d"),
    ("@uri", "@uri"),
    ("@uri|@urid", "@uri | @urid"),
    ("@html", "@html"),
    ("@html|@htmld", "@html | @htmld"),
    ("ascii_downcase", "ascii_downcase"),
    ("ascii_upcase", "ascii_upcase"),
    ("@sh", "@sh"),
    ("@sh-format", '@sh "n \\(.) p\\(.)q \\([., .])"'),
    ("@json", "@json"),
    ("@json-format", '@json "x\\(.)y"'),
    ("@json-nested", '@json "a\\(@json "b\\(.)c")d"'),      # a format string directly inside a format string
    ("@csv", "[.] | @csv"),
    ("@csv3", '[., "z", .] | @csv'),
    ("@tsv", "[.] | @tsv"),
    ("@tsv3", '[., "z", .] | @tsv'),
    ("@html-format", '@html "<a t=\'\\(.)\' u=\\"\\(.)\\">\\(.)</a>"'),
    ("@uri-format", '@uri "http://h/p?q=\\(.)&r=\\(.)#f"'),
    ("length", "length"),
    ("tobytes|@base64", "tobytes | @base64"),
    ("@text", "@text"),
    ("@base64-format", '@base64 "x,\\(.),y"'),
    ("@csv-format", '@csv "\\([., 1]);\\([.])"'),
    ("@tsv-format", '@tsv "\\([., 1]);\\([.])"'),
]
STR_PROG = "$S[] | [" + ", ".join("(try [%s] catch null)" % p for _, p in STR_ITEMS) + "]"
STR_IDX = {name: i for i, (name, _) in enumerate(STR_ITEMS)}


def is_text(x):
    return isinstance(x, Str) and x.text


def judge_string(ctx, s, R, sh_cases, tag):
    """-> list of (obligation, class, observed)"""
    out = []
    b = s.b
    valid = V.is_valid_utf8(b)

    def get(name):
        r = R[STR_IDX[name]]
        ctx.n["obl:" + name] += 1
        if r is None:
            out.append((name, "unexpected-error", None))
            return None
        x = r[0]
        return x

    def text_of(name):
        x = get(name)
        if x is None:
            return None
        if not is_text(x):
            out.append((name, "result-not-a-text-string", show(x)))
            return None
        return x.b

    for name in ("explode|implode", "tobytes|tostring", "@base64|@base64d", "@uri|@urid", "@html|@htmld", "@text"):
        x = text_of(name)
        if x is not None and x != b:
            out.append((name, "round-trip-changes-string", x.hex()))
    x = text_of("ascii_downcase")
    if x is not None and x != b.lower():
        out.append(("ascii_downcase", "touches-non-ascii-or-misses-ascii", x.hex()))
    x = text_of("ascii_upcase")
    if x is not None and x != b.upper():
        out.append(("ascii_upcase", "touches-non-ascii-or-misses-ascii", x.hex()))
    # base64: independent decoder
    for name in ("@base64", "tobytes|@base64"):
        x = text_of(name)
        if x is not None:
            try:
                d = base64.b64decode(x, validate=True)
            except Exception:       # noqa
                d = None
            if d != b:
                out.append((name, "python-b64decode-recovers-other", x.decode("latin-1")))
    x = text_of("@base64-format")
    if x is not None:
        parts = x.split(b",")
        ok = len(parts) == 3 and parts[0] == b"x" and parts[2] == b"y"
        if ok:
            try:
                ok = base64.b64decode(parts[1], validate=True) == b
            except Exception:       # noqa
                ok = False
        if not ok:
            out.append(("@base64-format", "python-b64decode-recovers-other", x.decode("latin-1")))
    # uri
    x = text_of("@uri")
    if x is not None:
        if not uri_wellformed(x):
            out.append(("@uri", "output-has-reserved-or-raw-bytes", x.decode("latin-1")))
        elif urllib.parse.unquote_to_bytes(x) != b:
            out.append(("@uri", "python-unquote-recovers-other", x.decode("latin-1")))
    x = text_of("@uri-format")
    if x is not None:
        try:
            u = urllib.parse.urlsplit(x.decode("latin-1"))
            q = urllib.parse.parse_qsl(u.query, keep_blank_values=True, strict_parsing=bool(u.query),
                                       encoding="latin-1", errors="strict")
            ok = (u.scheme, u.netloc, u.path, u.fragment) == ("http", "h", "/p", "f") and \
                q == [("q", b.decode("latin-1")), ("r", b.decode("latin-1"))]
        except ValueError:
            ok = False
        if not ok:
            out.append(("@uri-format", "python-urlsplit-recovers-other", x.decode("latin-1")))
    # html
    x = text_of("@html")
    if x is not None:
        if html.unescape(x.decode("latin-1")).encode("latin-1", "replace") != b:
            out.append(("@html", "python-unescape-recovers-other", x.decode("latin-1")))
        elif any(c in x for c in b"<>'\""):
            out.append(("@html", "output-has-raw-metacharacter", x.decode("latin-1")))
    x = text_of("@html-format")
    if x is not None:
        t = b.decode("latin-1")
        exp = [("s", "a", [("t", t), ("u", t)])] + ([("d", t)] if t else []) + [("e", "a")]
        try:
            ev = html_events(x)
        except Exception as e:      # noqa
            ev = ["parser error %s" % e]
        if ev != exp:
            out.append(("@html-format", "html-parser-recovers-other", repr(ev)[:300]))
    # json
    x = text_of("@json")
    if x is not None:
        try:
            ok = json_str(x) == b
        except ValueError:
            ok = False
        if not ok:
            out.append(("@json", "python-json-recovers-other", x.decode("latin-1")))
    x = text_of("@json-format")
    if x is not None:
        try:
            ok = x[:1] == b"x" and x[-1:] == b"y" and json_str(x[1:-1]) == b
        except ValueError:
            ok = False
        if not ok:
            out.append(("@json-format", "python-json-recovers-other", x.decode("latin-1")))
    x = text_of("@json-nested")
    if x is not None:
        # the inner format string yields a string, which the outer format must escape like any other value
        try:
            inner = json_str(x[1:-1]) if x[:1] == b"a" and x[-1:] == b"d" else None
            ok = inner is not None and inner[:1] == b"b" and inner[-1:] == b"c" and json_str(inner[1:-1]) == b
        except ValueError:
            ok = False
        if not ok:
            out.append(("@json-nested", "python-json-recovers-other", x.decode("latin-1")))
    # csv / tsv
    for name, exp in (("@csv", [b]), ("@csv3", [b, b"z", b])):
        x = text_of(name)
        if x is not None:
            try:
                got = csv_fields(x)
            except csv.Error as e:
                got = ("csv.Error", str(e))
            if got != exp:
                out.append((name, "python-csv-recovers-other", repr(got)[:200]))
    for name, exp in (("@tsv", [b]), ("@tsv3", [b, b"z", b])):
        x = text_of(name)
        if x is not None:
            got = tsv_fields(x)
            if got != exp:
                out.append((name, "tsv-reader-recovers-other", repr(got)[:200]))
    x = text_of("@csv-format")
    if x is not None:
        # "<row [s,1]>;<row [s]>": the two rows are csv texts themselves; cut at the only place
        # where a reader of the first row is at a field boundary followed by ';'
        ok = False
        for i in range(len(x)):
            if x[i:i + 1] == b";":
                try:
                    if csv_fields(x[:i]) == [b, b"1"] and csv_fields(x[i + 1:]) == [b]:
                        ok = True
                        break
                except csv.Error:
                    pass
        if not ok:
            out.append(("@csv-format", "python-csv-recovers-other", x.decode("latin-1")))
    x = text_of("@tsv-format")
    if x is not None:
        ok = any(x[i:i + 1] == b";" and tsv_fields(x[:i]) == [b, b"1"] and tsv_fields(x[i + 1:]) == [b]
                 for i in range(len(x)))
        if not ok:
            out.append(("@tsv-format", "tsv-reader-recovers-other", x.decode("latin-1")))
    # sh (argv cannot carry NUL)
    if b"\0" in b:
        ctx.not_judged["@sh:string-with-NUL(argv cannot carry it)"] += 1
    else:
        x = text_of("@sh")
        if x is not None:
            sh_cases.append(((tag, "@sh"), b"n " + x, [b]))
        x = text_of("@sh-format")
        if x is not None:
            sh_cases.append(((tag, "@sh-format"), x, [b, b"p" + b + b"q", b, b]))
    # length
    x = get("length")
    if x is not None:
        if valid:
            if x != len(b.decode("utf-8")):
                out.append(("length", "not-the-number-of-code-points", show(x)))
        else:
            ctx.not_judged["length:invalid-utf8"] += 1
    return out


def string_fails(ctx, s, name):
    """class of the failure of obligation `name` on s alone (None = holds)"""
    rows = batch_eval(ctx, STR_PROG, "S", [s])
    R = rows[0]
    if isinstance(R, tuple):
        return "panic" if R[0] == "panic" else "evaluation-failed"
    cases = []
    res = judge_string(ctx, s, R, cases, 0)
    for (tag, nm), cls, got in sh_check(ctx, cases):
        res.append((nm, cls, got))
    for nm, cls, got in res:
        if nm == name:
            return cls
    return None


def str_parts(s):
    ch = V.utf8_chunks(s.b)
    if len(ch) <= 1:
        return
    seen = set()
    for c in ch:
        if c not in seen:
            seen.add(c)
            yield Str(c, True)
    for i in range(len(ch)):
        yield Str(b"".join(ch[:i] + ch[i + 1:]), True)


def shrink_str(s, fails, budget=60):
    cur = s
    progress = True
    while progress and budget > 0:
        progress = False
        for p in str_parts(cur):
            budget -= 1
            if budget <= 0:
                break
            try:
                if fails(p):
                    cur = p
                    progress = True
                    break
            except WorkerDied:
                return cur
    return cur


def sdetail(s):
    return "hex=" + s.b.hex() if len(s.b) <= 10 else "len>10"


def check_strings(ctx, strs, fam):
    rows = batch_eval(ctx, STR_PROG, "S", strs)
    sh_cases = []
    found = []
    for i, (s, R) in enumerate(zip(strs, rows)):
        if isinstance(R, tuple):
            if R[0] == "panic":
                ctx.report("string:panic:%s" % norm_loc(R[1].get("loc")), sdetail(s),
                           {"kind": "string", "wire": enc(s), "panic": R[1]})
            else:
                ctx.report("string:evaluation-failed", sdetail(s), {"kind": "string", "wire": enc(s), "info": R[1]})
            continue
        for name, cls, got in judge_string(ctx, s, R, sh_cases, i):
            found.append((i, name, cls, got))
    for (i, name), cls, got in sh_check(ctx, sh_cases):
        found.append((i, name, cls, got))
    ctx.n["strings"] += len(strs)
    per = Counter()
    for i, name, cls, got in found:
        per[(name, cls)] += 1
        if per[(name, cls)] > 3:
            ctx.report("string:%s:%s" % (name, cls), "more", None)
            continue
        small = shrink_str(strs[i], lambda p: string_fails(ctx, p, name) is not None)
        cls2 = string_fails(ctx, small, name) or cls
        ctx.report("string:%s:%s" % (name, cls2), sdetail(small),
                   {"kind": "string", "obligation": name, "class": cls2, "string": show(small, 200),
                    "wire": enc(small), "original_wire": enc(strs[i]), "observed": got, "family": fam})


# ------------------------------------------------------------------------------------------
# R: rows of scalars for @csv / @tsv / @sh / @json

ROW_PROG = ("$R[] | [(try [@csv] catch null), (try [@tsv] catch null), (try [@sh] catch null), "
            "(try [@sh \"n \\(.) end\"] catch null), (try [@json] catch null)]")


def scalar_text(x):
    if x is None:
        return b"null"
    if x is True:
        return b"true"
    if x is False:
        return b"false"
    if isinstance(x, Big):
        return str(x.n).encode()
    if isinstance(x, int):
        return str(x).encode()
    if isinstance(x, Dec):
        return x.text.encode()
    if isinstance(x, float):
        return repr(x).encode()
    return x.b


SIMPLE_FLOATS = [0.5, 1.5, -2.25, 1.0, -0.0, 100.0, 0.1]


def rand_str13(rng, maxlen=12, nul=True):
    n = rng.choice([0, 1, 2, 3, 4, 6, maxlen])
    parts = []
    for _ in range(n):
        r = rng.random()
        if r < 0.6:
            c = rng.choice(ALPHA)
        elif r < 0.75:
            c = rng.choice([b"a", b"Z", b"q", b"0", b"7", b"=", b"-", b"~", b".", b"_", b"/", b"#", b"?", b"|", b"(", b")",
                            b"{", b"}", b"[", b"]", b"^", b":", b"@"])
        elif r < 0.85:
            c = bytes([rng.randrange(1, 256)])
        else:
            c = chr(rng.choice([rng.randrange(0x80, 0x800), rng.randrange(0x800, 0xd800), rng.randrange(0xe000, 0x10000),
                                rng.randrange(0x10000, 0x110000)])).encode("utf-8")
        if not nul and c == b"\x00":
            continue
        parts.append(c)
    return Str(b"".join(parts), True)


def rand_row(rng):
    n = rng.choice([0, 1, 2, 3, 5])
    row = []
    for _ in range(n):
        r = rng.random()
        if r < 0.55:
            row.append(rand_str13(rng, 6))
        elif r < 0.65:
            row.append(None)
        elif r < 0.75:
            row.append(rng.choice([True, False]))
        elif r < 0.9:
            row.append(rng.choice([0, 1, -1, 42, 2 ** 64, -(2 ** 70), rng.randrange(-10 ** 6, 10 ** 6)]))
        elif r < 0.95:
            row.append(rng.choice(SIMPLE_FLOATS))
        else:
            row.append(rng.choice([Dec("1.10"), Dec("1e1000"), Dec("-0.0"), Dec("1E+2")]))
    return row


def row_detail(row):
    s = show(row)
    return s if len(s) <= 60 else "row:len>60"


def judge_row(ctx, row, R, sh_cases, tag):
    out = []
    texts = [scalar_text(x) for x in row]

    def text_of(k, name):
        ctx.n["obl:row " + name] += 1
        r = R[k]
        if r is None:
            out.append((name, "unexpected-error", None))
            return None
        if not is_text(r[0]):
            out.append((name, "result-not-a-text-string", show(r[0])))
            return None
        return r[0].b
    x = text_of(0, "@csv")
    if x is not None:
        if x == b"":
            if row and row != [None]:
                out.append(("@csv", "row-lost", ""))
            else:
                ctx.not_judged["@csv:[] and [null] print alike (documented)"] += 1
        else:
            exp = [b"" if v is None else t for v, t in zip(row, texts)]
            try:
                got = csv_fields(x)
            except csv.Error as e:
                got = ("csv.Error", str(e))
            if got != exp:
                out.append(("@csv", "python-csv-recovers-other", repr(got)[:200]))
    x = text_of(1, "@tsv")
    if x is not None:
        exp = [b"" if v is None else t for v, t in zip(row, texts)]
        got = tsv_fields(x)
        if not row:
            exp = [b""]
        if got != exp:
            out.append(("@tsv", "tsv-reader-recovers-other", repr(got)[:200]))
    if any(b"\0" in t for t in texts):
        ctx.not_judged["@sh:string-with-NUL(argv cannot carry it)"] += 1
    else:
        x = text_of(2, "@sh")
        if x is not None:
            sh_cases.append(((tag, "@sh"), b"n " + x, texts))
        x = text_of(3, "@sh-format")
        if x is not None:
            sh_cases.append(((tag, "@sh-format"), x, texts + [b"end"]))
    x = text_of(4, "@json")
    if x is not None:
        try:
            p = json.loads(x.decode("utf-8", "surrogateescape"), parse_float=lambda t: ("lit", t))
            ok = isinstance(p, list) and len(p) == len(row)
            if ok:
                for v, q in zip(row, p):
                    if isinstance(v, Str):
                        ok = ok and isinstance(q, str) and q.encode("utf-8", "surrogateescape") == v.b
                    elif isinstance(v, float):
                        ok = ok and isinstance(q, tuple) and float(q[1]) == v
                    elif isinstance(v, Dec):
                        ok = ok and q == ("lit", v.text)
                    elif isinstance(v, Big):
                        ok = ok and q == v.n and not isinstance(q, bool)
                    else:
                        ok = ok and q == v and type(q) is type(v)
        except ValueError:
            ok = False
        if not ok:
            out.append(("@json", "python-json-recovers-other", x.decode("latin-1")[:200]))
    return out


def row_fails(ctx, row, name):
    R = batch_eval(ctx, ROW_PROG, "R", [row])[0]
    if isinstance(R, tuple):
        return R[0]
    cases = []
    res = judge_row(ctx, row, R, cases, 0)
    for (tag, nm), cls, got in sh_check(ctx, cases):
        res.append((nm, cls, got))
    for nm, cls, got in res:
        if nm == name:
            return cls
    return None


def check_rows(ctx, rows, fam):
    res = batch_eval(ctx, ROW_PROG, "R", rows)
    sh_cases = []
    found = []
    for i, (row, R) in enumerate(zip(rows, res)):
        if isinstance(R, tuple):
            ctx.report("row:%s" % R[0], row_detail(row), {"kind": "row", "wire": enc(row), "info": str(R[1])[:300]})
            continue
        for name, cls, got in judge_row(ctx, row, R, sh_cases, i):
            found.append((i, name, cls, got))
    for (i, name), cls, got in sh_check(ctx, sh_cases):
        found.append((i, name, cls, got))
    ctx.n["rows"] += len(rows)
    per = Counter()
    for i, name, cls, got in found:
        per[(name, cls)] += 1
        if per[(name, cls)] > 3:
            ctx.report("row:%s:%s" % (name, cls), "more", None)
            continue
        row = rows[i]
        # shrink: single elements, then strings inside
        small = row
        for x in row:
            if row_fails(ctx, [x], name):
                small = [x]
                break
        if len(small) == 1 and isinstance(small[0], Str):
            s2 = shrink_str(small[0], lambda p: row_fails(ctx, [p], name) is not None)
            small = [s2]
        ctx.report("row:%s:%s" % (name, row_fails(ctx, small, name) or cls), row_detail(small),
                   {"kind": "row", "obligation": name, "class": cls, "row": show(small, 200), "wire": enc(small),
                    "original_wire": enc(row), "observed": got, "family": fam})


# ------------------------------------------------------------------------------------------
# J: split($x) | join($x)

SPLIT_PROG = "$P[] as [$s, $x] | $s | (try [split($x) | ., join($x)] catch null)"


def split_pairs_for(s, rng):
    ch = V.utf8_chunks(s.b)
    xs = [b""]
    if ch:
        xs.append(ch[0])
        xs.append(rng.choice(ch))
        if len(ch) >= 2:
            i = rng.randrange(len(ch) - 1)
            xs.append(ch[i] + ch[i + 1])
            xs.append(ch[-1])
        # a separator cutting a multi-byte character, and one byte of an invalid sequence
        xs.append(s.b[:1])
        xs.append(s.b[-1:])
    xs.append(rng.choice(ALPHA))
    xs.append(s.b)
    out = []
    seen = set()
    for x in xs:
        if x not in seen:
            seen.add(x)
            out.append([s, Str(x, True)])
    return out


def check_split(ctx, pairs, fam):
    res = batch_eval(ctx, SPLIT_PROG, "P", pairs)
    ctx.n["obl:split|join"] += len(pairs)
    cnt = 0
    for (s, x), R in zip(pairs, res):
        cls = None
        got = None
        if isinstance(R, tuple):
            cls, got = R[0], str(R[1])[:300]
        elif R is None:
            cls = "unexpected-error"
        else:
            parts, joined = R
            if not is_text(joined) or joined.b != s.b:
                cls, got = "round-trip-changes-string", show(R, 300)
        if cls:
            cnt += 1
            if cnt > 3:
                ctx.report("split-join:" + cls, "more", None)
                continue
            ctx.report("split-join:" + cls, "s:%s,x:%s" % (sdetail(s), sdetail(x)),
                       {"kind": "split", "wire": enc([s, x]), "class": cls, "observed": got, "family": fam,
                        "string": show(s), "separator": show(x)})


# ------------------------------------------------------------------------------------------
# D: decoders on malformed input

DEC_PROG = "$S[] | [(try [@base64d] catch null), (try [@urid] catch null)]"
B64 = b"ABCDEFGHIJKLMNOPQRSTUVWXYZabcdefghijklmnopqrstuvwxyz0123456789+/"


def b64_canonical(m):
    try:
        d = base64.b64decode(m, validate=True)
    except Exception:       # noqa
        return None
    return d if base64.b64encode(d) == m else None


def malformed_b64(rng):
    raw = bytes(rng.randrange(256) for _ in range(rng.choice([0, 1, 2, 3, 4, 5, 6, 9, 20])))
    e = base64.b64encode(raw)
    r = rng.randrange(12)
    if r == 0:
        m = e + rng.choice([b"!", b"=", b"A", b" ", b"\n", b"\x00", b"*garbage*", b"==", b"\xff", b"-", b"_"])
    elif r == 1:
        m = e.rstrip(b"=")
    elif r == 2 and e:
        i = rng.randrange(len(e) + 1)
        m = e[:i] + rng.choice([b" ", b"\n", b"\r\n", b"\t"]) + e[i:]
    elif r == 3 and e:
        i = rng.randrange(len(e))
        m = e[:i] + rng.choice([b"-", b"_", b"*", b"\xff", b"\xc3\xa9", b"!", b".", b"%"]) + e[i + 1:]
    elif r == 4:
        m = e[:max(0, len(e) - rng.choice([1, 2, 3]))]
    elif r == 5:
        m = e + base64.b64encode(bytes(rng.randrange(256) for _ in range(rng.choice([1, 2, 4]))))
    elif r == 6 and e.endswith(b"="):
        k = len(e.rstrip(b"=")) - 1
        m = e[:k] + bytes([B64[(B64.index(e[k]) | 1) % 64]]) + e[k + 1:]       # non-zero trailing bits
    elif r == 7:
        m = e + b"="
    elif r == 8:
        m = rng.choice([b"=", b"==", b"A", b"A===", b"AA=A", b"A=AA", b"=AAA", b"AAAA=", b"AAA", b"AA", b"\x00\x00\x00\x00"])
    elif r == 9 and e:
        m = e[:len(e) // 2] + b"=" + e[len(e) // 2:]
    elif r == 10:
        m = e.replace(b"+", b"-").replace(b"/", b"_")
    else:
        m = e
    return Str(m, True)


def malformed_uri(rng):
    parts = []
    for _ in range(rng.choice([1, 2, 3, 5])):
        r = rng.random()
        if r < 0.3:
            parts.append(b"%" + bytes([rng.choice(b"0123456789abcdefABCDEF"), rng.choice(b"0123456789abcdefABCDEF")]))
        elif r < 0.45:
            parts.append(b"%")
        elif r < 0.6:
            parts.append(b"%" + bytes([rng.choice(b"0123456789abcdefgGzZ %+")]))
        elif r < 0.7:
            parts.append(b"%" + rng.choice([b"zz", b"g0", b"0g", b"%4", b" 41", b"+41", b"\xc3\xa9", b"u00e9", b"\xff\xff"]))
        else:
            parts.append(rng.choice([b"a", b"+", b" ", b"\xc3\xa9", b"\xff", b"&", b"=", b"4", b"1", b"A"]))
    return Str(b"".join(parts), True)


def uri_valid_triplets(m):
    k = 0
    i = 0
    while i < len(m):
        if m[i] == 0x25 and len(m) - i >= 3 and m[i + 1] in HEX and m[i + 2] in HEX:
            k += 1
            i += 3
        else:
            i += 1
    return k


def check_decoders(ctx, strs, fam):
    res = batch_eval(ctx, DEC_PROG, "S", strs)
    for s, R in zip(strs, res):
        if isinstance(R, tuple):
            ctx.report("decoder:%s" % R[0], sdetail(s), {"kind": "decode", "wire": enc(s), "info": str(R[1])[:300]})
            continue
        m = s.b
        # base64
        ctx.n["obl:@base64d on arbitrary input"] += 1
        canon = b64_canonical(m)
        r = R[0]
        if canon is not None:
            ctx.n["@base64d:well-formed inputs"] += 1
            if r is None or not is_text(r[0]) or r[0].b != canon:
                ctx.report("decoder:@base64d:wrong-on-well-formed-input", sdetail(s),
                           {"kind": "decode", "wire": enc(s), "input": m.decode("latin-1"), "observed": show(r),
                            "python": canon.hex()})
        else:
            ctx.n["@base64d:malformed inputs"] += 1
            if r is None:
                ctx.n["@base64d:malformed rejected"] += 1
            else:
                d = r[0].b if isinstance(r[0], Str) else b""
                kept = bytes(c for c in m if c in B64)
                stripped = bytes(c for c in m if c not in b"= \t\r\n")
                if base64.b64encode(d).rstrip(b"=") != stripped or kept != stripped:
                    ctx.report("decoder:@base64d:accepts-malformed-input-with-loss", "input:" + sdetail(s),
                               {"kind": "decode", "wire": enc(s), "input": m.decode("latin-1"),
                                "observed": show(r[0]), "family": fam})
                else:
                    ctx.not_judged["@base64d:lenient on padding/whitespace without loss"] += 1
        # urid
        ctx.n["obl:@urid on arbitrary input"] += 1
        r = R[1]
        py = urllib.parse.unquote_to_bytes(m)
        if r is None:
            ctx.n["@urid:rejected"] += 1
        else:
            d = r[0].b if isinstance(r[0], Str) else None
            if d is None or len(d) < len(m) - 2 * uri_valid_triplets(m):
                ctx.report("decoder:@urid:loses-input", "input:" + sdetail(s),
                           {"kind": "decode", "wire": enc(s), "input": m.decode("latin-1"), "observed": show(r[0]),
                            "python": py.hex(), "family": fam})
            elif d != py:
                ctx.not_judged["@urid:malformed %-sequence treated differently from python (no loss)"] += 1
            else:
                ctx.n["@urid:agrees with python unquote_to_bytes"] += 1
    ctx.n["decoder_inputs"] += len(strs)


# ------------------------------------------------------------------------------------------
# M: regular expressions

RE_PROG = (
    "$P[] as [$s, $re, $f] | $s | (try [test($re; $f)] catch null) as $t | "
    "if $t == null then null else [$t[0], "
    "(try [[match($re; $f) | (., .captures[]) | [.offset, .length, .string, "
    "(.offset as $o | .length as $l | $s[$o:$o + $l])]]] catch [\"E\", .]), "
    "(try [[match($re; \"g\" + $f) | .string], [splits($re; $f)], split($re; $f), [scan($re; \"g\" + $f)]] catch [\"E\", .])"
    "] end")

RE_META = set("\\.+*?()|[]{}^$#&-~/")


def re_lit(c):
    if c in RE_META:
        return "\\" + c
    o = ord(c)
    if o < 0x20 or o == 0x7f or c == " ":
        return "\\x%02x" % o if o < 0x80 else c
    return c


def gen_regex(rng, chars, depth=2):
    def atom():
        r = rng.random()
        if r < 0.35 and chars:
            return re_lit(rng.choice(chars))
        if r < 0.45:
            return rng.choice([".", "\\w", "\\s", "\\S", "\\d", "\\W", "[^a]", "[a-z]", "[\u00e9\U0001d11e]", "[^\\x00-\\x7f]",
                               "[[:alpha:]]", "\\pL", "(?i:A)", "[\\s\\S]"])
        if r < 0.55:
            return rng.choice(["^", "$", "\\b", "\\B", "\\A", "\\z", ""])
        if r < 0.65:
            return re_lit(rng.choice(["a", "A", "z", "\u00e9", "\U0001d11e", "'", " ", "\n", "$", "*"]))
        if depth <= 0:
            return "."
        sub = gen_regex(rng, chars, depth - 1)
        return rng.choice(["(%s)", "(?<n%d>%%s)" % rng.randrange(3), "(?:%s)", "(?P<p>%s)", "(%s)?", "((%s))"]) % sub
    n = rng.choice([0, 1, 1, 2, 2, 3])
    seq = ""
    for _ in range(n):
        a = atom()
        q = rng.random()
        if q < 0.25 and a and a not in ("^", "$", "\\b", "\\B", "\\A", "\\z"):
            a += rng.choice(["*", "+", "?", "*?", "+?", "{0,2}", "{2}", "{1,}"])
        seq += a
    if depth > 0 and rng.random() < 0.25:
        seq += "|" + gen_regex(rng, chars, depth - 1)
    return seq


def rand_flags(rng):
    r = rng.random()
    if r < 0.2:
        return ""
    if r < 0.35:
        return "g"
    return "".join(c for c in "gnimslxp" if rng.random() < 0.3)


def norm_loc(loc):
    """panic site relative to the repository root (stable across scratch copies)"""
    return str(loc).split("/repo/")[-1]


def judge_regex(ctx, s, re_, f, R):
    """-> (class, observed) or None"""
    if isinstance(R, tuple):
        if R[0] == "panic":
            return ("panic:%s" % norm_loc(R[1].get("loc")), R[1].get("msg"))
        return ("evaluation-failed", str(R[1])[:200])
    if R is None:
        ctx.n["regex:rejected or error in test"] += 1
        return None
    ctx.n["obl:match offsets/lengths"] += 1
    valid = V.is_valid_utf8(s.b)
    chars = s.b.decode("utf-8") if valid else None
    t, ms, parts = R
    if ms and ms[0] == "E":
        return ("match-fails-where-test-succeeds", show(ms[1]))
    for off, ln, string, sliced in ms[0]:
        if not is_text(string) or not is_text(sliced) or string.b != sliced.b:
            return ("slice-by-offset-and-length-is-not-the-match", show([off, ln, string, sliced]))
        ctx.n["matches+captures checked"] += 1
        if valid:
            if "".join(chars[off:off + ln]).encode("utf-8") != string.b or not (0 <= off <= len(chars)):
                return ("offset/length-not-in-code-points", show([off, ln, string]))
    if bool(ms[0]) != (t is True):
        return ("test-disagrees-with-match", show([t, len(ms[0])]))
    if parts and parts[0] == "E":
        return ("split-fails-where-test-succeeds", show(parts[1]))
    mstr, sp1, sp2, sc = parts
    ctx.n["obl:split reassembly"] += 1
    if [x.b for x in sp1] != [x.b for x in sp2]:
        return ("splits-differs-from-split", show([sp1, sp2], 300))
    if len(sp1) != len(mstr) + 1:
        return ("parts-and-matches-do-not-interleave", show([sp1, mstr], 300))
    acc = b""
    for i, p in enumerate(sp1):
        acc += p.b
        if i < len(mstr):
            acc += mstr[i].b
    if acc != s.b:
        return ("parts-and-matches-do-not-reassemble", show([sp1, mstr], 300))
    if [x.b if isinstance(x, Str) else x for x in sc] != [x.b for x in mstr] and \
            not any(isinstance(x, list) for x in sc):
        return ("scan-differs-from-match-strings", show([sc, mstr], 300))
    return None


def check_regex(ctx, triples, fam):
    res = batch_eval(ctx, RE_PROG, "P", triples)
    ctx.n["regex_cases"] += len(triples)
    cnt = Counter()
    for (s, re_, f), R in zip(triples, res):
        j = judge_regex(ctx, s, re_, f, R)
        if j:
            cls, got = j
            cnt[cls] += 1
            if cnt[cls] > 3:
                ctx.report("regex:" + cls, "more", None)
                continue
            # shrink the string, keeping regex and flags
            def fails(p, re_=re_, f=f):
                R2 = batch_eval(ctx, RE_PROG, "P", [[p, re_, f]])[0]
                return judge_regex(ctx, p, re_, f, R2) is not None
            small = shrink_str(s, fails)
            # a panic is keyed by its site alone; other classes by the exact (regex, flags, string)
            detail = "site" if cls.startswith("panic:") else \
                "re=%s,flags=%s,s:%s" % (re_.b.decode("utf-8"), f.b.decode(), sdetail(small))
            ctx.report("regex:" + cls, detail,
                       {"kind": "regex", "wire": enc([small, re_, f]), "class": cls, "observed": got,
                        "string": show(small), "regex": re_.b.decode("utf-8"), "flags": f.b.decode(), "family": fam})


# ------------------------------------------------------------------------------------------
# P: length / slices / indices against code points

POS_PROG = ("$P[] as [$s, $sl, $xs] | $s | (try [length, [$sl[] as [$i, $j] | .[$i:$j]], "
            "[$xs[] as $x | indices($x)], [range(0; length + 1) as $k | .[:$k] + .[$k:]]] catch null)")


def check_positions(ctx, strs, fam):
    items = []
    for s in strs:
        valid = V.is_valid_utf8(s.b)
        n = len(s.b.decode("utf-8")) if valid else len(V.utf8_chunks(s.b))
        sl = [[i, j] for i in range(-n - 1, n + 2) for j in (None, i + 1, n, -1)][:40]
        sl += [[None, j] for j in range(-n - 1, n + 2)][:12]
        ch = V.utf8_chunks(s.b)
        xs = []
        for x in ch[:3] + ([ch[0] + ch[1]] if len(ch) > 1 else []) + ([ch[-1]] if ch else []):
            if x and Str(x, True) not in xs:
                xs.append(Str(x, True))
        items.append([s, sl, xs])
    res = batch_eval(ctx, POS_PROG, "P", items)
    cnt = Counter()
    for (s, sl, xs), R in zip(items, res):
        cls = None
        got = None
        valid = V.is_valid_utf8(s.b)
        if isinstance(R, tuple):
            cls, got = R[0], str(R[1])[:200]
        elif R is None:
            cls = "unexpected-error"
        else:
            ln, slices, idx, parts = R
            ctx.n["obl:slice partition .[:k]+.[k:]"] += len(parts)
            for k, p in enumerate(parts):
                if not is_text(p) or p.b != s.b:
                    cls, got = "slices-do-not-partition", "k=%d: %s" % (k, show(p))
            if valid and not cls:
                chars = s.b.decode("utf-8")
                n = len(chars)
                ctx.n["obl:length/slices/indices vs code points"] += 1 + len(sl) + len(xs)
                if ln != n:
                    cls, got = "length-not-code-points", show(ln)
                for (i, j), g in zip(sl, slices):
                    lo = V.clip_bound(i, n, 0)
                    hi = V.clip_bound(j, n, n)
                    exp = chars[lo:hi] if hi > lo else ""
                    if not is_text(g) or g.b != exp.encode("utf-8"):
                        cls, got = "slice-not-in-code-points", "[%s:%s] -> %s" % (i, j, show(g))
                for x, g in zip(xs, idx):
                    xc = x.b.decode("utf-8")
                    exp = [i for i in range(n - len(xc) + 1) if chars[i:i + len(xc)] == xc]
                    if g != exp:
                        cls, got = "indices-not-in-code-points", "indices(%s) -> %s" % (show(x), show(g))
            elif not valid:
                ctx.not_judged["positions:invalid-utf8 (only the partition law is judged)"] += 1
        if cls:
            cnt[cls] += 1
            if cnt[cls] > 3:
                ctx.report("positions:" + cls, "more", None)
                continue
            ctx.report("positions:" + cls, sdetail(s), {"kind": "positions", "wire": enc(s), "class": cls,
                                                         "observed": got, "string": show(s), "family": fam})
    ctx.n["position_strings"] += len(strs)


# ------------------------------------------------------------------------------------------
# tasks

def alpha_strings(n, lo, hi):
    return [Str(b"".join(ALPHA[i] for i in t), True)
            for t in itertools.islice(itertools.product(range(len(ALPHA)), repeat=n), lo, hi)]


def byte_strings():
    out = []
    for x in range(256):
        out.append(Str(bytes([x]), True))
        out.append(Str(b"a" + bytes([x]) + b"'", True))
    for b in (b"\xc3", b"\xe2\x82", b"\xf0\x9f\x98", b"\xed\xa0\x80", b"\xc0\x80", b"\xf4\x90\x80\x80", b"\xef\xbf\xbf",
              b"\xef\xbb\xbf", b"\xf4\x8f\xbf\xbf", b"\xe2\x80\xa8", b"\xc2\x85", b"\xc2\xa0", b"-n", b"-e", b"--", b"~",
              b"#", b"a=b", b"$(id)", b"`id`", b"${IFS}", b"$IFS", b"*", b"?", b"[a-z]", b"{a,b}", b"a;b", b"a|b", b"a&&b",
              b">f", b"<f", b"2>&1", b"\\n", b"\\\\", b"'\\''", b"'\"'", b"'$(id)'", b"\"$(id)\"", b"\n#", b"!!", b"!$",
              b"=1+1", b"@SUM(1)", b"+1", b"\"\"", b"\",\"", b"a\tb", b"a\\tb", b"\\t", b"\\0", b"\\", b"a\\", b"&amp;",
              b"&lt;", b"&#60;", b"&#x3c;", b"&lt", b"&amp;lt;", b"<script>", b"</a>", b"' onx='", b"%41", b"%", b"%%",
              b"%2", b"+", b"a+b", b"a b", b"?q=1&r=2#f", b"QQ==", b"=", b"ABCDEFGHIJKLMNOPQRSTUVWXYZ", b"abcxyz",
              "\u00c9\u00e9\u0130\u0131\u212a\u017f".encode(), b"[", b"]", b"@", b"^", b"`"):
        out.append(Str(b, True))
    return out


def rand_long(rng):
    r = rng.random()
    if r < 0.85:
        return rand_str13(rng, rng.choice([5, 8, 12, 20, 40]))
    n = rng.randrange(50, 300)
    return Str(b"".join(rng.choice(ALPHA + [b"a", b"Z", b"0"]) for _ in range(n)), True)


def digest(x):
    return hashlib.md5(repr(x).encode("utf-8", "surrogatepass")).digest()[:8]


def task(t):
    fam, arg, idx, seed, tier, profile, batch = t
    ctx = Ctx(profile, f"c13/{seed}/{fam}/{arg}/{idx}")
    rng = ctx.rng
    out = {"fam": fam, "cases": 0, "digests": set(), "sample": None}
    try:
        if fam in ("alpha", "bytes", "rand"):
            if fam == "alpha":
                strs = alpha_strings(*arg)
            elif fam == "bytes":
                strs = byte_strings()
            else:
                strs = [rand_long(rng) for _ in range(arg)]
            for i in range(0, len(strs), batch):
                check_strings(ctx, strs[i:i + batch], fam)
            # split/join and positions on the same strings (sampled for the big families)
            sub = strs if len(strs) <= 1500 else rng.sample(strs, 1500)
            pairs = []
            for s in sub:
                pairs += split_pairs_for(s, rng)
            for i in range(0, len(pairs), 2000):
                check_split(ctx, pairs[i:i + 2000], fam)
            for i in range(0, len(sub), 500):
                check_positions(ctx, sub[i:i + 500], fam)
            out["cases"] = len(strs) + len(pairs) + len(sub)
            out["digests"] = {digest(("s", s.b)) for s in strs if s.b} | {digest(("j", s.b, x.b)) for s, x in pairs if s.b}
            s0 = rng.choice(strs)
            out["sample"] = {"family": fam, "string": show(s0, 120), "bytes": s0.b.hex()[:120]}
        elif fam == "rows":
            rows = [rand_row(rng) for _ in range(arg)]
            rows += [[S("a,b"), S('c"d'), S("e\nf")], [], [None], [S("")], [S(""), S("")], [None, None], [S("x"), None]]
            for i in range(0, len(rows), batch):
                check_rows(ctx, rows[i:i + batch], fam)
            out["cases"] = len(rows)
            out["digests"] = {digest(("r", show(r, 2000))) for r in rows if r}
            r0 = rng.choice(rows)
            out["sample"] = {"family": fam, "row": show(r0, 160)}
        elif fam == "decode":
            strs = []
            for _ in range(arg):
                strs.append(malformed_b64(rng) if rng.random() < 0.55 else malformed_uri(rng))
            for i in range(0, len(strs), batch):
                check_decoders(ctx, strs[i:i + batch], fam)
            out["cases"] = len(strs)
            out["digests"] = {digest(("d", s.b)) for s in strs}
            out["sample"] = {"family": fam, "input": show(rng.choice(strs), 120)}
        elif fam == "regex":
            triples = []
            for _ in range(arg):
                r = rng.random()
                if r < 0.3:
                    k = rng.choice([1, 2, 3])
                    s = Str(b"".join(rng.choice(ALPHA) for _ in range(k)), True)
                elif r < 0.5:
                    s = Str("".join(rng.choice(["a", "A", "b", " ", "\n", "\u00e9", "\u00c9", "\U0001d11e", "z", "1", "_", "-"])
                                    for _ in range(rng.randrange(0, 9))).encode("utf-8"), True)
                else:
                    s = rand_str13(rng, 10)
                chars = s.b.decode("utf-8") if V.is_valid_utf8(s.b) else s.b.decode("utf-8", "ignore")
                re_ = gen_regex(rng, list(chars))
                triples.append([s, S(re_), S(rand_flags(rng))])
            fixed = [("a\u00e9\U0001d11eb", "\U0001d11e|b", "g"), ("a\u00e9\U0001d11eb", "", "g"), ("a\u00e9\U0001d11eb", "", "gn"),
                     ("\u00e9\u00e9", "\u00e9*", "g"), ("\u00e9\u00e9", "\u00e9*?", "gl"), ("aXbxc", "x", "gi"),
                     ("a b", "a b", "x"), ("a\nb", "a.b", "s"), ("a\nb", "^b", "gm"), ("\U0001d11e\U0001d11e", "(?<n>\U0001d11e)(\U0001d11e)?", "g"),
                     ("ab", "(a)|(b)", "g"), ("\u00e9", "\\b", "g"), ("\u00e9a", "\\w", "g"), ("", "", "g"), ("", "x*", "g"),
                     ("ba", "(?:(a)|(b))+", ""), ("ab", "(?:(a)|(b))+", ""), ("\u00e9a", "(?:(a)|(\u00e9))+", "g")]
            triples += [[S(a), S(b), S(c)] for a, b, c in fixed]
            triples += [[Str(b"a\xffb\xe2\x82c", True), S(r), S(f)] for r in (".", "", "b", "[^a]", "\\W", "c$", "(.)(.)")
                        for f in ("g", "gn", "")]
            for i in range(0, len(triples), batch):
                check_regex(ctx, triples[i:i + batch], fam)
            out["cases"] = len(triples)
            out["digests"] = {digest(("m", s.b, r.b, f.b)) for s, r, f in triples if r.b}
            s0, r0, f0 = rng.choice(triples)
            out["sample"] = {"family": fam, "string": show(s0), "regex": r0.b.decode("utf-8"), "flags": f0.b.decode()}
        else:
            raise ValueError(fam)
    except WorkerDied as e:
        ctx.inconc.append(classify_death(e))
    finally:
        ctx.close()
    out["n"] = dict(ctx.n)
    out["viol"] = ctx.viol
    out["inconc"] = ctx.inconc
    out["not_judged"] = dict(ctx.not_judged)
    return out


def chunks(total, size):
    return [(lo, min(total, lo + size)) for lo in range(0, total, size)]


def build_tasks(run):
    T = run.tier == "thorough"
    tasks = []

    def add(fam, arg, idx=0, profile="verif", batch=500):
        tasks.append((fam, arg, idx, run.seed, run.tier, profile, batch))

    def prof(i, every=3):
        return "release" if i % every == 0 else "verif"
    for n in (0, 1, 2, 3):
        for j, (lo, hi) in enumerate(chunks(len(ALPHA) ** n, 700)):
            add("alpha", (n, lo, hi), 0, prof(j + 1, 3), 700)
    if T:
        for j, (lo, hi) in enumerate(chunks(len(ALPHA) ** 4, 4000)):
            add("alpha", (4, lo, hi), 0, prof(j, 4), 1000)
    add("bytes", None)
    add("bytes", None, 1, "release")
    for i in range(run.size(10, 200)):
        add("rand", 1000, i, prof(i, 4), 500)
    for i in range(run.size(6, 80)):
        add("rows", 1500, i, prof(i, 4), 500)
    for i in range(run.size(4, 50)):
        add("decode", 2000, i, prof(i, 4), 1000)
    for i in range(run.size(12, 200)):
        add("regex", 1500, i, prof(i, 4), 500)
    return tasks


def replay(run):
    w = json.load(open(run.replay))["witness"]
    ctx = Ctx("verif", "replay")
    try:
        kind = w.get("kind")
        v = dec(w["wire"])
        if kind == "string":
            check_strings(ctx, [v], "replay")
        elif kind == "row":
            check_rows(ctx, [v], "replay")
        elif kind == "split":
            check_split(ctx, [v], "replay")
        elif kind == "decode":
            check_decoders(ctx, [v], "replay")
        elif kind == "regex":
            check_regex(ctx, [v], "replay")
        elif kind == "positions":
            check_positions(ctx, [v], "replay")
    finally:
        ctx.close()
    for prefix, detail, wit in ctx.viol:
        run.violation(prefix + ":" + detail, wit)
    run.finish({"evaluations": 1, "distinct_nontrivial": 1, "rule": "replay of one stored witness", "samples": [w],
                "observations": dict(ctx.n)})


def main():
    run = Run("C13")
    BIN["verif"] = build.jaqmon("verif")
    BIN["release"] = build.jaqmon("release")
    if run.replay:
        return replay(run)
    tasks = build_tasks(run)
    run.rng("order").shuffle(tasks)
    counts = Counter()
    fam_cases = Counter()
    distinct = Distinct(cap=6_000_000)
    samples = Samples(10, run.rng("samples"))
    not_judged = Counter()
    found = {}
    for out in par.pmap(task, tasks, run.jobs):
        counts.update(out["n"])
        fam_cases[out["fam"]] += out["cases"]
        not_judged.update(out["not_judged"])
        for d in out["digests"]:
            distinct.add(d)
        if out["sample"]:
            samples.add(out["sample"])
        for cls in out["inconc"]:
            run.inconc(cls)
        for prefix, detail, wit in out["viol"]:
            found.setdefault(prefix, {}).setdefault(detail, wit)
    for prefix in sorted(found):
        details = sorted(d for d in found[prefix] if d != "more")
        for d in details[:5]:
            run.violation(prefix + ":" + d, found[prefix][d])
        if not details:
            run.violation(prefix + ":more", {"note": "only seen after the per-class report limit"})
    obligations = {k[4:]: v for k, v in counts.items() if k.startswith("obl:")}
    evaluations = sum(obligations.values())
    broken = None
    for need in ("obl:@sh", "obl:@sh-format", "obl:row @sh", "sh_invocations", "obl:@csv", "obl:@tsv", "obl:@json",
                 "obl:@html", "obl:@uri", "obl:@base64", "obl:match offsets/lengths", "obl:split reassembly",
                 "obl:split|join", "obl:@base64d on arbitrary input", "@base64d:malformed rejected",
                 "obl:length/slices/indices vs code points", "matches+captures checked"):
        if counts[need] == 0:
            broken = "observation kind never exercised: " + need
    run.finish({
        "evaluations": evaluations,
        "distinct_nontrivial": len(distinct),
        "rule": "strings: exhaustive length <= 3" + (" and 4" if run.tier == "thorough" else "")
                + " over 22 metacharacters / multi-byte characters / an invalid byte, all 256 single bytes alone and "
                "embedded, a list of shell/CSV/HTML/URL attack strings, random longer strings; rows of scalars; "
                "(string, separator) pairs; malformed base64 / percent-encoded inputs; (string, regex, flags) triples "
                "from a regex generator; evaluations = obligations checked (one per string/row/pair/triple and "
                "round trip or consumer); distinct = distinct non-empty inputs per family",
        "samples": samples.items,
        "exhaustive": False,
        "by_family": dict(fam_cases),
        "obligation_counts": obligations,
        "observations": {k: v for k, v in counts.items() if not k.startswith("obl:")},
        "consumers_exercised": {
            "/bin/sh (argv of a shell function, NUL-separated)": counts["sh_words_recovered"],
            "python csv.reader (strict)": counts["obl:@csv"] + counts["obl:@csv3"] + counts["obl:row @csv"] + counts["obl:@csv-format"],
            "TSV splitter/unescaper per docs": counts["obl:@tsv"] + counts["obl:@tsv3"] + counts["obl:row @tsv"] + counts["obl:@tsv-format"],
            "python json.loads": counts["obl:@json"] + counts["obl:@json-format"] + counts["obl:row @json"],
            "python html.unescape": counts["obl:@html"],
            "python html.parser.HTMLParser (element, attributes, data)": counts["obl:@html-format"],
            "python urllib.parse.unquote_to_bytes": counts["obl:@uri"] + counts["obl:@urid on arbitrary input"],
            "python urllib.parse.urlsplit+parse_qsl": counts["obl:@uri-format"],
            "python base64.b64decode(validate=True)": counts["obl:@base64"] + counts["obl:tobytes|@base64"]
            + counts["obl:@base64-format"] + counts["obl:@base64d on arbitrary input"],
        },
        "observed_not_judged": dict(not_judged),
        "profiles": ["verif", "release"], "tasks": len(tasks),
    }, assumptions=[
        "the image's /bin/sh (dash) is a POSIX shell; PATH is empty and the cwd a scratch directory while it runs",
        "Python's csv (excel dialect, strict), json, html, html.parser, urllib.parse and base64 modules are correct consumers",
        "the TSV reader is written from docs/stdlib.dj (tab-separated, escapes \\n \\r \\t \\\\ \\0)",
        "for invalid UTF-8 only jaq-internal consistency (slice == match string, partition law) is judged, not a notion of character",
        "@urid passing malformed % sequences through unchanged is accepted (DESIGN Appendix B); only loss of input is a violation",
    ], broken=broken)


if __name__ == "__main__":
    main()
