"""C09 — integer arithmetic is exact at any size; operators follow the manual's rules.

Monitor (three parts, every workload in the profiles `verif` and `release`):

1. *Arithmetic matrices.* A pool `$A` of typed operands (integers straddling every
   representation boundary, forced big-integer representations of small values, floats incl.
   -0.0 / inf / NaN / subnormals, decimal literals) is injected and ONE program computes all
   pairs for `+ - * / %` (each wrapped in `try`) plus unary minus. Every result is compared with
   Python integers / IEEE doubles (vlib.values): integers exactly, kind (integer vs float) by
   the manual's rule, floats bit for bit (NaN = NaN).
2. *Non-numeric equations.* A pair list over null, booleans, text/byte strings, arrays, objects
   (and a few numbers) checks null neutrality, concatenation, right-biased union keeping left
   positions (key ORDER is compared), recursive merge, string repetition, array difference,
   string split with `join` as inverse, and "everything else is an error".
3. *Representation independence* (metamorphic): every integer consumer is run with the machine
   integer n, with the typed-injected big-integer representation of n and with
   `n + 2^70 - 2^70` computed at run time; the three results must be identical. `halt(n)` is
   compared at the real CLI."""
import math
import os
import random
import subprocess
import sys
import tempfile

sys.path.insert(0, os.path.dirname(os.path.dirname(os.path.abspath(__file__))))
from vlib import build, gen, par, values as V
from vlib.client import WorkerDied, classify_death
from vlib.codec import Big, Dec, Obj, S, Str, dec, enc, fbits, show
from vlib.run import Distinct, Run, Samples

OPS = ["+", "-", "*", "/", "%"]
I63 = 2 ** 63
BIG = 2 ** 70
RESOURCE = ("capacity overflow", "memory allocation", "out of memory", "overflowed its stack")


# ---------------------------------------------------------------------------------------
# comparison of observed values with model values

def same(g, e):
    """observed value g (decoded wire) equals model value e: exact integers, integer/float/
    literal kind, floats bit for bit (NaN = NaN), strings bytewise incl. text/byte kind,
    arrays elementwise, objects entry by entry IN ORDER (keys up to jq equality)."""
    if isinstance(e, Big):
        e = e.n
    if e is None or isinstance(e, bool):
        return g is e
    if isinstance(g, bool) or g is None:
        return False
    if isinstance(e, int):
        return isinstance(g, int) and g == e
    if isinstance(e, float):
        if not isinstance(g, float):
            return False
        return (math.isnan(g) and math.isnan(e)) or fbits(g) == fbits(e)
    if isinstance(e, Dec):
        return isinstance(g, Dec) and g.text == e.text
    if isinstance(e, Str):
        return isinstance(g, Str) and g.b == e.b and g.text == e.text
    if isinstance(e, list):
        return isinstance(g, list) and len(g) == len(e) and all(same(x, y) for x, y in zip(g, e))
    if isinstance(e, Obj):
        if not isinstance(g, Obj) or len(g.items) != len(e.items):
            return False
        for (gk, gv), (ek, ev) in zip(g.items, e.items):
            if not (same(gk, ek) or V.eq(gk, V.norm(ek))):
                return False
            if not same(gv, ev):
                return False
        return True
    return False


def rep(v):
    if v is None:
        return "null"
    if isinstance(v, bool):
        return "bool"
    if isinstance(v, Big):
        return "bigint" if not (-I63 <= v.n < I63) else "forced-bigint"
    if isinstance(v, int):
        return "int" if -I63 <= v < I63 else "bigint"
    if isinstance(v, float):
        if math.isnan(v):
            return "nan"
        return "float" if not math.isinf(v) else "inf"
    if isinstance(v, Dec):
        return "dec"
    if isinstance(v, Str):
        return "text" if v.text else "bytes"
    if isinstance(v, list):
        return "arr"
    return "obj"


def mag(v):
    """finer class of an operand / result for the distinct-case count"""
    if V.is_int(v):
        n = V.ival(v)
        b = abs(n).bit_length()
        for lim in (0, 31, 53, 62, 63, 64, 127):
            if b <= lim:
                return ("-" if n < 0 else "") + "i%d" % lim
        return ("-" if n < 0 else "") + "ibig"
    if isinstance(v, float):
        if math.isnan(v):
            return "nan"
        if math.isinf(v):
            return "inf"
        if v == 0:
            return "f0"
        return "fsub" if abs(v) < 2.3e-308 else ("fbig" if abs(v) >= 2.0 ** 53 else "f")
    return rep(v)


def outcome(f, *args):
    """('ok', value) | ('err',) | ('unspec',) from a model function"""
    try:
        return ("ok", f(*args))
    except V.JqError:
        return ("err",)
    except V.Unspecified:
        return ("unspec",)
    except (OverflowError, MemoryError):
        return ("unspec",)


def is_resource(msg):
    return any(s in msg for s in RESOURCE)


# ---------------------------------------------------------------------------------------
# part 1: numeric matrices

NUM_PROG = ('$A[] as $x | [ (try [-$x] catch "ERR"), [ $A[] as $y | ['
            + ", ".join('(try [$x %s $y] catch "ERR")' % op for op in OPS) + "] ] ]")


def boundary_ints():
    s = {0, 1, -1, 2, -2, 3, -3, 10, -10, 255, 256}
    for k in (8, 16, 31, 32, 52, 53, 54, 62, 63, 64, 65, 127, 128):
        for d in (-2, -1, 0, 1, 2):
            s.add(2 ** k + d)
            s.add(-(2 ** k) + d)
    # operands whose product / sum / difference lands exactly on a representation boundary
    s |= {3037000499, 3037000500, -3037000499, -3037000500,       # floor(sqrt(2^63)) and +1
          153092023, 60247241209, -153092023,                      # 153092023 * 60247241209 = 2^63 - 1
          2 ** 61, 3 * 2 ** 61, -(3 * 2 ** 61), 2 ** 62 + 2 ** 61,  # sums crossing 2^63
          (2 ** 63 - 1) // 3, (2 ** 63) // 3 + 1, 6148914691236517205, 4611686018427387904,
          2 ** 33, 2 ** 30, -(2 ** 30), 2 ** 21, 2 ** 42, 10 ** 19, 10 ** 18, -(10 ** 19), 10 ** 20, 10 ** 40}
    return sorted(s)


def forced_bigs():
    return [Big(0), Big(1), Big(-1), Big(2), Big(7), Big(-3), Big(2 ** 31), Big(2 ** 53), Big(2 ** 63 - 1),
            Big(-(2 ** 63)), Big(3037000500), Big(-(2 ** 62))]


def random_ints(rng, n):
    out = []
    for _ in range(n):
        r = rng.random()
        if r < 0.35:
            bits = rng.choice([1, 5, 16, 31, 32, 33, 52, 53, 62, 63, 64, 65, 70, 100, 128, 140])
            v = rng.getrandbits(bits)
        elif r < 0.6:          # near a boundary
            v = 2 ** rng.choice([31, 32, 53, 62, 63, 64]) + rng.randrange(-40, 41)
        elif r < 0.8:          # a factor pair of something next to 2^63 / 2^64
            a = rng.getrandbits(rng.choice([8, 20, 31, 32, 40])) + 2
            target = 2 ** rng.choice([63, 64]) + rng.randrange(-3, 4)
            out.append(a)
            v = target // a + rng.randrange(0, 2)
        else:                  # summands of a boundary
            a = rng.getrandbits(62)
            out.append(a)
            v = 2 ** 63 - a - rng.randrange(0, 3)
        out.append(-v if rng.random() < 0.45 else v)
    return out


def num_pool(kind, rng):
    if kind == "ints":        # every boundary integer against every other one
        pool = list(boundary_ints()) + forced_bigs()[:6]
    else:                      # all kinds of numbers
        pool = rng.sample(boundary_ints(), 36) + forced_bigs() + random_ints(rng, 14)
        pool += rng.sample(gen.FLOATS, 22) + [math.nan, -0.0, 0.0, 5e-324, math.inf, -math.inf]
        pool += rng.sample(gen.DECS, 10) + [Dec("1e1000"), Dec("-0.0")]
    if kind == "rand":
        pool = random_ints(rng, 60) + rng.sample(boundary_ints(), 25) + forced_bigs()[:4] + \
            rng.sample(gen.FLOATS, 8) + [Dec("2.50")]
    rng.shuffle(pool)
    return pool


def num_verdict(g, exp):
    """None if ok, else a short class of disagreement"""
    if exp[0] == "unspec":
        return None
    if exp[0] == "err":
        return None if g == ERRV else "expected-error"
    if g == ERRV:
        return "unexpected-error"
    if not (isinstance(g, list) and len(g) == 1):
        return "shape"
    got, e = g[0], exp[1]
    if same(got, e):
        return None
    gi = isinstance(got, int) and not isinstance(got, bool)
    if V.is_int(e) != gi:
        return "kind"
    return "value"


ERRV = Str(b"ERR", True)


def check_num(c, pool, profile, out):
    n = len(pool)
    r = c.eval(NUM_PROG, [{"input": None}], vars=[("A", enc(pool))], take=n + 1, timeout=600)
    if "compile_error" in r:
        raise SystemExit("HARNESS BUG: " + str(r)[:500])
    res = r["results"][0]
    if res.get("panic"):
        # find the culprit pair(s) one row at a time, then one pair at a time
        locate_num_panic(c, pool, profile, out)
        return
    if res["end"][0] != "end" or len(res["outs"]) != n:
        out["viol"].append(("matrix:incomplete", {"end": res["end"], "outs": len(res["outs"]), "profile": profile}))
        return
    for i, o in enumerate(res["outs"]):
        row = dec(o[0])
        x = pool[i]
        judge_neg(x, row[0], profile, out)
        for j, cell in enumerate(row[1]):
            y = pool[j]
            for k, op in enumerate(OPS):
                judge_arith(op, x, y, cell[k], profile, out)


def judge_neg(x, g, profile, out):
    exp = outcome(V.neg, x)
    if isinstance(x, Dec) and exp[0] == "ok":
        # the manual does not spell out the spelling of a negated literal: judge the value
        ok = isinstance(g, list) and len(g) == 1 and V.is_num(g[0]) and \
            same(V.to_float(g[0]), -V.to_float(x))
        bad = None if ok else "value"
    else:
        bad = num_verdict(g, exp)
    out["ops"] += 1
    out["distinct"].add("neg:%s:%s" % (mag(x), exp[0] if exp[0] != "ok" else mag(exp[1])))
    if bad:
        out["viol"].append(("neg:%s:%s" % (rep(x), bad),
                            {"kind": "neg", "x": show(x), "x_wire": enc(x), "expected": show_out(exp),
                             "got": show_got(g), "profile": profile}))


def judge_arith(op, x, y, g, profile, out):
    exp = outcome(V.MATH[op], x, y)
    out["ops"] += 1
    if exp[0] == "unspec":
        out["unspec"] += 1
        return
    cls = "%s:%s/%s:%s" % (op, mag(x), mag(y), exp[0] if exp[0] != "ok" else mag(exp[1]))
    if not (mag(x) in ("i0", "i31", "-i31") and mag(y) in ("i0", "i31", "-i31")):
        out["distinct"].add(cls)
        out["nontrivial"] += 1
    bad = num_verdict(g, exp)
    if bad:
        out["viol"].append(("arith:%s:%s/%s:%s" % (op, rep(x), rep(y), bad),
                            {"kind": "arith", "op": op, "x": show(x), "y": show(y), "x_wire": enc(x),
                             "y_wire": enc(y), "expected": show_out(exp), "got": show_got(g), "profile": profile}))
    elif len(out["samples"]) < 3 and out["rng"].random() < 0.0005:
        out["samples"].append({"op": op, "x": show(x), "y": show(y), "result": show_got(g), "profile": profile})


def show_out(exp):
    return "error" if exp[0] == "err" else ("unspecified" if exp[0] == "unspec" else show(exp[1]))


def show_got(g):
    if g == ERRV:
        return "error"
    if isinstance(g, list) and len(g) == 1:
        return show(g[0])
    return "?" + show(g)


def locate_num_panic(c, pool, profile, out):
    prog = ('[ (try [-$x] catch "ERR"), ' + ", ".join('(try [$x %s $y] catch "ERR")' % op for op in OPS) + "]")
    for x in pool:
        for y in pool:
            r = c.eval(prog, [{"input": None}], vars=[("x", enc(x)), ("y", enc(y))], take=2)
            res = r["results"][0]
            if res.get("panic"):
                single_ops_after_panic(c, x, y, res["panic"], profile, out)


def single_ops_after_panic(c, x, y, panic, profile, out):
    for op in OPS + ["neg"]:
        prog = "-$x" if op == "neg" else "$x %s $y" % op
        r = c.eval(prog, [{"input": None}], vars=[("x", enc(x)), ("y", enc(y))], take=2)
        res = r["results"][0]
        if res.get("panic"):
            msg = res["panic"].get("msg", "")
            if is_resource(msg):
                out["inconc"].append("resource-exhaustion")
                continue
            out["viol"].append(("panic:%s:%s/%s" % (op, rep(x), rep(y)),
                                {"kind": "arith" if op != "neg" else "neg", "op": op, "x": show(x), "y": show(y),
                                 "x_wire": enc(x), "y_wire": enc(y), "panic": res["panic"], "profile": profile}))


# ---------------------------------------------------------------------------------------
# part 2: non-numeric equations

MIX_PROG = ("$P[] as [$x, $y] | [" + ", ".join('(try [$x %s $y] catch "ERR")' % op for op in OPS)
            + ', (try [($x / $y) | join($y | tostring)] catch "ERR")]')


def mixed_values(rng, extra):
    o = Obj
    non = [None, True, False,
           S(""), S("a"), S("ab"), S("é€"), S("a,b,,c"), S(","), S(",a,"), S("aaa"), S("aa"), Str(b"a\xffb", True),
           Str(b"", False), Str(b"a", False), Str(b"ab\x00", False), Str(b"a,b", False), Str(b",", False),
           Str(b"\xff\xfe\xff", False), Str(b"\xff", False),
           [], [1], [1, 2, 1], [1.0, Big(1), 2, None], [[1], [2]], [S("a"), [1]], [None], [2, S("a"), 2.0, [1]],
           o([]), o([(S("a"), 1)]), o([(S("a"), 1), (S("b"), 2)]), o([(S("b"), 3), (S("a"), 4)]),
           o([(S("b"), 3), (S("c"), 4)]), o([(S("c"), 0), (S("b"), 1), (S("a"), 2)]),
           o([(S("a"), o([(S("b"), 0), (S("c"), 2)])), (S("e"), 4)]),
           o([(S("a"), o([(S("b"), 1), (S("d"), 3)])), (S("f"), 5)]),
           o([(S("a"), o([(S("x"), o([(S("y"), 1)]))]))]), o([(S("a"), o([(S("x"), o([(S("z"), 2)])), (S("w"), 0)]))]),
           o([(S("a"), 7)]), o([(S("a"), None)]), o([(S("a"), [1])]),
           o([(0, 1), ([0], 2), (None, 3)]), o([(None, 9), (0.0, 8)]), o([(Big(0), 5), (S("a"), 6)]),
           o([(Str(b"a", False), 1)]), o([(o([]), 1), (True, 2)])]
    nums = [0, 1, -1, 2, 3, 5, Big(0), Big(2), Big(-1), Big(3), -(2 ** 70), -(2 ** 63), 2 ** 63, 2 ** 70,
            1.0, 2.0, 1.5, -0.0, Dec("2.0"), Dec("2"), math.nan, math.inf]
    rnd = []
    alpha = ["a", "b", ",", "é", "€", "", "ab", ",,"]
    for _ in range(extra):
        r = rng.random()
        if r < 0.3:
            t = rng.random() < 0.7
            rnd.append(Str("".join(rng.choice(alpha) for _ in range(rng.randrange(0, 7))).encode(), t))
        elif r < 0.55:
            rnd.append([rng.choice([0, 1, 2, 1.0, Big(2), None, S("a"), [1], True]) for _ in range(rng.randrange(0, 6))])
        else:
            keys = rng.sample([S("a"), S("b"), S("c"), 0, 1, None, [0], S("")], rng.randrange(0, 5))
            vals = [1, 2, None, S("v"), [1], o([(S("a"), 1)]), o([(S("b"), o([(S("c"), 1)]))]), o([])]
            rnd.append(o([(k, rng.choice(vals)) for k in keys]))
    return non, nums, rnd


def rep_ok(x, y):
    """string repetition stays small"""
    for s, n in ((x, y), (y, x)):
        if isinstance(s, Str) and V.is_int(n) and V.ival(n) > 0 and V.ival(n) * max(1, len(s.b)) > 4096:
            return False
    return True


def arrays_in_domain(x, y):
    if isinstance(x, list) and isinstance(y, list):
        return all(V.cmp_in_domain(a, b) for a in x for b in y)
    return True


def mixed_pairs(rng, extra):
    non, nums, rnd = mixed_values(rng, extra)
    allv = non + nums
    pairs = [(x, y) for x in allv for y in allv if not (V.is_num(x) and V.is_num(y))]
    for v in rnd:
        for w in rng.sample(allv + rnd, 12):
            pairs.append((v, w))
            pairs.append((w, v))
    return [(x, y) for x, y in pairs if rep_ok(x, y)]


def judge_mixed(x, y, cell, profile, out):
    for k, op in enumerate(OPS):
        exp = outcome(V.MATH[op], x, y)
        if op == "-" and exp[0] == "ok" and not arrays_in_domain(x, y):
            exp = ("unspec",)
        if op == "/" and isinstance(x, Str) and isinstance(y, Str) and not x.text and len(y.b) == 0:
            # "each character of the input": the manual does not say what a character of a BYTE string is
            # (jaq splits at UTF-8 boundaries); only the join-inverse below is judged
            exp = ("unspec",)
        out["ops"] += 1
        if exp[0] == "unspec":
            out["unspec"] += 1
            continue
        out["nontrivial"] += 1
        out["distinct"].add("mixed:%s:%s/%s:%s" % (op, rep(x), rep(y), exp[0]))
        if exp[0] == "ok":
            out["eq_cases"][eq_class(op, x, y)] = out["eq_cases"].get(eq_class(op, x, y), 0) + 1
        bad = num_verdict(cell[k], exp)
        if bad:
            out["viol"].append(("equation:%s:%s/%s:%s" % (op, rep(x), rep(y), bad),
                                {"kind": "arith", "op": op, "x": show(x), "y": show(y), "x_wire": enc(x),
                                 "y_wire": enc(y), "expected": show_out(exp), "got": show_got(cell[k]),
                                 "profile": profile}))
        elif exp[0] == "ok" and len(out["samples"]) < 3 and out["rng"].random() < 0.004:
            out["samples"].append({"op": op, "x": show(x), "y": show(y), "result": show_got(cell[k]),
                                   "profile": profile})
    # join is the inverse of string division
    if isinstance(x, Str) and isinstance(y, Str) and x.text == y.text:
        out["ops"] += 1
        out["eq_cases"]["split-join"] = out["eq_cases"].get("split-join", 0) + 1
        g = cell[5]
        ok = isinstance(g, list) and len(g) == 1 and isinstance(g[0], Str) and g[0].b == x.b
        if not ok:
            out["viol"].append(("equation:split-join:%s" % rep(x),
                                {"kind": "join", "x": show(x), "y": show(y), "x_wire": enc(x), "y_wire": enc(y),
                                 "expected": show(x), "got": show_got(g), "profile": profile}))


def eq_class(op, x, y):
    if x is None or y is None:
        return "null-neutral"
    kx, ky = V.kind(x), V.kind(y)
    if op == "+":
        return {"string": "concat-string", "array": "concat-array", "object": "union"}.get(kx, "other")
    if op == "-":
        return "array-difference"
    if op == "*":
        return "merge" if kx == "object" else "repeat"
    if op == "/":
        return "split"
    return "other"


def check_mixed(c, pairs, profile, out):
    B = 600
    for a in range(0, len(pairs), B):
        chunk = pairs[a:a + B]
        r = c.eval(MIX_PROG, [{"input": None}], vars=[("P", enc([[x, y] for x, y in chunk]))],
                   take=len(chunk) + 1, timeout=300)
        if "compile_error" in r:
            raise SystemExit("HARNESS BUG: " + str(r)[:500])
        res = r["results"][0]
        if res.get("panic"):
            for x, y in chunk:
                r1 = c.eval(MIX_PROG, [{"input": None}], vars=[("P", enc([[x, y]]))], take=2)
                if r1["results"][0].get("panic"):
                    single_ops_after_panic(c, x, y, r1["results"][0]["panic"], profile, out)
            continue
        if res["end"][0] != "end" or len(res["outs"]) != len(chunk):
            out["viol"].append(("pairs:incomplete", {"end": res["end"], "outs": len(res["outs"]), "profile": profile}))
            continue
        for (x, y), o in zip(chunk, res["outs"]):
            judge_mixed(x, y, dec(o[0]), profile, out)


# ---------------------------------------------------------------------------------------
# part 3: representation independence

# (name, filter using $k as the integer under test; $n is always the machine/literal form and is
#  only used in size guards). Every filter is wrapped in `try`.
CONSUMERS = [
    ("index-array", "[1,2,3,4,5] | .[$k]"),
    ("index-bytes", '"aébc€" | tobytes | .[$k]'),
    ("slice-array", "[1,2,3,4,5] | [.[$k:], .[:$k], .[1:$k], .[$k:$k+2], .[{start: $k}], .[{end: $k}]]"),
    ("slice-text", '"aébc€" | [.[$k:], .[:$k], .[1:$k]]'),
    ("slice-bytes", '"aébc€" | tobytes | [.[$k:], .[:$k]]'),
    ("has-array", "[1,2,3] | has($k)"),
    ("nth", "[1,2,3] | nth($k)"),
    ("nth-stream", "[nth($k; range(10))]"),
    ("limit", "[limit($k; range(10))]"),
    ("limit-inf", "if $n < 50 then [limit($k; repeat(1))] else \"SKIP\" end"),
    ("skip", "[skip($k; range(10))]"),
    ("range-upto", "[limit(5; range($k))]"),
    ("range-from", "[limit(5; range($k; $k + 3))]"),
    ("range-to", "[limit(5; range(-3; $k))]"),
    ("range-step", "[limit(5; range(0; 10; $k))]"),
    ("range-len", 'if $n < 2000 then [range($k)] | length else "SKIP" end'),
    ("repeat-text", 'if $n < 2000 then ["ab" * $k, $k * "é"] else "SKIP" end'),
    ("repeat-bytes", 'if $n < 2000 then ("ab" | tobytes) * $k else "SKIP" end'),
    ("tobytes", "$k | tobytes"),
    ("tobytes-array", "[$k, 65, [$k]] | tobytes"),
    ("implode", "[$k, 97] | implode"),
    ("implode-explode", "[$k] | implode | explode"),
    ("ldexp", "ldexp(1.5; $k)"),
    ("scalbln", "scalbln(1.5; $k)"),
    ("scalb", "scalb(1.5; $k)"),
    ("jn", 'if $n > -50 and $n < 50 then [jn($k; 0.5), yn($k; 0.5)] else "SKIP" end'),
    ("float-math", "$k | [sqrt, fabs, trunc, significand, logb]"),
    ("round", "$k | [floor, round, ceil]"),
    ("abs", "$k | abs"),
    ("length", "$k | length"),
    ("compare", "[$k < 3, $k <= 3, $k == 3, $k != 3, $k > -1, $k >= $n, $k == $n, $k < $n, $k == 3.0, $k < 2.5, "
                "[$k] == [$n], [$k, 1] < [$n, 2], {a: $k} == {a: $n}]"),
    ("compare-float", "[$k == ($n + 0.0), $k < ($n + 0.5), $k > ($n - 0.5)]"),
    ("sort", "[[$k, 1, $n, 0] | sort, unique, group_by(.), min, max, (sort_by(-.) | .[0])]"),
    ("search", "[[1, $n, 3, $n] | index($k), rindex($k), indices($k), indices([$k]), (sort | bsearch($k)), "
               "contains([$k]), ([$k] | inside([1, $n])), (. - [$k])]"),
    ("key-has", "{($k): 1, zz: 2} | [has($n), .[$n], has($k), .[$k], length]"),
    ("key-lookup", "{($n): 1, zz: 2} | [has($k), .[$k]]"),
    ("key-update", "{($n): 1, zz: 2} | [(.[$k] |= 5), (.[$k] = 6), del(.[$k]), (. + {($k): 7}), (. * {($k): 8}), "
                   "({($k): 9} + .)] | map([length, .[$n]])"),
    ("key-construct", "{($n): 1, ($k): 2, zz: 3} | [length, .[$n], .[$k]]"),
    ("key-nested", "{([$k]): 1, zz: 2} | [has([$n]), .[[$n]]]"),
    ("key-entries", "{($k): 1} | to_entries | .[0].key == $n"),
    ("pattern", "[1,2,3] as {($k): $x} | [$x]"),
    ("flatten", "[1,[2,[3,[4]]]] | flatten($k)"),
    ("combinations", 'if $n < 6 then [[1,2] | combinations($k)] else "SKIP" end'),
    ("getpath", "[[1,2,3] | getpath([$k]), ([[1,2],[3,4],[5]] | getpath([$k, $k]))]"),
    ("setpath", "[1,2,3] | [setpath([$k]; 9), delpaths([[$k]])]"),
    ("update-index", "[1,2,3] | [(.[$k] |= 7), (.[$k] = 8), del(.[$k])]"),
    ("update-slice", "[1,2,3,4] | [(.[$k:] |= [\"x\"]), (.[:$k] = [\"y\"]), del(.[$k:3])]"),
    ("update-slice-text", '"aébc" | [(.[$k:] |= "x"), del(.[:$k])]'),
    ("arith", "[$k + 1, $k - 1, $k * 3, $k % 7, -$k, $k * $k, $k + 0.5, $k / 2, 7 % (if $k == 0 then 1 else $k end)]"),
    ("print", '[($k | tojson), ($k | tostring), "\\($k)", ([$k] | tojson), ({($k): $k} | tojson), ($k | @text), '
              "([$k] | @csv), ([$k] | @tsv), ($k | @html), ($k | @uri), ($k | @sh), ($k | @base64)]"),
    ("tonumber", "$k | tostring | tonumber == $n"),
    ("error-payload", "try error($k) catch ."),
    ("splits", '"a1b22c" | [splits("[0-9]+")] | .[$k]'),
    ("transpose-len", "[[1,2,3],[4]] | transpose | .[$k]"),
]


def repr_prog():
    body = ", ".join('(try [%s] catch "ERR")' % f for _, f in CONSUMERS)
    return ("$NS[] as [$n, $N] | ($n + $big - $big) as $c | [[$n, $N, $c], [($n, $N, $c) as $k | [" + body + "]]]")


def repr_ints(rng, extra):
    ns = set(range(-7, 13)) | {-(2 ** 63), -(2 ** 63) + 1, -(2 ** 53) - 1, -(2 ** 31) - 1, -(2 ** 31), -257, -256,
                               -255, -129, -128, -97, -65, 65, 97, 127, 128, 255, 256, 257, 1000, 1999, 2000, 65535,
                               65536, 0xD7FF, 0xD800, 0xDFFF, 0xE000, 0x10FFFF, 0x110000, 2 ** 31 - 1, 2 ** 31,
                               2 ** 32, 2 ** 53, 2 ** 53 + 1, 2 ** 63 - 1, -1023, 1023, 1024, -1074, -1075, 49, 50}
    for _ in range(extra):
        r = rng.random()
        if r < 0.5:
            ns.add(rng.randrange(-300, 2100))
        elif r < 0.8:
            ns.add((1 if rng.random() < 0.5 else -1) * rng.getrandbits(rng.choice([16, 21, 31, 32, 53, 63])))
        else:
            ns.add(rng.choice([2 ** 31, 2 ** 32, 2 ** 53, 2 ** 63 - 40, 0x110000, 0xD800]) + rng.randrange(-40, 41))
    return sorted(n for n in ns if -I63 <= n < I63)


def wire_tag(w):
    return next(iter(w)) if isinstance(w, dict) else "?"


def check_repr(c, ns, profile, out):
    prog = repr_prog()
    B = 40
    for a in range(0, len(ns), B):
        chunk = ns[a:a + B]
        r = c.eval(prog, [{"input": None}],
                   vars=[("NS", enc([[n, Big(n)] for n in chunk])), ("big", enc(BIG))], take=len(chunk) + 1, timeout=300)
        if "compile_error" in r:
            raise SystemExit("HARNESS BUG (repr program): " + str(r["compile_error"].get("report"))[:1500])
        res = r["results"][0]
        if res.get("panic") or res["end"][0] != "end" or len(res["outs"]) != len(chunk):
            if len(chunk) > 1:          # isolate the integer first, then the consumer
                for n in chunk:
                    check_repr(c, [n], profile, out)
            else:
                repr_single(c, chunk[0], profile, out)
            continue
        for n, o in zip(chunk, res["outs"]):
            judge_repr(n, o[0], profile, out)


def judge_repr(n, wire, profile, out):
    forms, results = wire
    tags = [wire_tag(w) for w in forms]
    if tags[0] != tags[1] or tags[0] != tags[2]:
        out["repr_distinct"] += 1
    vals = [dec(w) for w in forms]
    if not (vals[0] == n and vals[1] == n and vals[2] == n and all(isinstance(v, int) for v in vals)):
        out["viol"].append(("repr:roundtrip:n+big-big", {"kind": "repr", "n": str(n), "consumer": "(identity)",
                                                          "forms": [show(v) for v in vals], "profile": profile}))
    a, b, cc = results
    for ci, (name, filt) in enumerate(CONSUMERS):
        out["ops"] += 3
        ra, rb, rc = a[ci], b[ci], cc[ci]
        skipped = dec(ra) == [Str(b"SKIP", True)]
        if not skipped:
            out["nontrivial"] += 1
            out["consumers"][name] = out["consumers"].get(name, 0) + 1
            out["distinct"].add("repr:%s:%s:%s" % (name, mag(n), "err" if dec(ra) == ERRV else "ok"))
        if not (repr_equal(ra, rb) and repr_equal(ra, rc)):
            out["viol"].append(("repr:%s" % name,
                                {"kind": "repr", "consumer": name, "filter": filt, "n": str(n),
                                 "with machine int": show(dec(ra)), "with injected bigint": show(dec(rb)),
                                 "with n+2^70-2^70": show(dec(rc)), "profile": profile}))
        elif not skipped and len(out["samples"]) < 3 and out["rng"].random() < 0.002:
            out["samples"].append({"consumer": filt, "n": n, "result (all three representations)": show(dec(ra)),
                                   "profile": profile})


def repr_equal(wa, wb):
    """identical up to the machine/big tag of integers (that tag IS the representation)"""
    return same(dec(wb), dec(wa))


def repr_single(c, n, profile, out):
    """a batch failed (panic): evaluate every consumer alone for this n, one representation at a time. A panic
    that happens for all three representations alike does not refute *this* property (it is C05's business)
    and is counted as inconclusive; a panic / different result for only some of them is a violation."""
    forms = [("machine int", "$n"), ("injected bigint", "$N"), ("n+2^70-2^70", "($n + $big - $big)")]
    for name, filt in CONSUMERS:
        seen = []
        for _fname, form in forms:
            prog = "%s as $k | (try [%s] catch \"ERR\")" % (form, filt)
            r = c.eval(prog, [{"input": None}], vars=[("n", enc(n)), ("N", enc(Big(n))), ("big", enc(BIG))], take=2)
            res = r["results"][0]
            out["ops"] += 1
            if res.get("panic"):
                seen.append(("panic", res["panic"].get("loc", "?"), res["panic"].get("msg", "")))
            elif res["end"][0] != "end" or len(res["outs"]) != 1:
                seen.append(("incomplete", str(res["end"])))
            else:
                seen.append(("ok", res["outs"][0][0]))
        out["consumers"][name] = out["consumers"].get(name, 0) + 1
        if all(s[0] == "panic" for s in seen):
            if all(is_resource(s[2]) for s in seen):
                out["inconc"].append("resource-exhaustion")
            else:
                out["inconc"].append("panic-for-every-representation:%s:%s" % (name, seen[0][1]))
                out["notes"].append({"consumer": filt, "n": str(n), "panic": seen[0][1:], "profile": profile,
                                     "note": "same panic for all three representations: not a refutation of C09"})
            continue
        agree = all(s[0] == "ok" for s in seen) and repr_equal(seen[0][1], seen[1][1]) and repr_equal(seen[0][1], seen[2][1])
        if not agree:
            def sh(s_):
                return show(dec(s_[1])) if s_[0] == "ok" else "%s %s" % (s_[0], " ".join(map(str, s_[1:])))
            out["viol"].append(("repr:%s" % name,
                                {"kind": "repr", "consumer": name, "filter": filt, "n": str(n),
                                 "with machine int": sh(seen[0]), "with injected bigint": sh(seen[1]),
                                 "with n+2^70-2^70": sh(seen[2]), "profile": profile}))


def check_repr_big(c, profile, out):
    """integers outside the machine range: literal parsed by jaq, typed injection, computed"""
    vals = [2 ** 63, -(2 ** 63) - 1, 2 ** 64 - 1, 2 ** 64, 10 ** 20, -(10 ** 20)]
    body = ", ".join('(try [%s] catch "ERR")' % f for _, f in CONSUMERS)
    prog = ("$NS[] as [$s, $N] | ($s | tonumber) as $n | ($n + $big - $big) as $c | "
            "[($n, $N, $c) as $k | [" + body + "]]")
    r = c.eval(prog, [{"input": None}], vars=[("NS", enc([[S(str(v)), v] for v in vals])), ("big", enc(BIG))],
               take=len(vals) + 1, timeout=300)
    if "compile_error" in r:
        raise SystemExit("HARNESS BUG (repr program): " + str(r["compile_error"].get("report"))[:1500])
    res = r["results"][0]
    if res.get("panic"):
        msg = res["panic"].get("msg", "")
        if is_resource(msg):
            out["inconc"].append("resource-exhaustion")
        else:
            out["viol"].append(("panic:repr-big", {"kind": "repr-big", "panic": res["panic"], "profile": profile}))
        return
    if res["end"][0] != "end" or len(res["outs"]) != len(vals):
        out["viol"].append(("repr-big:incomplete", {"end": res["end"], "profile": profile}))
        return
    for n, o in zip(vals, res["outs"]):
        a, b, cc = o[0]
        for ci, (name, filt) in enumerate(CONSUMERS):
            out["ops"] += 3
            if not (repr_equal(a[ci], b[ci]) and repr_equal(a[ci], cc[ci])):
                out["viol"].append(("repr:%s" % name,
                                    {"kind": "repr-big", "consumer": name, "filter": filt, "n": str(n),
                                     "with parsed literal": show(dec(a[ci])), "with injected bigint": show(dec(b[ci])),
                                     "with n+2^70-2^70": show(dec(cc[ci])), "profile": profile}))


# ---------------------------------------------------------------------------------------
# halt(n) at the real CLI

def run_cli(binary, prog, home):
    env = {"PATH": os.environ.get("PATH", "/usr/bin:/bin"), "HOME": home, "TZ": "UTC", "NO_COLOR": "1", "LOG": "off"}
    try:
        p = subprocess.run([binary, "-n", prog], env=env, stdin=subprocess.DEVNULL, stdout=subprocess.PIPE,
                           stderr=subprocess.PIPE, timeout=30)
    except subprocess.TimeoutExpired:
        return None
    return p.returncode


def check_halt(out):
    codes = [0, 1, 5, 42, 127, 128, 255, 256, -1, 2 ** 31 - 1, 2 ** 31]
    with tempfile.TemporaryDirectory(prefix="c09-") as home:
        for which, binary in (("debug", PATHS.get("cli") or build.cli()),
                              ("release", PATHS.get("cli_release") or build.cli_release())):
            for n in codes:
                lit = run_cli(binary, "halt(%d)" % n, home)
                comp = run_cli(binary, "halt(%d + %d - %d)" % (n, BIG, BIG), home)
                if lit is None or comp is None:
                    out["inconc"].append("timeout")
                    continue
                out["ops"] += 2
                out["halt_runs"] += 2
                out["consumers"]["halt@cli"] = out["consumers"].get("halt@cli", 0) + 1
                out["distinct"].add("halt:%d" % n)
                if lit != comp:
                    out["viol"].append(("repr:halt", {"kind": "halt", "n": n, "exit with literal": lit,
                                                      "exit with n+2^70-2^70": comp, "cli": which}))
                elif 0 <= n <= 255 and lit != n:
                    out["viol"].append(("halt:exit-code", {"kind": "halt", "n": n, "exit": lit, "cli": which}))


# ---------------------------------------------------------------------------------------

PATHS = {}


def client(profile):
    return par.client(profile, path=PATHS.get(profile))


def new_out(seed_str):
    return {"viol": [], "inconc": [], "ops": 0, "nontrivial": 0, "unspec": 0, "distinct": set(), "samples": [],
            "eq_cases": {}, "consumers": {}, "repr_distinct": 0, "halt_runs": 0, "notes": [],
            "rng": random.Random(seed_str)}


def task(t):
    kind, idx, seed, profile, scale = t
    rng = random.Random(f"c09/{seed}/{kind}/{idx}")
    out = new_out(f"c09s/{seed}/{kind}/{idx}/{profile}")
    try:
        if kind == "halt":
            check_halt(out)
        else:
            c = client(profile)
            if kind in ("ints", "all", "rand"):
                check_num(c, num_pool(kind, rng), profile, out)
            elif kind == "mixed":
                check_mixed(c, mixed_pairs(rng, scale), profile, out)
            elif kind == "repr":
                check_repr(c, repr_ints(rng, scale), profile, out)
                check_repr_big(c, profile, out)
    except WorkerDied as e:
        out["inconc"].append(classify_death(e))
    del out["rng"]
    out["distinct"] = list(out["distinct"])
    out["kind"] = kind
    return out


def prebuild():
    """build everything once in the parent; the forked workers inherit the paths"""
    for p in ("verif", "release"):
        PATHS[p] = build.jaqmon(p)
    PATHS["cli"] = build.cli()
    PATHS["cli_release"] = build.cli_release()


def replay(run):
    import json
    prebuild()
    w = json.load(open(run.replay))["witness"]
    out = new_out("replay")
    kind = w.get("kind")
    profile = w.get("profile", "verif")
    if kind == "halt":
        check_halt(out)
    else:
        c = client(profile)
        if kind in ("arith", "neg", "join"):
            x, y = dec(w["x_wire"]), dec(w.get("y_wire"))
            x = Big(x) if wire_tag(w["x_wire"]) == "I" and isinstance(x, int) else x
            y = Big(y) if isinstance(w.get("y_wire"), dict) and wire_tag(w["y_wire"]) == "I" and isinstance(y, int) else y
            if V.is_num(x) and V.is_num(y) or kind == "neg":
                check_num(c, [x, y], profile, out)
            else:
                check_mixed(c, [(x, y)], profile, out)
        elif kind == "repr":
            check_repr(c, [int(w["n"])], profile, out)
        else:
            check_repr_big(c, profile, out)
    for key, wit in out["viol"]:
        run.violation(key, wit)
    for cls in out["inconc"]:
        run.inconc(cls)
    run.finish({"evaluations": out["ops"], "distinct_nontrivial": len(out["distinct"]), "rule": "replay of one witness",
                "samples": [w]})


def main():
    run = Run("C09")
    if run.replay:
        return replay(run)
    prebuild()
    tasks = []
    n_all = run.size(2, 60)
    n_rand = run.size(1, 60)
    for profile in ("verif", "release"):
        tasks.append(("ints", 0, run.seed, profile, 0))
        for i in range(n_all):
            tasks.append(("all", i, run.seed, profile, 0))
        for i in range(n_rand):
            tasks.append(("rand", i, run.seed, profile, 0))
        for i in range(run.size(1, 12)):
            tasks.append(("mixed", i, run.seed, profile, run.size(60, 400)))
        for i in range(run.size(1, 8)):
            tasks.append(("repr", i, run.seed, profile, run.size(40, 400)))
    tasks.append(("halt", 0, run.seed, "cli", 0))
    ops = nontrivial = unspec = repr_distinct = halt_runs = 0
    distinct = Distinct()
    samples = Samples(8, run.rng("samples"))
    eq_cases, consumers, by_kind = {}, {}, {}
    for out in par.pmap(task, tasks, run.jobs):
        for key, w in out["viol"]:
            run.violation(key, w)
        for cls in out["inconc"]:
            run.inconc(cls)
        run.notes.extend(out["notes"])
        ops += out["ops"]
        nontrivial += out["nontrivial"]
        unspec += out["unspec"]
        repr_distinct += out["repr_distinct"]
        halt_runs += out["halt_runs"]
        by_kind[out["kind"]] = by_kind.get(out["kind"], 0) + out["ops"]
        for d in out["distinct"]:
            distinct.add(d)
        for s in out["samples"]:
            samples.add(s)
        for k, v in out["eq_cases"].items():
            eq_cases[k] = eq_cases.get(k, 0) + v
        for k, v in out["consumers"].items():
            consumers[k] = consumers.get(k, 0) + v
    broken = None
    if repr_distinct == 0:
        broken = "no integer reached jaq in two different representations (the metamorphic part observed nothing)"
    missing = [n for n, _ in CONSUMERS if n not in consumers] + ([] if "halt@cli" in consumers else ["halt@cli"])
    if missing and not run.inconclusive:
        broken = "consumer kinds never exercised: " + ",".join(missing)
    run.finish({
        "evaluations": ops,
        "distinct_nontrivial": len(distinct),
        "rule": "operations ($x op $y, -$x, consumer($k)) executed by the real interpreter and compared with Python "
                "integers/IEEE doubles resp. across three representations of the same integer; distinct = "
                "(operator or consumer, magnitude/representation class of each operand [bit-length buckets at "
                "31/53/62/63/64/127 bits, sign, float classes], class of the model result); non-trivial = not both "
                "operands machine integers below 2^31 (arithmetic), every judged non-numeric pair, every consumer "
                "evaluation that was not size-guarded",
        "samples": samples.items,
        "operations_by_part": by_kind,
        "nontrivial_operations": nontrivial,
        "unspecified_not_judged": unspec,
        "equation_cases": eq_cases,
        "consumers_exercised": consumers,
        "integers_seen_in_two_representations": repr_distinct,
        "halt_cli_runs": halt_runs,
        "profiles": ["verif", "release"],
        "tasks": len(tasks),
    }, assumptions=[
        "vlib.values.add/sub/mul/div/rem/neg are a faithful reading of docs/corelang.dj §Numbers and §Binary (simple)",
        "Python int->float conversion (round to nearest even) is the conversion meant by 'converted operands'",
        "typed injection through jaqmon's codec builds Num::Int / Num::BigInt as tagged (checked on the echoed wire tags)",
        "text + byte string, null as slice-update output, integers beyond 2^53 inside arrays compared with floats: "
        "unspecified, not judged",
    ], broken=broken)


if __name__ == "__main__":
    main()
