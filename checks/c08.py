"""C08 — comparison is one consistent total order; equal values are interchangeable keys.

Monitor: the real interpreter computes whole comparison matrices over pools of typed values;
the matrices are checked (a) against the manual's order implemented in vlib.values and
(b) model-free, for the order axioms. Sorting/grouping/searching built-ins are checked against
the same order, and model-equal values of different representation are substituted for each
other in every lookup / deduplication context."""
import itertools
import os
import sys

sys.path.insert(0, os.path.dirname(os.path.dirname(os.path.abspath(__file__))))
from vlib import gen, par, values as V
from vlib.client import WorkerDied, classify_death
from vlib.codec import Big, Dec, Obj, S, Str, dec, enc, freeze, show
from vlib.run import Distinct, Run, Samples

MATRIX_PROG = (
    "$A[] as $x | [ $A[] as $y | "
    "(if $x < $y then 1 else 0 end) + (if $x == $y then 2 else 0 end) + (if $x > $y then 4 else 0 end)"
    " + (if $x <= $y then 8 else 0 end) + (if $x >= $y then 16 else 0 end) + (if $x != $y then 32 else 0 end) ]"
)


def atoms_eq_classes():
    """atoms containing every number representation of the same value"""
    return [
        None, False, True,
        0, Big(0), 0.0, -0.0, Dec("0.0"), Dec("-0.0"), Dec("0e0"),
        1, Big(1), 1.0, Dec("1.0"), Dec("1e0"), Dec("1.00"),
        -1, -1.0, 2, 2.0, Dec("2.0"),
        2 ** 53, Big(2 ** 53), float(2 ** 53), Dec("9007199254740992.0"), -(2 ** 53), -float(2 ** 53),
        float("inf"), float("-inf"), Dec("1e1000"), Dec("-1e1000"),
        0.5, Dec("0.5"), Dec("5e-1"), 1.5,
        Str(b"", True), Str(b"", False), Str(b"a", True), Str(b"a", False), Str(b"\xff", True),
        Str(b"\xff", False), Str(b"ab", True), Str("é".encode(), True), Str("é".encode(), False),
    ]


def atoms_bigints():
    return [None, True, 0, 1, -1, 2 ** 53, 2 ** 53 + 1, 2 ** 63 - 1, 2 ** 63, Big(2 ** 63 - 1), -(2 ** 63),
            -(2 ** 63) - 1, 2 ** 64, 10 ** 20, -(10 ** 20), 2 ** 130, float("inf"), float("-inf"),
            # integers too large for a finite float are still finite
            2 ** 1030, -(2 ** 1030), 2 ** 1024, 10 ** 320, Dec("1e1000"), Dec("-1e1000"),
            Big(5), 5, Str(b"a", True)]


def small_trees_over(atoms, rng, count):
    """arrays/objects of <= 3 nodes over the atoms (sampled), incl. objects differing only in
    insertion order and objects with >= 2 entries (hashed lookup)"""
    out = []
    keys = [S("a"), S("b"), 0, 1, Dec("1.0"), -0.0, None, [0], Str(b"a", False)]
    for _ in range(count):
        r = rng.random()
        if r < 0.35:
            out.append([rng.choice(atoms) for _ in range(rng.randrange(0, 3))])
        elif r < 0.9:
            ks = []
            for k in rng.sample(keys, rng.randrange(0, 4)):
                if not any(V.eq(k, u) for u in ks):
                    ks.append(k)
            o = Obj([(k, rng.choice(atoms)) for k in ks])
            out.append(o)
            if len(ks) >= 2 and rng.random() < 0.7:
                items = list(o.items)
                rng.shuffle(items)
                out.append(Obj(items))
        else:
            out.append([[rng.choice(atoms)], Obj([(S("a"), rng.choice(atoms))])])
    return out


def build_pool(kind, rng, n):
    if kind == "eq":      # no integer beyond 2^53: every pair is in the domain
        atoms = atoms_eq_classes()
        pool = list(atoms) + small_trees_over(atoms, rng, n)
        extra = [x for x in gen.scalar_pool() if not (V.is_int(x) and abs(V.ival(x)) > V.BIG53)]
        pool += rng.sample(extra, min(len(extra), n // 3))
    else:                 # integers of any size, infinities, no finite non-integers
        atoms = atoms_bigints()
        pool = list(atoms) + small_trees_over(atoms, rng, n) + \
            [x for x in gen.INTS] + [Big(x) for x in (0, 7, -(2 ** 31))]
    rng.shuffle(pool)
    pool = pool[:n]
    # closed domain check (defensive: drop values that would leave the property's domain)
    ok = []
    for v in pool:
        if V.has_nan(v):
            continue
        ok.append(v)
    return ok


def check_matrix(pool, rows, report):
    n = len(pool)
    nontrivial = 0
    for i in range(n):
        for j in range(n):
            a, b = pool[i], pool[j]
            bits = rows[i][j]
            lt, eq_, gt, le, ge, ne = [(bits >> k) & 1 for k in range(6)]
            if not V.cmp_in_domain(a, b):
                continue
            c = V.cmp(a, b)
            exp = (c < 0, c == 0, c > 0, c <= 0, c >= 0, c != 0)
            got = tuple(bool(x) for x in (lt, eq_, gt, le, ge, ne))
            if got != exp:
                report("order:%s" % pair_class(a, b),
                       {"a": show(a), "b": show(b), "expected(lt,eq,gt,le,ge,ne)": exp, "got": got,
                        "a_wire": enc(a), "b_wire": enc(b)})
            if freeze(a) != freeze(b):
                nontrivial += 1
    # model-free axioms on the observed matrix
    LE = [0] * n
    for i in range(n):
        m = 0
        for j in range(n):
            bits = rows[i][j]
            if ((bits & 1) + ((bits >> 1) & 1) + ((bits >> 2) & 1)) != 1:
                report("axiom:trichotomy:%s" % pair_class(pool[i], pool[j]),
                       {"a": show(pool[i]), "b": show(pool[j]), "bits": bits})
            if bool(bits & 1) != bool(rows[j][i] & 4):
                report("axiom:antisymmetry:%s" % pair_class(pool[i], pool[j]),
                       {"a": show(pool[i]), "b": show(pool[j])})
            if bits & 8:
                m |= 1 << j
        LE[i] = m
    triples = 0
    for i in range(n):
        for j in range(n):
            if (LE[i] >> j) & 1:
                bad = LE[j] & ~LE[i]
                triples += n
                if bad:
                    k = bad.bit_length() - 1
                    report("axiom:transitivity:%s" % pair_class(pool[i], pool[k]),
                           {"a": show(pool[i]), "b": show(pool[j]), "c": show(pool[k])})
    return nontrivial, triples


def rep(v):
    if v is None:
        return "null"
    if isinstance(v, bool):
        return "bool"
    if isinstance(v, Big):
        return "bigint"
    if isinstance(v, int):
        return "int" if -(2 ** 63) <= v < 2 ** 63 else "bigint"
    if isinstance(v, float):
        return "float" if v == v and abs(v) != float("inf") else "nonfinite"
    if isinstance(v, Dec):
        return "dec"
    if isinstance(v, Str):
        return "text" if v.text else "bytes"
    if isinstance(v, list):
        return "arr"
    return "obj"


def pair_class(a, b):
    return rep(a) + "/" + rep(b)


SORT_PROG = "[sort, unique, group_by(.), min, max, (sort_by(.[0]) | map(.[1]))?]"


def check_sorting(c, pool, rng, report):
    """sort is a stably sorted permutation; unique / group_by / min / max / bsearch / - agree"""
    n_cases = 0
    for case in range(7):
        xs = [rng.choice(pool) for _ in range(rng.randrange(0, 14))]
        xs += rng.sample(xs, min(len(xs), 3)) if xs else []
        if case == 6:
            # a long array over few values: sorting algorithms change strategy with the length, and equal
            # elements of different representation (1, 1.0, {a,b} vs {b,a}) make instability visible
            groups = [[1, 1.0, Dec("1.0"), Big(1)], [0, -0.0, 0.0, Dec("0e0")], [2, 2.0, Dec("2.00")],
                      [Obj([(S("a"), 1), (S("b"), 2)]), Obj([(S("b"), 2), (S("a"), 1)])],
                      [S("a"), Str(b"a", False)], [[1, 2.0], [1.0, 2]]]
            few = [x for g in rng.sample(groups, 3) for x in g]
            xs = [rng.choice(few) for _ in range(rng.choice([33, 48, 64, 100, 160]))]
        tagged = [[x, i] for i, x in enumerate(xs)]
        r = c.eval("($A | [sort, unique, group_by(.), min, max]), ($T | sort_by(.[0]) | map(.[1]))", [{"input": None}],
                   vars=[("A", enc(xs)), ("T", enc(tagged))], take=4)
        res = r["results"][0]
        if res.get("panic") or res["end"][0] != "end" or len(res["outs"]) != 2:
            report("sort:failed", {"xs": show(xs), "res": res})
            continue
        n_cases += 1
        got = dec(res["outs"][0][0])
        order = dec(res["outs"][1][0])
        exp_sorted = V.sort_values(xs)
        if [freeze(V.norm(x)) for x in exp_sorted] != [freeze(x) for x in got[0]]:
            report("sort:not-stable-sorted-permutation:%s" % "+".join(sorted({rep(x) for x in xs})),
                   {"xs": show(xs), "expected": show(exp_sorted), "got": show(got[0])})
        # stability seen through tags
        exp_order = [i for _, i in sorted(((V._Key(x), i) for i, x in enumerate(xs)), key=lambda t: t[0])]
        if order != exp_order:
            report("sort_by:unstable", {"xs": show(xs), "expected": exp_order, "got": order})
        # classes
        classes = []
        for x in exp_sorted:
            if classes and V.eq(classes[-1][0], x):
                classes[-1].append(x)
            else:
                classes.append([x])
        uniq = got[1]
        if len(uniq) != len(classes) or not all(V.eq(u, cl[0]) for u, cl in zip(uniq, classes)):
            report("unique:inconsistent", {"xs": show(xs), "got": show(uniq), "classes": len(classes)})
        groups = got[2]
        if [len(g) for g in groups] != [len(cl) for cl in classes] or \
                not all(V.eq(g[0], cl[0]) for g, cl in zip(groups, classes) if g):
            report("group_by:inconsistent", {"xs": show(xs), "got": show(groups)})
        if xs:
            if not V.eq(got[3], exp_sorted[0]) or not V.eq(got[4], exp_sorted[-1]):
                report("minmax:inconsistent", {"xs": show(xs), "min": show(got[3]), "max": show(got[4])})
        elif got[3] is not None or got[4] is not None:
            report("minmax:empty", {"got": show(got[3:5])})
        # bsearch on the sorted array, and set difference
        probes = [rng.choice(pool) for _ in range(4)] + (rng.sample(xs, min(3, len(xs))))
        ys = [rng.choice(pool) for _ in range(3)] + rng.sample(xs, min(2, len(xs)))
        r = c.eval("[$P[] as $p | ($S | bsearch($p))], ($A - $B)", [{"input": None}],
                   vars=[("S", enc(got[0])), ("P", enc(probes)), ("A", enc(xs)), ("B", enc(ys))], take=3)
        res = r["results"][0]
        if res.get("panic") or res["end"][0] != "end":
            report("bsearch:failed", {"res": res})
            continue
        bs = dec(res["outs"][0][0])
        for p, i in zip(probes, bs):
            if not all(V.cmp_in_domain(p, x) for x in xs):
                continue
            if i >= 0:
                if i >= len(exp_sorted) or not V.eq(exp_sorted[i], p):
                    report("bsearch:found-wrong", {"sorted": show(exp_sorted), "x": show(p), "i": i})
            else:
                ins = -1 - i
                ok = all(V.cmp(x, p) < 0 for x in exp_sorted[:ins]) and all(V.cmp(x, p) > 0 for x in exp_sorted[ins:])
                if not ok:
                    report("bsearch:insertion-point", {"sorted": show(exp_sorted), "x": show(p), "i": i})
        diff = dec(res["outs"][1][0])
        if all(V.cmp_in_domain(x, y) for x in xs for y in ys):
            exp = [x for x in xs if not any(V.eq(x, y) for y in ys)]
            if [freeze(V.norm(x)) for x in exp] != [freeze(x) for x in diff]:
                report("minus:inconsistent", {"a": show(xs), "b": show(ys), "expected": show(exp), "got": show(diff)})
    return n_cases


# interchangeability contexts: each maps ($a, $b) to a value; result for (a, b) must be
# model-equal to the result for (a, a) and for (b, b)
CONTEXTS = [
    ("has", "{($a): 1, zz: 2} | has($b)"),
    ("index", "{($a): 1, zz: 2} | .[$b]"),
    ("has-3", "{yy: 0, ($a): 1, zz: 2} | [has($b), .[$b]]"),
    ("objeq", "{($a): 1, zz: 2} == {zz: 2, ($b): 1}"),
    ("add", "{($a): 1, zz: 2} + {($b): 3} | [length, .[$a], .[$b]]"),
    ("mul", "{($a): {x: 1}, zz: 2} * {($b): {y: 2}} | [length, .[$a], .[$b]]"),
    ("update", "{($a): 1, zz: 2} | .[$b] |= 5 | [length, .[$a]]"),
    ("assign", "{($a): 1, zz: 2} | .[$b] = 7 | [length, .[$a]]"),
    ("delete", "{($a): 1, zz: 2} | del(.[$b]) | length"),
    ("construct", "{($a): 1, ($b): 2, zz: 3} | [length, .[$a]]"),
    ("indices", "[$a, 0, $a] | indices($b)"),
    ("index-arr", "[0, $a] | index($b)"),
    ("indices-sub", "[$a, 0, $a] | indices([$b])"),
    ("contains", "[[$a]] | contains([[$b]])"),
    ("inside", "[$b] | inside([$a, 0])"),
    ("unique", "[$a, $b] | unique | length"),
    ("minus", "[$a, 0, $a] - [$b] | length"),
    ("group", "[$a, $b] | group_by(.) | length"),
    ("nested-key", "{([$a]): 1, zz: 2} | has([$b])"),
    ("to_entries", "{($a): 1, zz: 2} | with_entries(.) | has($b)"),
]


def check_interchange(c, pairs, report):
    prog = "$P[] as [$a, $b] | [" + ", ".join("(try (%s) catch \"ERR\")" % p for _, p in CONTEXTS) + "]"
    triples = []
    for a, b in pairs:
        triples += [[a, b], [a, a], [b, b], [b, a]]
    r = c.eval(prog, [{"input": None}], vars=[("P", enc(triples))], take=len(triples) + 1)
    res = r["results"][0]
    if res.get("panic") or res["end"][0] != "end" or len(res["outs"]) != len(triples):
        report("interchange:failed", {"res": str(res)[:500]})
        return 0
    outs = [dec(o[0]) for o in res["outs"]]
    n = 0
    for pi, (a, b) in enumerate(pairs):
        ab, aa, bb, ba = outs[4 * pi:4 * pi + 4]
        for ci, (name, _p) in enumerate(CONTEXTS):
            n += 1
            # (a,a) and (b,b) may legitimately differ in representation of returned values;
            # they must be model-equal, and (a,b) must agree with both
            if not (V.eq(ab[ci], aa[ci]) and V.eq(ab[ci], bb[ci]) and V.eq(ba[ci], aa[ci])):
                report("interchange:%s:%s" % (name, pair_class(a, b)),
                       {"context": CONTEXTS[ci][1], "a": show(a), "b": show(b), "a_wire": enc(a), "b_wire": enc(b),
                        "with(a,b)": show(ab[ci]), "with(a,a)": show(aa[ci]), "with(b,b)": show(bb[ci]),
                        "with(b,a)": show(ba[ci])})
    return n


def equal_pairs(pool):
    """model-equal pairs with different representation"""
    out = []
    for i, a in enumerate(pool):
        for b in pool[i + 1:]:
            if freeze(a) != freeze(b) and V.cmp_in_domain(a, b) and V.eq(a, b):
                out.append((a, b))
    return out


def task(t):
    kind, idx, seed, n, profile = t
    import random
    rng = random.Random(f"c08/{seed}/{kind}/{idx}")
    pool = build_pool(kind, rng, n)
    viol = []
    inconc = []

    def report(key, w):
        viol.append((key, w))
    c = par.client(profile)
    out = {"viol": viol, "inconc": inconc, "pairs": 0, "nontrivial": 0, "triples": 0, "sort_cases": 0,
           "inter": 0, "distinct": [], "sample": None, "eqpairs": 0}
    try:
        r = c.eval(MATRIX_PROG, [{"input": None}], vars=[("A", enc(pool))], take=len(pool) + 1, timeout=300)
        res = r["results"][0]
        if res.get("panic"):
            report("panic:%s" % res["panic"]["loc"], res["panic"])
        elif res["end"][0] != "end" or len(res["outs"]) != len(pool):
            report("matrix:incomplete", {"end": res["end"], "outs": len(res["outs"])})
        else:
            rows = [[int(x["i"]) for x in o[0]] for o in res["outs"]]
            nt, tr = check_matrix(pool, rows, report)
            out["pairs"] = len(pool) ** 2
            out["nontrivial"] = nt
            out["triples"] = tr
            out["distinct"] = list({pair_class(a, b) + ":" + str(V.cmp(a, b)) for a in pool[:60] for b in pool[:60]
                                    if V.cmp_in_domain(a, b)})
            out["sample"] = {"a": show(pool[0]), "b": show(pool[1]), "bits(lt,eq,gt,le,ge,ne)": rows[0][1]}
        out["sort_cases"] = check_sorting(c, pool, rng, report)
        pairs = equal_pairs(pool)
        rng.shuffle(pairs)
        pairs = pairs[:150]
        out["eqpairs"] = len(pairs)
        if pairs:
            out["inter"] = check_interchange(c, pairs, report)
    except WorkerDied as e:
        inconc.append(classify_death(e))
    return out


def main():
    run = Run("C08")
    npools = run.size(40, 120)
    n = 110 if run.tier == "quick" else 170
    tasks = []
    for profile in ("verif", "release"):
        for i in range(npools):
            tasks.append(("eq" if i % 3 != 2 else "big", i, run.seed, n, profile))
    pairs = nontrivial = triples = sort_cases = inter = eqpairs = 0
    distinct = Distinct()
    samples = Samples(6, run.rng("samples"))
    for out in par.pmap(task, tasks, run.jobs):
        for key, w in out["viol"]:
            run.violation(key, w)
        for cls in out["inconc"]:
            run.inconc(cls)
        pairs += out["pairs"]
        nontrivial += out["nontrivial"]
        triples += out["triples"]
        sort_cases += out["sort_cases"]
        inter += out["inter"]
        eqpairs += out["eqpairs"]
        for d in out["distinct"]:
            distinct.add(d)
        if out["sample"]:
            samples.add(out["sample"])
    run.finish({
        "evaluations": pairs + sort_cases + inter,
        "distinct_nontrivial": len(distinct),
        "rule": "pools of typed values (every number representation of equal values, boundaries, text/byte strings, "
                "objects differing in insertion order) compared pairwise by the real interpreter; distinct = "
                "(representation pair, model outcome) classes among pairs of structurally different values; "
                "non-trivial = the two values differ structurally",
        "samples": samples.items,
        "pairs_compared": pairs, "pairs_structurally_different": nontrivial,
        "transitivity_triples_checked": triples, "sort_cases": sort_cases,
        "interchange_context_evaluations": inter, "model_equal_pairs_substituted": eqpairs,
        "contexts": [n for n, _ in CONTEXTS], "profiles": ["verif", "release"], "pools": len(tasks),
    }, assumptions=[
        "the order of vlib.values.cmp is a faithful reading of docs/corelang.dj §Ordering/§Equality",
        "typed injection through jaqmon's codec builds the intended representation (objects go through jaq's own map)",
    ])


if __name__ == "__main__":
    main()
