"""C10 — indexing, slicing and element updates follow one position model per container.

Exhaustive small-scope monitor. Containers: all arrays of length <= 4 over 3 distinguishable
elements, all text strings of <= 4 characters over {a, é, €, 𝄞} (1-4 byte characters), text
strings with one invalid byte, the same byte sequences as byte strings, all objects with <= 3
entries over the keys {"a","b",0,[0],null}, plus null / boolean / number as containers.
Positions: [-6, 6], null, +-2^63 and +-10^20 (machine / big representation), wrongly typed
(1.0, 1.5, "a", [0], {}). ONE compiled program per (container family, operation shape) is run by
the real interpreter on batches of containers with the position list / pair list injected as a
typed variable; every result is compared with

 (a) the Python position model (vlib.values reads, vlib.c10_model updates), and
 (b) the manual's `iter_upd` / `index_upd` / `slice_upd` definitions, copied verbatim from
     docs/advanced.dj and evaluated by the same binary.

thorough enumerates the small scope completely; quick enumerates every (container, position)
completely and a seeded slice of the (container, bound, bound) space, plus random larger
containers in both tiers. Every workload runs in the profiles `verif` and `release`."""
import itertools
import json
import math
import os
import random
import re
import sys

sys.path.insert(0, os.path.dirname(os.path.dirname(os.path.abspath(__file__))))
from vlib import build, par, values as V
from vlib import c10_model as M
from vlib.client import WorkerDied, classify_death
from vlib.codec import Big, Dec, Obj, S, Str, dec, enc, fbits, show
from vlib.run import Distinct, Run, Samples

ERRV = Str(b"ERR", True)
RESOURCE = ("capacity overflow", "memory allocation", "out of memory", "overflowed its stack")
HUGE = 2 ** 64

# The manual's definitions (docs/advanced.dj, §Pathless). The text below is what is used when the
# documentation cannot be read; normally the definitions are extracted from the file itself.
MANUAL_DEFS_FALLBACK = r'''
def iter_upd(u; fail):
    if isarray  then [.[] | u]
  elif isobject then with_entries(.value |= u)
  else fail end;
def index_upd($i; u; fail):
    if (isstring or isarray) and ($i | isobject) then
      # see `slice_upd` below
      ([.[:$i.start], .[$i.start:$i.end], .[$i.end:]]? | .[1] |= u | add) // fail
  elif isarray then
        if 0 <= $i and $i < length then .[:$i] + [.[$i] | first(u)] + .[$i+1:]
      elif -length <= $i and $i < 0 then index_upd(length + $i; u; fail)
      else fail end
  elif isobject then
        if has($i) then with_entries(if .key == $i then {key, value: first(.value | u)} end)
      else . + ([{key: $i, value: first(null | u)}] | from_entries) end
  else fail end;
def slice_upd($i; $j; u; fail):
  ([.[:$i], .[$i:$j], .[$j:]]? | .[1] |= u | add) // fail;
'''


def manual_defs():
    """the three definitions, verbatim from the manual of the tree under test"""
    path = os.path.join(build.REPO, "docs", "advanced.dj")
    try:
        text = open(path, encoding="utf-8").read()
    except OSError:
        return MANUAL_DEFS_FALLBACK, "embedded copy (docs/advanced.dj unreadable)"
    out = []
    for name in ("iter_upd", "index_upd", "slice_upd"):
        m = re.search(r"^def %s\(.*?^(?=def |all\()" % name, text, re.S | re.M)
        if not m:
            return MANUAL_DEFS_FALLBACK, "embedded copy (definition of %s not found in docs/advanced.dj)" % name
        out.append(m.group(0))
    return "\n".join(out), "extracted from docs/advanced.dj"


# ---------------------------------------------------------------------------------------
# comparison

def same(g, e):
    """exact: integers, floats bit for bit, strings bytewise incl. text/byte kind, arrays
    elementwise, objects entry by entry in order (keys up to jq equality)"""
    if isinstance(e, Big):
        e = e.n
    if e is None or isinstance(e, bool):
        return g is e
    if isinstance(g, bool) or g is None:
        return False
    if isinstance(e, int):
        return isinstance(g, int) and g == e
    if isinstance(e, float):
        return isinstance(g, float) and ((math.isnan(g) and math.isnan(e)) or fbits(g) == fbits(e))
    if isinstance(e, Dec):
        return isinstance(g, Dec) and g.text == e.text
    if isinstance(e, Str):
        return isinstance(g, Str) and g.b == e.b and g.text == e.text
    if isinstance(e, list):
        return isinstance(g, list) and len(g) == len(e) and all(same(x, y) for x, y in zip(g, e))
    if isinstance(e, Obj):
        if not isinstance(g, Obj) or len(g.items) != len(e.items):
            return False
        return all((same(gk, ek) or V.eq(gk, V.norm(ek))) and same(gv, ev)
                   for (gk, gv), (ek, ev) in zip(g.items, e.items))
    return False


def same_unordered(g, e):
    """objects with the same entries in any order (key order after a deleting update is open)"""
    if not (isinstance(g, Obj) and isinstance(e, Obj)) or len(g.items) != len(e.items):
        return False
    for ek, ev in e.items:
        hit = [gv for gk, gv in g.items if V.eq(gk, V.norm(ek))]
        if len(hit) != 1 or not same(hit[0], ev):
            return False
    return True


def match(g, cands, deleting):
    return any(same(g, c) or (deleting and same_unordered(g, c)) for c in cands)


def judge(got, exp):
    """got: decoded `try [..] catch "ERR"`; exp: ('ok', [(candidates, deleting), ...]) | ('err',) |
    ('unspec',). Returns None or a class of disagreement."""
    if exp[0] == "unspec":
        return None
    if exp[0] == "err":
        return None if got == ERRV else "expected-error"
    if got == ERRV:
        return "unexpected-error"
    if not isinstance(got, list):
        return "shape"
    outs = exp[1]
    if len(got) != len(outs):
        return "output-count"
    for g, (cands, deleting) in zip(got, outs):
        if not match(g, cands, deleting):
            return "value"
    return None


def agree(a, b, lenient):
    """jaq's result vs the manual definition's result (both decoded)"""
    if a == ERRV or b == ERRV:
        return a == b
    if not (isinstance(a, list) and isinstance(b, list)) or len(a) != len(b):
        return False
    return all(same(x, y) or (lenient and same_unordered(x, y)) for x, y in zip(a, b))


def outcome(f, *args):
    try:
        return ("ok", f(*args))
    except V.JqError:
        return ("err",)
    except V.Unspecified:
        return ("unspec",)


def one(f, *args):
    """outcome of a model function returning a single plain value -> one output, one candidate"""
    o = outcome(f, *args)
    return ("ok", [([o[1]], False)]) if o[0] == "ok" else o


# ---------------------------------------------------------------------------------------
# the scope

ELEMS = [None, 1, S("x")]
ALPHA = ["a", "é", "€", "𝄞"]
OBJ_KEYS = [S("a"), S("b"), 0, [0], None]
BAD = [b"\xff", b"\xe2\x82", b"\x80"]


def small_arrays():
    return [list(t) for n in range(5) for t in itertools.product(ELEMS, repeat=n)]


def small_texts():
    return [Str("".join(t).encode(), True) for n in range(5) for t in itertools.product(ALPHA, repeat=n)]


def invalid_texts():
    out = []
    seen = set()
    for n in range(3):
        for t in itertools.product(ALPHA, repeat=n):
            for pos in range(n + 1):
                for bad in BAD:
                    b = "".join(t[:pos]).encode() + bad + "".join(t[pos:]).encode()
                    if b not in seen and not V.is_valid_utf8(b):
                        seen.add(b)
                        out.append(Str(b, True))
    return out


def small_bytes(thorough):
    """the same byte sequences as byte strings (in quick: those of <= 3 characters)"""
    src = small_texts() + invalid_texts()
    seen, out = set(), []
    for s in src:
        if s.b not in seen and (thorough or len(s.b) <= 8):
            seen.add(s.b)
            out.append(Str(s.b, False))
    return out


def small_objects():
    out = []
    for n in range(4):
        for ks in itertools.permutations(range(len(OBJ_KEYS)), n):
            out.append(Obj([(OBJ_KEYS[k], 10 + k) for k in ks]))
    return out


OTHERS = [None, True, 7, 1.5]


def index_set():
    I = list(range(-6, 7)) + [None]
    I += [-(2 ** 63), Big(-(2 ** 63)), 2 ** 63 - 1, 2 ** 63, 10 ** 20, -(10 ** 20), Big(2), Big(-1)]
    I += [1.0, 1.5, S("a"), [0], Obj([])]
    return I


def obj_probe_set():
    return index_set() + [S("b"), S("zz"), 0.0, -0.0, Big(0), [0.0], Str(b"a", False), [None], Dec("0.0"),
                          Obj([(S("start"), 0)])]


# ---------------------------------------------------------------------------------------
# update filters: (name, jq text, python model x -> list of outputs)

def index_filters():
    return [
        ("empty", "empty", lambda x: []),
        ("one", '[., "u"]', lambda x: [[x, S("u")]]),
        ("two", '([., "v"], "w")', lambda x: [[x, S("v")], S("w")]),
        ("null", "null", lambda x: [None]),
    ]


def slice_filters(fam):
    if fam == "arr":
        return [
            ("empty", "empty", lambda x: []),
            ("nil", "[]", lambda x: [[]]),
            ("grow", '(. + ["u"])', lambda x: [x + [S("u")]]),
            ("two", '(["v"], ["w", "w"])', lambda x: [[S("v")], [S("w"), S("w")]]),
            ("shrink", ".[1:]", lambda x: [x[1:]]),
            ("id", ".", lambda x: [x]),
            ("wrong", '"s"', lambda x: [S("s")]),
            ("null", "null", lambda x: [None]),
        ]
    if fam == "text":
        return [
            ("empty", "empty", lambda x: []),
            ("nil", '""', lambda x: [S("")]),
            ("grow", '(. + "é")', lambda x: [Str(x.b + "é".encode(), True)]),
            ("two", '("v", "ww")', lambda x: [S("v"), S("ww")]),
            ("shrink", ".[1:]", lambda x: [V.slice_(x, 1, None)]),
            ("id", ".", lambda x: [x]),
            ("wrong", '["s"]', lambda x: [[S("s")]]),
            ("wrong-bytes", "tobytes", lambda x: [Str(x.b, False)]),
            ("null", "null", lambda x: [None]),
        ]
    if fam == "bytes":
        return [
            ("empty", "empty", lambda x: []),
            ("nil", '("" | tobytes)', lambda x: [Str(b"", False)]),
            ("grow", '(. + ("é" | tobytes))', lambda x: [Str(x.b + "é".encode(), False)]),
            ("two", '(("v", "ww") | tobytes)', lambda x: [Str(b"v", False), Str(b"ww", False)]),
            ("shrink", ".[1:]", lambda x: [V.slice_(x, 1, None)]),
            ("id", ".", lambda x: [x]),
            ("wrong", '["s"]', lambda x: [[S("s")]]),
            ("wrong-text", "tostring", lambda x: [Str(x.b, True)]),
            ("null", "null", lambda x: [None]),
        ]
    return [("empty", "empty", lambda x: []), ("id", ".", lambda x: [x])]


def assign_value(fam):
    """(jq text yielding two values, the two model values) for `.[i:j] = (r1, r2)`"""
    if fam == "text":
        return '("V", "WW")', [S("V"), S("WW")]
    if fam == "bytes":
        return '(("V", "WW") | tobytes)', [Str(b"V", False), Str(b"WW", False)]
    return '(["V"], ["W", "W"])', [[S("V")], [S("W"), S("W")]]


# ---------------------------------------------------------------------------------------
# operations. An Op has a jq text (using $i / $j), optionally the manual's formulation, a model
# `exp(v, i, j) -> outcome`, and `applies(v, i, j, exp) -> bool` for the manual comparison.

class Op:
    def __init__(self, name, jq, exp, manual=None, applies=None, nonseq_unjudged=False):
        self.name, self.jq, self.exp, self.manual, self.applies = name, jq, exp, manual, applies
        self.nonseq_unjudged = nonseq_unjudged


def is_seq(v):
    return isinstance(v, (list, Str))


def idx_or_empty(v, i):
    o = outcome(V.index, v, i)
    if o[0] == "ok":
        return ("ok", [([o[1]], False)])
    return ("ok", []) if o[0] == "err" else o


def slice_or_empty(v, i, j):
    o = outcome(V.slice_, v, i, j)
    if o[0] == "ok":
        return ("ok", [([o[1]], False)])
    return ("ok", []) if o[0] == "err" else o


def start_end(i, j):
    return Obj([(S("start"), i), (S("end"), j)])


def exp_keys(v):
    o = outcome(V.key_values, v)
    if o[0] != "ok":
        return o
    ks = [k for k, _ in o[1]]
    if any(not V.cmp_in_domain(a, b) for a in ks for b in ks):
        return ("unspec",)
    return ("ok", [([V.sort_values(ks)], False)])


def exp_first_last(pos):
    def f(v, i, j):
        # the manual calls first/last short for first(.[]) / last(.[]); the position model reads
        # .[0] / .[-1]. The two coincide on non-empty arrays (and both fail on text strings).
        if isinstance(v, list) and len(v) > 0:
            return one(V.index, v, pos)
        if isinstance(v, Str) and v.text:
            return ("err",)
        if isinstance(v, Str) and len(v.b) > 0:
            return one(V.index, v, pos)
        return ("unspec",)
    return f


def exp_pattern5(v, i, j):
    outs = []
    for k in range(5):
        o = outcome(V.index, v, k)
        if o[0] != "ok":
            return o
        outs.append(o[1])
    return ("ok", [([outs], False)])


def exp_pattern_obj(v, i, j):
    outs = []
    for k in (S("a"), 0, S("b")):
        o = outcome(V.index, v, k)
        if o[0] != "ok":
            return o
        outs.append(o[1])
    return ("ok", [([outs], False)])


def exp_iterate(v, i, j):
    o = outcome(V.iterate, v)
    return ("ok", [([x], False) for x in o[1]]) if o[0] == "ok" else o


def read0_ops():
    return [
        Op("length", "length", lambda v, i, j: one(V.length, v)),
        Op("keys", "keys", lambda v, i, j: exp_keys(v)),
        Op("keys_unsorted", "keys_unsorted",
           lambda v, i, j: one(lambda v: [k for k, _ in V.key_values(v)], v)),
        Op("iterate", ".[]", exp_iterate),
        Op("iterate?", ".[]?", lambda v, i, j: (lambda o: ("ok", []) if o[0] == "err" else o)(exp_iterate(v, i, j))),
        Op("first", "first", exp_first_last(0)),
        Op("last", "last", exp_first_last(-1)),
        Op("pattern-array", ". as [$a, $b, $c, $d, $e] | [$a, $b, $c, $d, $e]", exp_pattern5),
        Op("pattern-object", '. as {a: $a, (0): $z, $b} | [$a, $z, $b]', exp_pattern_obj),
    ]


def read1_ops():
    return [
        Op("index", ".[$i]", lambda v, i, j: one(V.index, v, i)),
        Op("index?", ".[$i]?", lambda v, i, j: idx_or_empty(v, i)),
        Op("has", "has($i)", lambda v, i, j: one(V.has, v, i)),
        Op("nth", "nth($i)", lambda v, i, j: one(V.index, v, i)),
        Op("pattern-key", ". as {($i): $x} | $x", lambda v, i, j: one(V.index, v, i)),
        Op("getpath", "getpath([$i])", lambda v, i, j: one(V.index, v, i)),
        Op("slice-from", ".[$i:]", lambda v, i, j: one(V.slice_, v, i, None)),
        Op("slice-upto", ".[:$i]", lambda v, i, j: one(V.slice_, v, None, i)),
        Op("index-{start}", ".[{start: $i}]", lambda v, i, j: one(V.index, v, Obj([(S("start"), i)]))),
        Op("index-{end}", ".[{end: $i}]", lambda v, i, j: one(V.index, v, Obj([(S("end"), i)]))),
    ]


def read2_ops():
    return [
        Op("slice", ".[$i:$j]", lambda v, i, j: one(V.slice_, v, i, j)),
        Op("slice?", ".[$i:$j]?", slice_or_empty),
        Op("index-{start,end}", ".[{start: $i, end: $j}]", lambda v, i, j: one(V.index, v, start_end(i, j))),
        Op("has-{start,end}", "has({start: $i, end: $j})", lambda v, i, j: one(V.has, v, start_end(i, j))),
    ]


def wrap_upd(f, *args):
    """model update returning (candidates, deleting) -> outcome with one output"""
    o = outcome(f, *args)
    return ("ok", [o[1]]) if o[0] == "ok" else o


def wrap_iter(v, f):
    o = outcome(M.upd_iter, v, f)
    return ("ok", [([o[1][0]], o[1][1])]) if o[0] == "ok" else o


def upd0_ops():
    ops = []
    for name, jq, f in index_filters():
        ops.append(Op("iter|=" + name, ".[] |= %s" % jq, (lambda f: lambda v, i, j: wrap_iter(v, f))(f),
                      manual="iter_upd(%s; error)" % jq,
                      # with_entries(.value |= empty) leaves {"k": null} where the prose (and jaq) delete
                      applies=(lambda name: lambda v, i, j, e: not (name == "empty" and isinstance(v, Obj)))(name)))
    ops.append(Op("iter?|=one", '.[]? |= [., "u"]',
                  lambda v, i, j: (lambda o: ("ok", [([v], False)]) if o[0] == "err" else o)(
                      wrap_iter(v, index_filters()[1][2])),
                  manual='iter_upd([., "u"]; .)', applies=lambda v, i, j, e: True))
    return ops


def exp_index_opt(v, i, j):
    """`?` turns a failing *access* into the identity; an error caused by the update's output (a wrongly
    typed replacement for a slice) is still an error"""
    f = index_filters()[1][2]
    if is_seq(v) and isinstance(i, Obj):
        if outcome(M.slice_bounds, v, *V._start_end(i))[0] == "err":
            return ("ok", [([v], False)])
        return wrap_upd(M.upd_index, v, i, f)
    o = wrap_upd(M.upd_index, v, i, f)
    return ("ok", [([v], False)]) if o[0] == "err" else o


def int_pos(i):
    return V.is_int(i)


def upd1_ops(fam):
    ops = []
    for name, jq, f in index_filters():
        ops.append(Op("index|=" + name, ".[$i] |= %s" % jq,
                      (lambda f: lambda v, i, j: wrap_upd(M.upd_index, v, i, f))(f),
                      manual="index_upd($i; %s; error)" % jq,
                      # for an object as position (= slice) the definition needs both bounds
                      applies=lambda v, i, j, e: not (is_seq(v) and isinstance(i, Obj))))
    ops.append(Op("index=", '.[$i] = ("V", "W")',
                  lambda v, i, j: (lambda a, b: a if a[0] != "ok" else (b if b[0] != "ok" else ("ok", a[1] + b[1])))(
                      wrap_upd(M.upd_index, v, i, lambda x: [S("V")]), wrap_upd(M.upd_index, v, i, lambda x: [S("W")])),
                  manual='("V", "W") as $y | index_upd($i; $y; error)',
                  applies=lambda v, i, j, e: not (is_seq(v) and isinstance(i, Obj))))
    ops.append(Op("del-index", "del(.[$i])", lambda v, i, j: wrap_upd(M.upd_index, v, i, lambda x: []),
                  manual="index_upd($i; empty; error)",
                  applies=lambda v, i, j, e: not (is_seq(v) and isinstance(i, Obj))))
    ops.append(Op("index?|=one", '.[$i]? |= [., "u"]', exp_index_opt,
                  manual='index_upd($i; [., "u"]; .)',
                  # the definition is not total for wrongly typed positions (`.[:1.5]` raises inside it)
                  applies=lambda v, i, j, e: not (is_seq(v) and isinstance(i, Obj)) and
                  not (isinstance(v, list) and isinstance(i, (float, Dec)))))
    sf = {n: (q, f) for n, q, f in slice_filters(fam)}
    for name in ("grow", "empty"):
        q, f = sf.get(name, sf["id"])
        ops.append(Op("from|=" + name, ".[$i:] |= %s" % q,
                      (lambda f: lambda v, i, j: wrap_upd(lambda: (M.upd_slice(v, i, None, f), False)))(f),
                      manual="slice_upd($i; length; %s; error)" % q,
                      applies=lambda v, i, j, e: i is not None))
        ops.append(Op("upto|=" + name, ".[:$i] |= %s" % q,
                      (lambda f: lambda v, i, j: wrap_upd(lambda: (M.upd_slice(v, None, i, f), False)))(f),
                      manual="slice_upd(0; $i; %s; error)" % q,
                      applies=lambda v, i, j, e: i is not None))
    return ops


def reversed_slice(v, i, j):
    try:
        _u, lo, hi = M.slice_bounds(v, i, j)
    except (V.JqError, V.Unspecified):
        return False
    return hi < lo


def upd2_ops(fam):
    ops = []
    # slice_upd is applicable with the table's translation of open bounds (null start = 0, null end =
    # length) and when the slice is not reversed (for hi < lo the definition duplicates elements)
    app = lambda v, i, j, e: not reversed_slice(v, i, j) and e[0] != "unspec"
    for name, q, f in slice_filters(fam):
        ops.append(Op("slice|=" + name, ".[$i:$j] |= %s" % q,
                      (lambda f: lambda v, i, j: wrap_upd(lambda: (M.upd_slice(v, i, j, f), False)))(f),
                      manual="slice_upd($i // 0; $j // length; %s; error)" % q, applies=app))
    rq, rvals = assign_value(fam)
    ops.append(Op("slice=", ".[$i:$j] = %s" % rq,
                  lambda v, i, j: (lambda a, b: a if a[0] != "ok" else (b if b[0] != "ok" else ("ok", a[1] + b[1])))(
                      wrap_upd(lambda: (M.upd_slice(v, i, j, lambda x: [rvals[0]]), False)),
                      wrap_upd(lambda: (M.upd_slice(v, i, j, lambda x: [rvals[1]]), False))),
                  manual="%s as $y | slice_upd($i // 0; $j // length; $y; error)" % rq, applies=app))
    ops.append(Op("del-slice", "del(.[$i:$j])",
                  lambda v, i, j: wrap_upd(lambda: (M.upd_slice(v, i, j, lambda x: []), False)),
                  manual="slice_upd($i // 0; $j // length; empty; error)", applies=app))
    q, f = {n: (q, f) for n, q, f in slice_filters(fam)}.get("grow", (".", lambda x: [x]))
    ops.append(Op("index-{start,end}|=grow", ".[{start: $i, end: $j}] |= %s" % q,
                  (lambda f: lambda v, i, j: wrap_upd(M.upd_index, v, start_end(i, j), f))(f),
                  manual="index_upd({start: $i, end: $j}; %s; error)" % q,
                  applies=lambda v, i, j, e: (not is_seq(v)) or (int_pos(i) and int_pos(j) and not reversed_slice(v, i, j))))
    ops.append(Op("slice?|=id", ".[$i:$j]? |= .",
                  lambda v, i, j: (lambda o: ("ok", [([v], False)]) if o[0] == "err" else o)(
                      wrap_upd(lambda: (M.upd_slice(v, i, j, lambda x: [x]), False)))))
    return ops


SHAPES = {"R1": (read0_ops, read1_ops), "U1": (upd0_ops, upd1_ops), "R2": (None, read2_ops), "U2": (None, upd2_ops)}


def shape_ops(shape, fam):
    per_c, per_i = SHAPES[shape]
    ops0 = per_c() if per_c else []
    ops1 = per_i(fam) if shape in ("U1", "U2") else per_i()
    return ops0, ops1


def entry(op):
    s = '(try [%s] catch "ERR")' % op.jq
    if op.manual:
        s += ', (try [%s] catch "ERR")' % op.manual
    return s


def program(shape, fam, defs):
    ops0, ops1 = shape_ops(shape, fam)
    body1 = "[" + ", ".join(entry(o) for o in ops1) + "]"
    if shape in ("R1", "U1"):
        body0 = "[" + ", ".join(entry(o) for o in ops0) + "]"
        return defs + "\n" + body0 + ", ($I[] as $i | " + body1 + ")"
    return defs + "\n$P[] as [$i, $j] | " + body1


# ---------------------------------------------------------------------------------------
# judging

def family(v):
    if isinstance(v, list):
        return "arr"
    if isinstance(v, Str):
        return "text" if v.text else "bytes"
    return "obj"


def n_units(v):
    try:
        return len(V.seq_of(v)) if is_seq(v) else (len(v.items) if isinstance(v, Obj) else 0)
    except Exception:
        return 0


def cclass(v):
    if isinstance(v, Str) and v.text and not V.is_valid_utf8(v.b):
        return "text-invalid/%d" % min(n_units(v), 5)
    if isinstance(v, (list, Str, Obj)):
        return "%s/%d" % (family(v) if not isinstance(v, Obj) else "object", min(n_units(v), 5))
    return V.kind(v)


def huge(x):
    return V.is_int(x) and abs(V.ival(x)) >= HUGE


def invalid_text(v):
    return isinstance(v, Str) and v.text and not V.is_valid_utf8(v.b)


def loose_invalid(op, v, i, j, exp):
    """invalid UTF-8 text: only what the property makes clear is judged -- identities and slices
    covering the whole string must preserve the bytes; errors for wrongly typed positions"""
    if exp[0] != "ok":
        return exp if exp[0] == "err" and not (V.is_int(i) or i is None) else ("unspec",)
    name = op.name
    if name in ("slice|=id", "slice?|=id"):
        return ("ok", [([v], False)])
    if name in ("slice", "slice?", "index-{start,end}", "slice-from", "slice-upto", "index-{start}", "index-{end}"):
        cands = exp[1][0][0] if exp[1] else []
        if cands and isinstance(cands[0], Str) and cands[0].b == v.b:
            return exp      # the model says: the whole string
        return ("unspec",)
    if name in ("has-{start,end}",):
        return exp
    return ("unspec",)


class Acc:
    def __init__(self, profile, rng):
        self.profile = profile
        self.viol = []
        self.inconc = []
        self.evals = 0
        self.judged_model = 0
        self.judged_manual = 0
        self.unspec = 0
        self.manual_na = 0
        self.invalid_agree = 0
        self.invalid_differ = 0
        self.distinct = set()
        self.by_op = {}
        self.samples = []
        self.rng = rng
        self.notes = {}

    def report(self, key, shape, fam, op, v, i, j, extra):
        w = {"shape": shape, "family": fam, "op": op.name, "jq": op.jq, "container": show(v), "container_wire": enc(v),
             "i": show(i), "i_wire": enc(i), "profile": self.profile}
        if shape in ("R2", "U2"):
            w["j"] = show(j)
            w["j_wire"] = enc(j)
        w.update(extra)
        self.viol.append((key, w))


def sh(g):
    if g == ERRV:
        return "error"
    return show(g)


def sh_exp(e):
    if e[0] != "ok":
        return {"err": "error", "unspec": "unspecified"}[e[0]]
    return [[show(c) for c in cands] + (["(key order open)"] if d else []) for cands, d in e[1]]


def judge_entry(acc, shape, fam, op, v, i, j, got, got_manual, per_container=False):
    acc.evals += 1 + (1 if op.manual else 0)
    acc.by_op[op.name] = acc.by_op.get(op.name, 0) + 1
    exp = op.exp(v, i, j)
    full = exp
    if invalid_text(v):
        # evidence only: does the lossy-decoder chunk model agree?
        if exp[0] == "ok":
            if judge(got, exp) is None:
                acc.invalid_agree += 1
            elif not (huge(i) or huge(j)):      # (huge bounds: the known clipping defect, counted elsewhere)
                acc.invalid_differ += 1
        exp = loose_invalid(op, v, i, j, exp)
    n = n_units(v)
    icls = "-" if per_container else M.idx_class(i, n)
    jcls = M.idx_class(j, n) if shape in ("R2", "U2") else ""
    if exp[0] == "unspec":
        acc.unspec += 1
    else:
        acc.judged_model += 1
        nontrivial = n > 0 or per_container
        if nontrivial:
            acc.distinct.add("%s|%s|%s|%s|%s" % (op.name, cclass(v), icls, jcls, exp[0]))
        bad = judge(got, exp)
        if bad:
            if (got == ERRV or (got == [] and "?" in op.name)) and exp[0] == "ok" and \
                    (huge(i) or (shape in ("R2", "U2") and huge(j))) and \
                    ("slice" in op.name or "{" in op.name or "from" in op.name or "upto" in op.name):
                key = "slice:huge-bound-not-clipped"
            else:
                key = "%s:%s:%s:%s" % (op.name, cclass(v).split("/")[0], icls + ("," + jcls if jcls else ""), bad)
            acc.report(key, shape, fam, op, v, i, j, {"expected": sh_exp(exp), "got": sh(got), "against": "position model"})
        elif exp[0] == "ok" and len(acc.samples) < 4 and acc.rng.random() < 0.00005 * (20 if shape in ("R1", "U1") else 1):
            s = {"op": op.jq, "input": show(v), "i": show(i), "result": sh(got), "profile": acc.profile}
            if jcls:
                s["j"] = show(j)
            acc.samples.append(s)
    if op.manual:
        if invalid_text(v) or full[0] == "unspec" and "null" in op.name:
            acc.manual_na += 1
        elif op.applies is not None and not op.applies(v, i, j, full):
            acc.manual_na += 1
        else:
            acc.judged_manual += 1
            lenient = True   # key order after deletion is open; the definitions rebuild objects
            if not agree(got, got_manual, lenient):
                key = "manual-def:%s:%s:%s" % (op.name, cclass(v).split("/")[0], icls + ("," + jcls if jcls else ""))
                acc.report(key, shape, fam, op, v, i, j,
                           {"manual": op.manual, "got": sh(got), "manual definition yields": sh(got_manual),
                            "against": "manual definition evaluated by the same binary"})
            elif not per_container and full[0] == "ok" and not any(d for _c, d in full[1]) and not \
                    agree(got, got_manual, False) and got != ERRV:
                # same entries but a different key order although nothing was deleted
                key = "manual-def-order:%s:%s:%s" % (op.name, cclass(v).split("/")[0], icls)
                acc.report(key, shape, fam, op, v, i, j,
                           {"manual": op.manual, "got": sh(got), "manual definition yields": sh(got_manual),
                            "against": "manual definition (key order, non-deleting update)"})


def split_entries(ops, arr):
    """the flat result array -> [(op, got, got_manual)]"""
    out = []
    k = 0
    for op in ops:
        g = arr[k]
        k += 1
        m = None
        if op.manual:
            m = arr[k]
            k += 1
        out.append((op, g, m))
    return out


def run_job(c, acc, shape, fam, containers, idx, defs, timeout=600):
    """idx: the position list (R1/U1) or the pair list (R2/U2)"""
    prog = program(shape, fam, defs)
    ops0, ops1 = shape_ops(shape, fam)
    var = ("I", enc(idx)) if shape in ("R1", "U1") else ("P", enc([[i, j] for i, j in idx]))
    expect_outs = len(idx) + (1 if shape in ("R1", "U1") else 0)
    r = c.eval(prog, [{"input": enc(v)} for v in containers], vars=[var], take=expect_outs + 1, timeout=timeout)
    if "compile_error" in r or "compile_panic" in r:
        raise SystemExit("HARNESS BUG: program does not compile (%s %s): %s" % (shape, fam, str(r)[:1500]))
    for v, res in zip(containers, r["results"]):
        if res.get("panic"):
            if len(idx) > 1:
                for x in idx:       # isolate the position / pair
                    run_job(c, acc, shape, fam, [v], [x], defs)
            else:
                msg = res["panic"].get("msg", "")
                if any(s in msg for s in RESOURCE):
                    acc.inconc.append("resource-exhaustion")
                else:
                    x = idx[0] if idx else None
                    i, j = (x if shape in ("R2", "U2") else (x, None)) if idx else (None, None)
                    op = Op("(program)", "", None)
                    acc.report("panic:%s:%s:%s" % (shape, cclass(v).split("/")[0], res["panic"].get("loc", "?")),
                               shape, fam, op, v, i, j, {"panic": res["panic"]})
            continue
        if res["end"][0] != "end" or len(res["outs"]) != expect_outs:
            acc.report("incomplete:%s:%s" % (shape, fam), shape, fam, Op("(program)", "", None), v, None, None,
                       {"end": res["end"], "outs": len(res["outs"])})
            continue
        outs = res["outs"]
        k = 0
        if shape in ("R1", "U1"):
            for op, g, m in split_entries(ops0, dec(outs[0][0])):
                judge_entry(acc, shape, fam, op, v, None, None, g, m, per_container=True)
            k = 1
        for x, o in zip(idx, outs[k:]):
            i, j = x if shape in ("R2", "U2") else (x, None)
            for op, g, m in split_entries(ops1, dec(o[0])):
                judge_entry(acc, shape, fam, op, v, i, j, g, m)


# ---------------------------------------------------------------------------------------
# random larger containers

def rand_container(rng, fam):
    if fam == "arr":
        pool = [None, 0, 1, -1, 2.5, S("x"), S(""), [1], [], Obj([(S("a"), 1)]), True, Big(3), 2 ** 70]
        return [rng.choice(pool) for _ in range(rng.randrange(5, 13))]
    if fam in ("text", "bytes"):
        alpha = ["a", "b", "z", " ", "\x00", "é", "ß", "€", "한", "𝄞", "😀", "é", "‍", "﻿"]
        s = "".join(rng.choice(alpha) for _ in range(rng.randrange(5, 15))).encode()
        if fam == "bytes" and rng.random() < 0.5:
            s = bytes(rng.randrange(256) for _ in range(rng.randrange(5, 20)))
        return Str(s, fam == "text")
    keys = [S("a"), S("b"), S("c"), S(""), 0, 1, -1, 1.5, None, True, [0], [], [[1]], Obj([]), Obj([(S("a"), 1)]),
            Str(b"k", False), 2 ** 70, S("start"), S("end")]
    ks = rng.sample(keys, rng.randrange(3, 9))
    return Obj([(k, rng.choice([None, 1, S("v"), [1, 2], Obj([(S("n"), 1)])])) for k in ks])


def rand_index(rng, special):
    r = rng.random()
    if r < 0.75:
        return rng.randrange(-17, 18)
    if r < 0.8:
        return Big(rng.randrange(-17, 18))
    return rng.choice(special)


# ---------------------------------------------------------------------------------------
# tasks

PATHS = {}


def client(profile):
    return par.client(profile, path=PATHS.get(profile))


def task(t):
    shape, fam, containers, idx, profile, defs, seedstr = t
    acc = Acc(profile, random.Random(seedstr))
    try:
        c = client(profile)
        B = 16 if shape in ("R1", "U1") else max(1, 2400 // max(1, len(idx)))
        for a in range(0, len(containers), B):
            run_job(c, acc, shape, fam, containers[a:a + B], idx, defs)
    except WorkerDied as e:
        acc.inconc.append(classify_death(e))
    return {"viol": acc.viol, "inconc": acc.inconc, "evals": acc.evals, "judged_model": acc.judged_model,
            "judged_manual": acc.judged_manual, "unspec": acc.unspec, "manual_na": acc.manual_na,
            "invalid_agree": acc.invalid_agree, "invalid_differ": acc.invalid_differ,
            "distinct": list(acc.distinct), "by_op": acc.by_op, "samples": acc.samples, "shape": shape, "fam": fam,
            "cases": len(containers) * (len(idx) + (1 if shape in ("R1", "U1") else 0))}


def chunks(xs, n):
    return [xs[a:a + n] for a in range(0, len(xs), n)]


def build_tasks(run, defs):
    thorough = run.tier == "thorough"
    I = index_set()
    IO = obj_probe_set()
    pairs_all = [(i, j) for i in I for j in I]
    fams = {
        "arr": small_arrays(),
        "text": small_texts() + invalid_texts(),
        "bytes": small_bytes(thorough),
        "obj": small_objects() + OTHERS,
    }
    sizes = {k: len(v) for k, v in fams.items()}
    tasks = []
    tid = 0
    rng = run.rng("pairs")
    must = [(None, None), (1, 3), (3, 1), (-1, None), (None, -1), (0, 10 ** 20), (-(10 ** 20), None), (2, 2), (-6, 6)]
    for profile in ("verif", "release"):
        for fam, cs in fams.items():
            idx1 = IO if fam == "obj" else I
            # per-position shapes: complete in both tiers
            for shape in ("R1", "U1"):
                for ch in chunks(cs, 48):
                    tid += 1
                    tasks.append((shape, fam, ch, idx1, profile, defs, f"{run.seed}/{tid}"))
            # per-pair shapes
            if fam == "obj":
                cs2 = OTHERS + [Obj([]), Obj([(S("start"), 1), (S("end"), 2)]), Obj([(S("a"), 1), (0, 2)])]
            else:
                cs2 = cs
            for shape in ("R2", "U2"):
                per = 24 if shape == "R2" else 8
                for ch in chunks(cs2, per):
                    tid += 1
                    if thorough or fam == "obj":
                        P = pairs_all
                    else:
                        k = run.size(32, 0) if shape == "R2" else run.size(14, 0)
                        P = must + rng.sample(pairs_all, k)
                    tasks.append((shape, fam, ch, P, profile, defs, f"{run.seed}/{tid}"))
        # random larger containers
        nr = run.size(40, 600)
        for fam in ("arr", "text", "bytes", "obj"):
            rr = run.rng("rand", fam)
            special = [x for x in I if not (isinstance(x, int) and not isinstance(x, bool) and abs(x) <= 6)]
            for ch in chunks([rand_container(rr, fam) for _ in range(nr)], 20):
                idx = [rand_index(rr, special) for _ in range(24)]
                if fam == "obj":
                    idx += [k for v in ch[:4] for k, _ in v.items][:24]
                P = [(rand_index(rr, special), rand_index(rr, special)) for _ in range(60)]
                for shape in ("R1", "U1", "R2", "U2"):
                    if fam == "obj" and shape in ("R2", "U2"):
                        continue
                    tid += 1
                    tasks.append((shape, fam, ch, idx if shape in ("R1", "U1") else P, profile, defs,
                                  f"{run.seed}/{tid}"))
    return tasks, sizes, len(I), len(pairs_all)


def prebuild():
    for p in ("verif", "release"):
        PATHS[p] = build.jaqmon(p)


def replay(run, defs):
    w = json.load(open(run.replay))["witness"]

    def back(wire):
        v = dec(wire)
        return Big(v) if isinstance(wire, dict) and "I" in wire and -(2 ** 63) <= v < 2 ** 63 else v
    v = dec(w["container_wire"])
    i = back(w.get("i_wire"))
    shape, fam, profile = w["shape"], w["family"], w.get("profile", "verif")
    idx = [(i, back(w.get("j_wire")))] if shape in ("R2", "U2") else [i]
    acc = Acc(profile, random.Random(0))
    try:
        run_job(client(profile), acc, shape, fam, [v], idx, defs)
    except WorkerDied as e:
        run.inconc(classify_death(e))
    for key, wit in acc.viol:
        run.violation(key, wit)
    run.finish({"evaluations": acc.evals, "distinct_nontrivial": len(acc.distinct), "rule": "replay of one witness",
                "samples": [{k: w[k] for k in w if not k.endswith("_wire")}]})


def main():
    run = Run("C10")
    prebuild()
    defs, defs_source = manual_defs()
    if run.replay:
        return replay(run, defs)
    tasks, sizes, n_idx, n_pairs = build_tasks(run, defs)
    # biggest first, so that the tail of the run is short
    tasks.sort(key=lambda t: -len(t[2]) * len(t[3]))
    tot = {k: 0 for k in ("evals", "judged_model", "judged_manual", "unspec", "manual_na", "invalid_agree",
                          "invalid_differ", "cases")}
    by_op, by_shape = {}, {}
    distinct = Distinct()
    samples = Samples(8, run.rng("samples"))
    for out in par.pmap(task, tasks, run.jobs):
        for key, w in out["viol"]:
            run.violation(key, w)
        for cls in out["inconc"]:
            run.inconc(cls)
        for k in tot:
            tot[k] += out[k]
        for k, n in out["by_op"].items():
            by_op[k] = by_op.get(k, 0) + n
        sk = out["shape"] + ":" + out["fam"]
        by_shape[sk] = by_shape.get(sk, 0) + out["cases"]
        for d in out["distinct"]:
            distinct.add(d)
        for s in out["samples"]:
            samples.add(s)
    thorough = run.tier == "thorough"
    run.finish({
        "evaluations": tot["evals"],
        "distinct_nontrivial": len(distinct),
        "rule": "one evaluation = one operation (read, has, pattern, update ...) on one (container, position[, "
                "position]) executed by the real interpreter (the manual's definition evaluated next to it counts "
                "separately); distinct = (operation, container kind and length, class of each position relative to "
                "the container [null / zero / inside / at length / outside / negative inside / at -length / below / "
                "+-2^63 edge / beyond usize / big representation / wrong type], model outcome); non-trivial = the "
                "container is non-empty (per-container operations always count)",
        "samples": samples.items,
        "exhaustive": thorough,
        "exhaustive_parts": (["every (container, position) for all operations of shapes R1/U1",
                              "every (container, bound, bound) for all operations of shapes R2/U2"] if thorough else
                             ["every (container, position) for all operations of shapes R1/U1 (the bound pairs of "
                              "R2/U2 are a seeded slice in this tier)"]),
        "small_scope": {"containers": sizes, "positions": n_idx, "position_pairs": n_pairs},
        "cases_by_shape_and_family": by_shape,
        "evaluations_by_operation": by_op,
        "judged_against_position_model": tot["judged_model"],
        "judged_against_manual_definitions": tot["judged_manual"],
        "unspecified_not_judged": tot["unspec"],
        "manual_definition_not_applicable": tot["manual_na"],
        "invalid_utf8_text_observed_agreeing_with_chunk_model": tot["invalid_agree"],
        "invalid_utf8_text_observed_differing_from_chunk_model": tot["invalid_differ"],
        "manual_definitions": defs_source,
        "profiles": ["verif", "release"],
        "tasks": len(tasks),
    }, assumptions=[
        "vlib.values (reads) and vlib.c10_model (updates) are a faithful reading of docs/corelang.dj §Path operators, "
        "§Update assignment and docs/advanced.dj §Pathless",
        "not judged: first/last on empty or non-sequence containers (the manual's first(.[]) and the position model "
        ".[0] differ there), null as output of a slice update, has() with an array as key, where exactly the "
        "replacement goes when a slice is empty because its end lies before its start (any place between the two "
        "bounds is accepted), key order after deleting updates (compared as a set), text strings with invalid UTF-8 "
        "except identities / whole-string slices / no panic",
        "the manual's slice_upd is compared only where it is a splice: bounds translated as in the manual's table "
        "(open start = 0, open end = length) and end not before start",
    ])


if __name__ == "__main__":
    main()
