"""C18 — `--in-place` replaces a file atomically and only after complete success.

Monitor (fault enumeration on the real `jaq` binary): every scenario (1..3 input files, option /
filter / path-style / permission variants, optional filter-level failure) is first executed
fault-free under `strace`; the syscall log gives the complete sequence of system calls issued after
start-up (= from the first open of an input file to `exit_group`).  The scenario is then re-executed
once per system call of that sequence with `strace -e inject=<name>:signal=KILL:when=<k>` (strace
keeps ONE COUNTER PER SYSCALL NAME, so a kill point is the pair (name, k-th invocation of that name
since exec); the process dies on entering the call, the call does not execute), and once per
applicable error injection (`inject=write:error=ENOSPC:when=k`, EIO, EINTR, EDQUOT, persistent
`when=k+`; rename EXDEV/EACCES/ENOSPC; chmod EPERM; openat EMFILE/EACCES/EEXIST; statx EACCES; mmap of
the input ENOMEM (read fallback); close EIO; getcwd ENOENT; unlink EPERM).  Every injected run is
verified from its own strace log (which call was hit, at which position) before it is counted.

After every run the directory tree is compared with the original tree and with the complete
expected output (= what the same invocation without `--in-place` prints for that file)."""
import os
import random
import re
import shutil
import subprocess
import sys

sys.path.insert(0, os.path.dirname(os.path.dirname(os.path.abspath(__file__))))
from vlib import build, par
from vlib.run import Distinct, Run, Samples

TIMEOUT = 120          # wall-clock watchdog per process: only ever produces "inconclusive"
CHUNK = 24             # injected runs per worker task

# ------------------------------------------------------------------------------------------------
# scratch space
# ------------------------------------------------------------------------------------------------
BASE = None            # /tmp/c18-<unique>
XTMP = None            # TMPDIR handed to jaq: on another file system than BASE when one is available
JAQ = None


def setup_scratch():
    global BASE, XTMP
    uniq = "c18-%d-%s" % (os.getpid(), os.urandom(4).hex())
    BASE = os.path.join("/tmp", uniq)
    os.makedirs(BASE)
    XTMP = os.path.join(BASE, "tmpdir")
    try:
        if os.path.isdir("/dev/shm") and os.stat("/dev/shm").st_dev != os.stat(BASE).st_dev:
            cand = os.path.join("/dev/shm", uniq)
            os.makedirs(cand)
            XTMP = cand
    except OSError:
        pass
    os.makedirs(XTMP, exist_ok=True)


def cleanup_scratch():
    for d in (BASE, XTMP):
        if d:
            shutil.rmtree(d, ignore_errors=True)


def jaq_env(home):
    return {"PATH": "/usr/bin:/bin", "HOME": home, "TZ": "UTC", "NO_COLOR": "1", "LOG": "off",
            "TMPDIR": XTMP}


# ------------------------------------------------------------------------------------------------
# scenarios
# ------------------------------------------------------------------------------------------------
def content_bytes(spec):
    if "text" in spec:
        return spec["text"].encode()
    pre, unit, count, suf = spec["rep"]
    return (pre + unit * count + suf).encode()


BYSTANDERS = {"jaq-bystander.json": b'{"keep": true}\n', "other.txt": b"bystander\n"}


def materialize(scn, root):
    """create the scenario's tree under root; returns (cwd, path arguments, absolute target paths)"""
    w = os.path.join(root, "w")
    os.makedirs(os.path.join(w, "cwd"))
    os.makedirs(os.path.join(root, "home"))
    dirs = set()
    targets = []
    for f in scn["files"]:
        p = os.path.join(w, f["rel"])
        os.makedirs(os.path.dirname(p), exist_ok=True)
        dirs.add(os.path.dirname(p))
        targets.append(p)
        if f.get("missing"):
            continue
        with open(p, "wb") as fh:
            fh.write(content_bytes(f["content"]))
        os.chmod(p, f["mode"])
    for d in dirs:
        for name, data in BYSTANDERS.items():
            with open(os.path.join(d, name), "wb") as fh:
                fh.write(data)
    style = scn["style"]
    if style == "rel":
        cwd, args = w, [f["rel"] for f in scn["files"]]
    elif style == "dot":
        cwd, args = w, ["./" + f["rel"] for f in scn["files"]]
    elif style == "abs":
        cwd, args = os.path.join(root, "home"), list(targets)
    elif style == "up":
        cwd, args = os.path.join(w, "cwd"), ["../" + f["rel"] for f in scn["files"]]
    else:
        raise ValueError(style)
    return cwd, args, targets


def snapshot(root):
    """{path relative to <root>/w: (kind, bytes, mode)} for everything below <root>/w"""
    w = os.path.join(root, "w")
    out = {}
    for dp, dns, fns in os.walk(w):
        for fn in fns:
            p = os.path.join(dp, fn)
            rel = os.path.relpath(p, w)
            try:
                st = os.lstat(p)
                if not os.path.isfile(p) or os.path.islink(p):
                    out[rel] = ("special", b"", st.st_mode & 0o7777)
                else:
                    with open(p, "rb") as fh:
                        out[rel] = ("file", fh.read(), st.st_mode & 0o7777)
            except OSError as e:
                out[rel] = ("unreadable:%s" % e.__class__.__name__, b"", 0)
    return out


def short(b, n=80):
    if b is None:
        return None
    s = b[:n].decode("utf-8", "replace")
    return s if len(b) <= n else s + "...(%d bytes)" % len(b)


# ------------------------------------------------------------------------------------------------
# running jaq under strace and reading the log
# ------------------------------------------------------------------------------------------------
LINE = re.compile(r"^(\d+)\s+(\w+)\((.*)$")
QUOTED = re.compile(r'"((?:[^"\\]|\\.)*)"')


def parse_log(path):
    """events of the first traced process: {name, args(text after '('), ord (per-name ordinal
    since exec, the quantity strace's when= counts), inj, killed_here}; plus the way it ended"""
    events = []
    end = None
    main_pid = None
    counts = {}
    try:
        fh = open(path, "r", errors="replace")
    except OSError:
        return events, ("nolog", None)
    with fh:
        for line in fh:
            line = line.rstrip("\n")
            m = LINE.match(line)
            if m:
                pid, name, rest = m.group(1), m.group(2), m.group(3)
                if main_pid is None:
                    main_pid = pid
                if pid != main_pid:
                    continue
                if name in NOISE:
                    continue
                counts[name] = counts.get(name, 0) + 1
                events.append({"name": name, "args": rest, "ord": counts[name],
                               "inj": "(INJECTED)" in rest, "unfinished": rest.rstrip().endswith("= ?")})
                continue
            if "+++ killed by " in line:
                pid = line.split()[0]
                if main_pid is None or pid == main_pid:
                    end = ("signal", line.split("+++ killed by ")[1].split()[0])
            elif "+++ exited with " in line:
                pid = line.split()[0]
                if main_pid is None or pid == main_pid:
                    end = ("exit", int(line.split("+++ exited with ")[1].split()[0]))
    return events, end or ("unknown", None)


def first_path(ev):
    m = QUOTED.search(ev["args"])
    return m.group(1) if m else None


def fd_of(ev):
    m = re.match(r"\s*(\d+)", ev["args"])
    return int(m.group(1)) if m else -1


# mimalloc purges memory with madvise(MADV_DONTNEED) on a timer: the number and place of these calls
# varies from run to run. They cannot touch the file system, so the state "killed before madvise"
# is the state "killed before the next call", which is enumerated; they are left out of the sequence.
NOISE = {"madvise"}
OPEN_NAMES = ("openat", "open", "openat2", "creat")
RENAME_NAMES = ("rename", "renameat", "renameat2", "link", "linkat")
CHMOD_NAMES = ("chmod", "fchmod", "fchmodat", "fchmodat2")
STAT_NAMES = ("statx", "newfstatat", "fstat", "stat", "lstat")
UNLINK_NAMES = ("unlink", "unlinkat")
# calls that cannot change the file system (used for the "tail rule": nothing but these follows)
INERT = {"munmap", "madvise", "sigaltstack", "exit_group", "close", "fcntl", "brk", "mprotect", "rt_sigaction",
         "rt_sigprocmask", "getrandom", "futex", "getpid", "gettid", "exit", "statx", "newfstatat", "fstat",
         "lseek", "read", "getcwd", "prlimit64", "sched_getaffinity", "poll"}


def annotate(events, argpaths):
    """position of the start-up boundary and, for every later event, the current input file and
    the stage (derived from this very log): returns (start index or None, list of (m, stage,
    is_input_open) aligned with events[start:])"""
    idx_of = {p: i for i, p in enumerate(argpaths)}
    start = None
    for i, ev in enumerate(events):
        if ev["name"] in OPEN_NAMES and first_path(ev) == argpaths[0]:
            start = i
            break
    if start is None:
        return None, []
    ann = []
    m = -1
    stage = "load"
    for ev in events[start:]:
        name = ev["name"]
        is_open = False
        if name in OPEN_NAMES:
            p = first_path(ev)
            if p in idx_of and "O_CREAT" not in ev["args"] and "O_WRONLY" not in ev["args"] \
                    and "O_RDWR" not in ev["args"] and idx_of[p] > m:
                is_open = True
                ann.append((m, "open", True))
                m = idx_of[p]
                stage = "load"
                continue
        ann.append((m, stage, is_open))
        if name in OPEN_NAMES and ("O_CREAT" in ev["args"] or "O_WRONLY" in ev["args"] or "O_RDWR" in ev["args"]):
            stage = "write"
        elif name in RENAME_NAMES:
            stage = "commit"
    return start, ann


def execute(scn, fault, tag):
    """one run of the in-place invocation (fault=None: fault-free, traced). Returns a record."""
    root = os.path.join(BASE, scn["id"], tag)
    os.makedirs(root)
    try:
        cwd, argpaths, targets = materialize(scn, root)
        before = snapshot(root)
        log = os.path.join(root, "strace.log")
        cmd = ["strace", "-f", "-s", "48", "-o", log]
        if fault is not None:
            cmd += ["-e", "inject=" + inject_spec(fault)]
        cmd += [JAQ, scn.get("iflag", "-i")] + scn["opts"] + [scn["filter"]] + argpaths
        timed_out = False
        try:
            p = subprocess.run(cmd, cwd=cwd, env=jaq_env(os.path.join(root, "home")), stdin=subprocess.DEVNULL,
                               stdout=subprocess.PIPE, stderr=subprocess.PIPE, timeout=TIMEOUT)
            rc, out, err = p.returncode, p.stdout, p.stderr
        except subprocess.TimeoutExpired as e:
            timed_out = True
            rc, out, err = None, e.stdout or b"", e.stderr or b""
        events, end = parse_log(log)
        after = snapshot(root)
        return {"rc": rc, "stdout": out, "stderr": err, "events": events, "end": end, "before": before,
                "after": after, "argpaths": argpaths, "timeout": timed_out,
                "rels": [f["rel"] for f in scn["files"]]}
    finally:
        shutil.rmtree(root, ignore_errors=True)


def plain(scn, file_idx, tag):
    """the same invocation WITHOUT --in-place (on one file, or on all if file_idx is None)"""
    root = os.path.join(BASE, scn["id"], tag)
    os.makedirs(root)
    try:
        cwd, argpaths, _ = materialize(scn, root)
        if file_idx is not None:
            argpaths = [argpaths[file_idx]]
        cmd = [JAQ] + scn["opts"] + [scn["filter"]] + argpaths
        try:
            p = subprocess.run(cmd, cwd=cwd, env=jaq_env(os.path.join(root, "home")), stdin=subprocess.DEVNULL,
                               stdout=subprocess.PIPE, stderr=subprocess.PIPE, timeout=TIMEOUT)
        except subprocess.TimeoutExpired:
            return None, b"", b""
        return p.returncode, p.stdout, p.stderr
    finally:
        shutil.rmtree(root, ignore_errors=True)


def inject_spec(fault):
    if fault["kind"] == "kill":
        return "%s:signal=KILL:when=%d" % (fault["sys"], fault["when"])
    return "%s:error=%s:when=%d%s" % (fault["sys"], fault["errno"], fault["when"], "+" if fault.get("persist") else "")


# ------------------------------------------------------------------------------------------------
# the oracle
# ------------------------------------------------------------------------------------------------
def natural_a(scn):
    f = scn.get("fail")
    return f["file"] if f else len(scn["files"])


def classify_state(scn, rec, expected):
    """per target: 'old' | 'new' | 'both' (old == new) | 'missing' | 'other'"""
    states = []
    for i, f in enumerate(scn["files"]):
        rel = f["rel"]
        b = rec["before"].get(rel)
        a = rec["after"].get(rel)
        if a is None:
            states.append("old" if b is None else "missing")       # a file that never existed stays absent
            continue
        if b is None:
            states.append("other")                                   # created out of nothing
            continue
        if a[0] != "file":
            states.append("other")
            continue
        is_old = a[1] == b[1]
        is_new = expected[i] is not None and a[1] == expected[i]
        states.append("both" if is_old and is_new else "old" if is_old else "new" if is_new else "other")
    return states


def fits(states, a):
    """does the state vector equal new^a old^(n-a)?"""
    for i, s in enumerate(states):
        want = "new" if i < a else "old"
        if s != want and s != "both":
            return False
    return True


def judge(scn, expected, base_info, fault, rec):
    """-> (violations [(key, detail)], info) for one finished run. `base_info` is None for the
    fault-free run itself, else {"names": post-start syscall names of the fault-free run,
    "final": final state vector + modes of the fault-free run}."""
    viol = []
    n = len(scn["files"])
    nat = natural_a(scn)
    info = {"effective": False, "cls": None, "states": None, "outcome": None}
    end_kind, end_val = rec["end"]
    events = rec["events"]
    start, ann = annotate(events, rec["argpaths"])
    states = classify_state(scn, rec, expected)
    info["states"] = states
    killed = end_kind == "signal" and end_val == "SIGKILL"
    abnormal = end_kind == "signal" and not killed
    fk = "none" if fault is None else fault["kind"] + ("" if fault["kind"] == "kill" else "=" + fault["errno"] +
                                                      ("+" if fault.get("persist") else ""))
    fsys = "-" if fault is None else fault["sys"]

    # ---- where did the fault hit (from this run's own log) -------------------------------------
    m, stage, is_open, pos = -1, "startup", False, None
    if fault is not None:
        hit = None
        if fault["kind"] == "kill":
            if killed and events and events[-1]["name"] == fault["sys"] and events[-1]["unfinished"] \
                    and events[-1]["ord"] == fault["when"]:
                hit = len(events) - 1
        else:
            for i, ev in enumerate(events):
                if ev["inj"] and ev["name"] == fault["sys"] and ev["ord"] == fault["when"]:
                    hit = i
                    break
        if hit is None or start is None or hit < start:
            info["outcome"] = "injection-missed"
        else:
            pos = hit - start
            m, stage, is_open = ann[pos]
            info["effective"] = True
            info["pos"] = pos
            info["shifted"] = pos != fault.get("pos")
    else:
        m = nat - 1 if nat < n else n - 1

    def v(inv, detail):
        key = "%s:%s@%s:%s" % (inv, fk, fsys, stage if fault is not None else "fault-free")
        viol.append((key, detail))

    # ---- I1: every target is old or complete-new; bystanders untouched ---------------------------
    for i, s in enumerate(states):
        if s in ("other", "missing"):
            rel = scn["files"][i]["rel"]
            a = rec["after"].get(rel)
            v("I1-partial" if s == "other" else "I1-target-missing",
              {"file": rel, "index": i, "observed": short(a[1]) if a else None,
               "observed_len": len(a[1]) if a else None,
               "old": short(rec["before"][rel][1]) if rel in rec["before"] else None,
               "old_len": len(rec["before"][rel][1]) if rel in rec["before"] else None,
               "expected_new": short(expected[i]), "expected_new_len": len(expected[i]) if expected[i] is not None else None})
    target_rels = set(rec["rels"])
    for rel, b in rec["before"].items():
        if rel in target_rels:
            continue
        a = rec["after"].get(rel)
        if a is None or a[1] != b[1] or a[2] != b[2]:
            v("I5-bystander-changed", {"file": rel, "observed": short(a[1]) if a else None})
    extra = sorted(set(rec["after"]) - set(rec["before"]))
    info["extra"] = extra

    ok_form = [a for a in range(n + 1) if fits(states, a)]
    if not any(s in ("other", "missing") for s in states):
        # ---- I2: new* old* -------------------------------------------------------------------------
        if not ok_form:
            v("I2-order", {"states": states})
        else:
            allowed = None
            if rec["timeout"] or end_kind in ("unknown", "nolog"):
                allowed = None
            elif fault is None:
                allowed = {nat}
            elif not info["effective"]:
                allowed = None
            elif killed or abnormal:
                allowed = {m + 1} if is_open else {max(m, 0), m + 1}
                allowed = {a for a in allowed if a <= nat}
            else:
                code = end_val
                if scn.get("fail") is None and code == 0:
                    allowed = {n}                     # success => all new
                else:
                    allowed = {nat, m + 1} if is_open else {nat, max(m, 0), m + 1}
                    if fault["sys"] in ("write", "pwrite64", "writev") and fault["errno"] not in ("EINTR", "EAGAIN"):
                        allowed = {max(m, 0)}      # "when writing fails ... still holds its original bytes"
                    allowed = {a for a in allowed if a <= nat}
            if allowed is not None and not (set(ok_form) & allowed):
                inv = "I3-order"
                if killed:
                    inv = "I3-kill-order"
                elif fault is not None and end_kind == "exit" and end_val == 0 and scn.get("fail") is None:
                    inv = "I4-success-not-all-new"
                elif fault is None:
                    inv = "I3-final-state"
                v(inv, {"states": states, "allowed_new_prefix_lengths": sorted(allowed), "current_file": m,
                        "exit": end_val, "natural_prefix": nat})

    # ---- exit status of the fault-free run -----------------------------------------------------------
    if fault is None and end_kind == "exit":
        fl = scn.get("fail")
        if fl is None and end_val != 0:
            v("I4-inplace-run-fails", {"exit": end_val, "stderr": short(rec["stderr"], 300)})
        if fl is not None and fl["kind"] not in ("halt",) and end_val == 0:
            v("I3-failure-exit-0", {"exit": end_val, "fail": fl})

    # ---- I4: after a run that completed (was not killed) -----------------------------------------------
    if end_kind == "exit":
        all_new = fits(states, n) and scn.get("fail") is None
        if end_val == 0 and all_new:
            for i, f in enumerate(scn["files"]):
                a = rec["after"].get(f["rel"])
                if a and a[2] != f["mode"]:
                    v("I4-mode-changed", {"file": f["rel"], "mode_before": oct(f["mode"]), "mode_after": oct(a[2])})
        if extra and not (fault is not None and fault["sys"] in UNLINK_NAMES):
            v("I4-stray-temp:" + ("success" if end_val == 0 else "error-exit"),
              {"extra_files": extra, "exit": end_val})

    # ---- tail rule: nothing but inert calls would have followed => the state is already final ----------
    if fault is not None and fault["kind"] == "kill" and info["effective"] and base_info is not None \
            and not info.get("shifted") and not viol:
        names = base_info["names"]
        if pos is not None and pos < len(names) and names[pos] == fault["sys"] and all(x in INERT for x in names[pos:]):
            final = base_info["final"]
            now = [(s, rec["after"].get(f["rel"], (None, None, None))[2]) for s, f in zip(states, scn["files"])]
            if now != final:
                v("I4-final-state-not-reached", {"state_and_mode_now": now, "state_and_mode_after_normal_end": final})
            info["tail"] = True

    # ---- bookkeeping -----------------------------------------------------------------------------------
    if info["outcome"] is None:
        if rec["timeout"]:
            info["outcome"] = "timeout"
        elif killed:
            info["outcome"] = "killed"
        elif abnormal:
            info["outcome"] = "signal:" + str(end_val)
        elif end_kind == "exit":
            info["outcome"] = "exit=%s" % end_val
        else:
            info["outcome"] = "unknown-end"
    if fault is not None and info["effective"]:
        wcls = ""
        if fault["sys"] == "write":
            wcls = fault.get("wcls", "")
        info["cls"] = (scn["id"], "kill" if fault["kind"] == "kill" else "error", fault["sys"], m, stage, wcls)
        info["m"] = m
        info["stage"] = stage
    return viol, info


# ------------------------------------------------------------------------------------------------
# fault enumeration from the fault-free trace
# ------------------------------------------------------------------------------------------------
def enumerate_faults(scn, rec, tier):
    events = rec["events"]
    start, ann = annotate(events, rec["argpaths"])
    faults = []
    post = events[start:]
    fwrites = [i for i, ev in enumerate(post) if ev["name"] == "write" and fd_of(ev) >= 3]
    wcls = {}
    for j, i in enumerate(fwrites):
        wcls[i] = "first" if j == 0 else "last" if j == len(fwrites) - 1 else "middle"
    picked = set(fwrites[:1] + fwrites[-1:] + ([fwrites[len(fwrites) // 2]] if fwrites else []))
    # the first/last write of every file
    bym = {}
    for i in fwrites:
        bym.setdefault(ann[i][0], []).append(i)
    for lst in bym.values():
        picked.add(lst[0])
        picked.add(lst[-1])
    for pos, ev in enumerate(post):
        name, when = ev["name"], ev["ord"]
        f = {"kind": "kill", "sys": name, "when": when, "pos": pos}
        if pos in wcls:
            f["wcls"] = wcls[pos]
        faults.append(f)

        def err(errno, persist=False):
            d = {"kind": "error", "sys": name, "errno": errno, "when": when, "pos": pos}
            if persist:
                d["persist"] = True
            if pos in wcls:
                d["wcls"] = wcls[pos]
            faults.append(d)
        if name == "write" and fd_of(ev) >= 3:
            err("ENOSPC")
            if pos in picked:
                err("EIO")
                err("EINTR")
                err("EDQUOT")
                err("ENOSPC", True)
        elif name in ("pwrite64", "writev", "fsync", "fdatasync", "ftruncate", "copy_file_range", "sendfile",
                      "fallocate"):
            err("EIO")
            err("ENOSPC")
        elif name in RENAME_NAMES:
            for e in ("EXDEV", "EACCES", "ENOSPC"):
                err(e)
        elif name in CHMOD_NAMES:
            err("EPERM")
            err("EIO")
        elif name in OPEN_NAMES:
            err("EMFILE")
            err("EACCES")
            if "O_CREAT" in ev["args"]:
                err("EEXIST")
                err("ENOSPC")
        elif name in STAT_NAMES:
            err("EACCES")
        elif name == "mmap" and "MAP_ANONYMOUS" not in ev["args"]:
            err("ENOMEM")
            err("ENODEV")
        elif name == "read" and fd_of(ev) >= 3:
            err("EIO")
        elif name == "close":
            err("EIO")
        elif name == "getcwd":
            err("ENOENT")
        elif name in UNLINK_NAMES:
            err("EPERM")
    return faults


# ------------------------------------------------------------------------------------------------
# worker tasks
# ------------------------------------------------------------------------------------------------
def witness(scn, fault, rec, detail, expected):
    return {"scenario": scn, "fault": fault, "detail": detail,
            "exit": list(rec["end"]), "stderr": short(rec["stderr"], 300),
            "argv": [scn.get("iflag", "-i")] + scn["opts"] + [scn["filter"]] + rec["argpaths"],
            "directory_after": {k: {"kind": v[0], "len": len(v[1]), "head": short(v[1], 60), "mode": oct(v[2])}
                                for k, v in sorted(rec["after"].items())},
            "expected_new": [short(e, 60) for e in expected],
            "last_syscalls": [e["name"] + "(" + e["args"][:140] for e in rec["events"][-6:]]}


def prepare(scn):
    """expected outputs, fault-free traced run, fault list"""
    out = {"scn": scn, "viol": [], "inconc": [], "faults": [], "expected": None, "base_info": None, "runs": 0,
           "sample": None, "post_len": 0, "sysnames": {}}
    n = len(scn["files"])
    nat = natural_a(scn)
    expected = [None] * n
    for i in range(n):
        rc, so, se = plain(scn, i, "plain%d" % i)
        if rc is None:
            out["inconc"].append("timeout")
            return out
        if i < nat:
            if rc != 0:
                out["inconc"].append("scenario-invalid:plain-run-failed")
                return out
            expected[i] = so
        elif i == nat and scn["fail"]["kind"] != "halt" and rc == 0:
            out["inconc"].append("scenario-invalid:failing-file-does-not-fail")
            return out
    if scn.get("fail") is None:
        rc, so, se = plain(scn, None, "plainall")
        if rc != 0 or so != b"".join(expected):
            out["inconc"].append("scenario-invalid:per-file-output-not-compositional")
            return out
    out["expected"] = expected
    rec = execute(scn, None, "base")
    out["runs"] = 1
    if rec["timeout"]:
        out["inconc"].append("timeout")
        return out
    viol, info = judge(scn, expected, None, None, rec)
    for key, detail in viol:
        out["viol"].append((key, witness(scn, None, rec, detail, expected)))
    start, ann = annotate(rec["events"], rec["argpaths"])
    if start is None or rec["end"][0] != "exit":
        out["inconc"].append("baseline-not-traceable")
        return out
    post = rec["events"][start:]
    states = info["states"]
    out["base_info"] = {"names": [e["name"] for e in post],
                        "final": [(s, rec["after"].get(f["rel"], (None, None, None))[2])
                                  for s, f in zip(states, scn["files"])],
                        "exit": rec["end"][1]}
    out["post_len"] = len(post)
    out["faults"] = enumerate_faults(scn, rec, None)
    out["trivial_files"] = sum(1 for s in states if s == "both")
    out["sample"] = {"scenario": scn["id"], "argv": [scn.get("iflag", "-i")] + scn["opts"] + [scn["filter"]] + rec["argpaths"],
                     "fault": None, "exit": rec["end"][1], "states": states,
                     "syscalls_after_startup": compress([e["name"] for e in post])}
    return out


def compress(names):
    out = []
    for x in names:
        if out and out[-1][0] == x:
            out[-1][1] += 1
        else:
            out.append([x, 1])
    return " ".join(x if c == 1 else "%s*%d" % (x, c) for x, c in out)


def run_chunk(t):
    scn, expected, base_info, faults, tagbase = t
    res = []
    for k, fault in enumerate(faults):
        rec = execute(scn, fault, "%s-%d" % (tagbase, k))
        viol, info = judge(scn, expected, base_info, fault, rec)
        r = {"fault": fault, "info": info, "viol": [(key, witness(scn, fault, rec, d, expected)) for key, d in viol],
             "end": rec["end"]}
        if info["effective"]:
            r["sample"] = {"scenario": scn["id"], "fault": inject_spec(fault), "position_after_startup": info.get("pos"),
                           "current_file": info.get("m"), "stage": info.get("stage"), "end": list(rec["end"]),
                           "states": info["states"], "extra_files": info["extra"],
                           "modes": [oct(rec["after"][f["rel"]][2]) if f["rel"] in rec["after"] else None
                                     for f in scn["files"]]}
            r["mode_drift"] = any(f["rel"] in rec["after"] and rec["after"][f["rel"]][2] != f["mode"]
                                  for f in scn["files"])
        res.append(r)
    return res


# ------------------------------------------------------------------------------------------------
# scenario construction
# ------------------------------------------------------------------------------------------------
def nums(rng, k, lo=1, hi=99):
    return [rng.randrange(lo, hi) for _ in range(k)]


def pretty_stream(vals):
    import json
    return "".join(json.dumps(v, indent=2) + "\n" for v in vals)


def compact_stream(vals, sep="\n"):
    import json
    return sep.join(json.dumps(v, separators=(",", ":")) for v in vals) + "\n"


WORDS = ["alpha", "beta", "x y", "", "z", "café", "q\"t", "tab\\t", "0"]


def small_value(rng, depth=0):
    r = rng.random()
    if depth >= 2 or r < 0.35:
        return rng.choice([rng.randrange(-5, 500), rng.choice(WORDS), True, None, 1.5])
    if r < 0.7:
        return [small_value(rng, depth + 1) for _ in range(rng.randrange(0, 3))]
    return {rng.choice(["a", "b", "k", "name"]): small_value(rng, depth + 1) for _ in range(rng.randrange(1, 3))}


def quick_scenarios(rng):
    S = []
    a, b, c = nums(rng, 3), nums(rng, 3, 100, 199), nums(rng, 2, 200, 299)
    w1, w2 = rng.choice(WORDS[:3]), rng.choice(WORDS[4:])

    def J(text):
        return {"text": text}
    S.append({"id": "q01-single-rel-compact", "style": "rel", "opts": ["-c"], "filter": ".", "fail": None,
              "files": [{"rel": "a.json", "mode": 0o644, "content": J(pretty_stream([{"a": a[0], "b": [a[1], w1]}, a]))}]})
    S.append({"id": "q02-single-dot-readonly-larger", "style": "dot", "opts": [], "filter": "[., .]", "fail": None,
              "iflag": "--in-place",
              "files": [{"rel": "a.json", "mode": 0o444, "content": J(compact_stream([{"k": a[0]}, w2]))}]})
    S.append({"id": "q03-single-abs-empty-output", "style": "abs", "opts": [], "filter": "empty", "fail": None,
              "files": [{"rel": "a.json", "mode": 0o666, "content": J(compact_stream([a, b]))}]})
    S.append({"id": "q04-two-subdirs", "style": "rel", "opts": ["-c"], "filter": "map(. + 1)", "fail": None,
              "files": [{"rel": "sub/x/a.json", "mode": 0o755, "content": J(pretty_stream([a]))},
                        {"rel": "sub/y/b.json", "mode": 0o664, "content": J(pretty_stream([b, c]))}]})
    S.append({"id": "q05-three-slurp", "style": "rel", "opts": ["-s", "-c"], "filter": ".", "fail": None,
              "files": [{"rel": "a.json", "mode": 0o644, "content": J(compact_stream(a, " "))},
                        {"rel": "b.json", "mode": 0o444, "content": J(compact_stream(b, " "))},
                        {"rel": "c.json", "mode": 0o600, "content": J(compact_stream(c, " "))}]})
    k = rng.randrange(0, 3)
    S.append({"id": "q06-filter-error-2nd-of-3", "style": "dot", "opts": ["-c"],
              "filter": "if . == %d then error(\"boom\") else [., .] end" % b[k],
              "fail": {"kind": "filter-error", "file": 1, "after_outputs": k},
              "files": [{"rel": "a.json", "mode": 0o644, "content": J(compact_stream(a, " "))},
                        {"rel": "b.json", "mode": 0o444, "content": J(compact_stream(uniq(b), " "))},
                        {"rel": "c.json", "mode": 0o644, "content": J(compact_stream(c, " "))}]})
    S[-1]["filter"] = "if . == %d then error(\"boom\") else [., .] end" % uniq(b)[k]
    k = rng.randrange(1, 3)
    S.append({"id": "q07-parse-error-2nd-of-3", "style": "abs", "opts": ["-c"], "filter": ". + 1",
              "fail": {"kind": "parse-error", "file": 1, "at_value": k},
              "files": [{"rel": "a.json", "mode": 0o644, "content": J(compact_stream(a, " "))},
                        {"rel": "b.json", "mode": 0o644,
                         "content": J(" ".join(map(str, b[:k])) + " ] " + " ".join(map(str, b[k:])) + "\n")},
                        {"rel": "c.json", "mode": 0o600, "content": J(compact_stream(c, " "))}]})
    S.append({"id": "q08-halt-in-2nd", "style": "rel", "opts": ["-c"],
              "filter": "if . == %d then halt else . * 2 end" % c[1],
              "fail": {"kind": "halt", "file": 1, "after_outputs": 1},
              "files": [{"rel": "a.json", "mode": 0o644, "content": J(compact_stream(a, " "))},
                        {"rel": "b.json", "mode": 0o775, "content": J(compact_stream([c[0] + 300, c[1], 7], " "))}]})
    S.append({"id": "q09-mmap-big-then-small", "style": "rel", "opts": ["-c"], "filter": "[., %d]" % a[0], "fail": None,
              "files": [{"rel": "big.json", "mode": 0o644,
                         "content": {"rep": ["\"", "ab ", 360000 + rng.randrange(0, 5000), "\"\n[1,2]\n"]}},
                        {"rel": "small.json", "mode": 0o400, "content": J(compact_stream([w1]))}]})
    S.append({"id": "q10-yaml-updir", "style": "up", "opts": ["--to", "yaml"], "filter": ".items |= map(. + 1)",
              "fail": None,
              "files": [{"rel": "data/l.yaml", "mode": 0o755,
                         "content": J("items:\n  - %d\n  - %d\nname: x\n" % (a[0], a[1]))}]})
    S.append({"id": "q11-missing-2nd-of-3", "style": "rel", "opts": [], "filter": "[.]",
              "fail": {"kind": "missing-file", "file": 1},
              "files": [{"rel": "a.json", "mode": 0o664, "content": J(compact_stream([a[0]]))},
                        {"rel": "nope.json", "mode": 0o644, "content": J(""), "missing": True},
                        {"rel": "c.json", "mode": 0o644, "content": J(compact_stream([c[0]]))}]})
    S.append({"id": "q12-toml-format-error-after-1", "style": "rel", "opts": ["--to", "toml"], "filter": ".",
              "fail": {"kind": "format-error", "file": 1, "after_outputs": 1},
              "files": [{"rel": "a.json", "mode": 0o644, "content": J(compact_stream([{"a": a[0]}]))},
                        {"rel": "b.json", "mode": 0o444, "content": J(compact_stream([{"b": b[0]}, [b[1]], {"c": 1}]))}]})
    return S


def uniq(xs):
    out = []
    for x in xs:
        while x in out:
            x += 1
        out.append(x)
    return out


MODES = [0o644, 0o444, 0o600, 0o755, 0o640, 0o400, 0o664, 0o666, 0o744]
OPTSETS = [[], ["-c"], ["-c"], ["-s"], ["-s", "-c"], ["--tab"], ["--indent", "1"], ["-S", "-c"], ["-r"], ["-j"],
           ["--to", "yaml"], ["--to", "cbor"], ["-c", "-n"], ["--to", "json", "-c"]]
FILTERS_ANY = [".", "[.]", "[., .]", "empty", "tojson", "tostring", "., .", "{v: .}", "type", "[.] | tojson | length"]


def random_scenario(rng, idx):
    n = rng.choice([1, 1, 2, 2, 3, 3])
    style = rng.choice(["rel", "dot", "abs", "up", "rel"])
    layout = rng.choice(["flat", "flat", "sub", "mixed"])
    names = ["a.json", "b.json", "c.json"]
    rels = []
    for i in range(n):
        if layout == "flat":
            rels.append(names[i])
        elif layout == "sub":
            rels.append("sub/d/" + names[i])
        else:
            rels.append(["", "s1/", "s1/s2/"][(i + idx) % 3] + names[i])
    files = []
    # distinct numbers per file so that a failure can be pinned to (file, value)
    vals = []
    for i in range(n):
        cnt = rng.randrange(1, 4)
        vals.append(uniq([100 * (i + 1) + rng.randrange(0, 50) for _ in range(cnt)]))
    big = rng.random() < 0.08
    kind = rng.choice(["none", "none", "none", "filter-error", "parse-error", "halt", "halt_error", "missing-file",
                       "format-error"])
    if n == 1 and kind == "missing-file":
        kind = "none"
    fail = None
    opts = list(rng.choice(OPTSETS))
    iflag = rng.choice(["-i", "-i", "--in-place"])
    if kind == "none":
        use_struct = rng.random() < 0.5
        for i in range(n):
            if use_struct:
                vs = [small_value(rng) for _ in range(rng.randrange(1, 3))]
            else:
                vs = vals[i]
            text = pretty_stream(vs) if rng.random() < 0.5 else compact_stream(vs, rng.choice(["\n", " "]))
            files.append({"rel": rels[i], "mode": rng.choice(MODES), "content": {"text": text}})
        filt = rng.choice(FILTERS_ANY)
        if opts == ["--to", "yaml"] or opts == ["--to", "cbor"]:
            filt = rng.choice([".", "[.]", "{v: .}", "empty"])
        if big:
            j = rng.randrange(n)
            files[j]["content"] = {"rep": ["\"", rng.choice(["ab ", "xyz", "0"]), 1100000 // 3 + rng.randrange(0, 9000),
                                           "\"\n%d\n" % vals[j][0]]}
            files[j]["rel"] = files[j]["rel"].replace(".json", "-big.json")
            filt = rng.choice([".", "tostring | length", "[., 1]", "empty", "., 0"])
            if "-r" in opts or "-j" in opts or "--to" in opts:
                opts = ["-c"]
    else:
        fi = rng.randrange(1 if kind == "missing-file" else 0, n)
        for i in range(n):
            files.append({"rel": rels[i], "mode": rng.choice(MODES),
                          "content": {"text": compact_stream(vals[i], rng.choice(["\n", " "]))}})
        opts = [o for o in opts if o not in ("-n",)]
        if "--to" in opts:
            opts = ["-c"]
        slurp = "-s" in opts
        k = rng.randrange(0, len(vals[fi]))
        bad = vals[fi][k]
        if kind in ("filter-error", "halt", "halt_error"):
            act = {"filter-error": "error(\"boom\")", "halt": "halt", "halt_error": "halt_error"}[kind]
            if slurp:
                filt = ".[] | if . == %d then %s else [., .] end" % (bad, act)
            else:
                filt = "if . == %d then %s else [., .] end" % (bad, act)
            fail = {"kind": kind, "file": fi, "after_outputs": k}
        elif kind == "parse-error":
            vs = vals[fi]
            junk = rng.choice([" ] ", " {\"a\" ", " tru ", " \"unterminated"])
            files[fi]["content"] = {"text": " ".join(map(str, vs[:k])) + junk + " ".join(map(str, vs[k:])) + "\n"}
            filt = rng.choice([". + 1", "[.]", "."])
            if slurp:
                filt = rng.choice(["map(. + 1)", "."])
            fail = {"kind": kind, "file": fi, "at_value": k}
        elif kind == "missing-file":
            files[fi]["missing"] = True
            files[fi]["rel"] = files[fi]["rel"].replace(".json", "-absent.json")
            filt = rng.choice([".", "[.]"])
            fail = {"kind": kind, "file": fi}
        else:   # format-error: TOML needs an object at the root
            opts = ["--to", "toml"]
            for i in range(n):
                vs = [{"k%d" % j: v} for j, v in enumerate(vals[i])]
                if i == fi:
                    vs[k] = [vals[i][k]]
                files[i]["content"] = {"text": compact_stream(vs)}
            filt = "."
            fail = {"kind": kind, "file": fi, "after_outputs": k}
    return {"id": "r%03d-%s-%s-%df-%s" % (idx, kind, style, n, layout), "style": style, "opts": opts, "filter": filt,
            "fail": fail, "files": files, "iflag": iflag}


# ------------------------------------------------------------------------------------------------
# main
# ------------------------------------------------------------------------------------------------
RULE = ("scenarios (1..3 files, options, path styles, modes, filter-level failures) are executed fault-free under "
        "strace; every system call after the first open of an input file (until exit_group) becomes one kill point "
        "(strace inject=<name>:signal=KILL:when=<per-name ordinal>), and every write/rename/chmod/open/stat/mmap/"
        "close/getcwd/unlink call additionally gets error injections; evaluations = injected runs executed; a run "
        "counts as non-trivial only if its own strace log proves that the injection hit exactly the planned call "
        "after start-up (process killed at that call / call failed with (INJECTED)); distinct = distinct (scenario, "
        "kill|error, syscall name, index of the file being processed, stage load/write/commit/open, first/middle/"
        "last write) classes among those")

ASSUMPTIONS = [
    "strace injection semantics: signal=KILL terminates the tracee on entering the selected call without executing it "
    "(checked per run: the log must end with that call unfinished and SIGKILL); when=N counts per syscall name",
    "file-system state changes only at system calls, so killing before each call enumerates all crash states "
    "(no durability / power-loss claim)",
    "expected new content = stdout of the same invocation without --in-place on that single file",
    "the scratch file system (/tmp) behaves like the file systems users have; TMPDIR points to another file system "
    "when one is available",
]


def hist_add(h, k, n=1):
    h[k] = h.get(k, 0) + n


def run_all(run, scenarios):
    stats = {"evaluations": 0, "effective": 0, "missed": 0, "shifted": 0, "fault_free_runs": 0,
             "kill_syscalls": {}, "error_faults": {}, "outcome_by_kind": {}, "kill_states": {}, "exit_codes": {},
             "temp_left_after_kill": 0, "mode_drift_after_kill": 0, "mode_drift_after_error_exit": 0,
             "tail_rule_checked": 0, "kill_points_planned": 0,
             "kill_points_hit": 0, "scenarios": 0, "trivial_files": 0, "post_startup_syscalls": {}}
    distinct = Distinct()
    samples = Samples(8, run.rng("samples"))
    base_samples = []
    prepared = []
    for out in par.pmap(prepare, scenarios, run.jobs):
        stats["fault_free_runs"] += out["runs"]
        for key, w in out["viol"]:
            run.violation(key, w)
        for cls in out["inconc"]:
            run.inconc(cls)
        if out["base_info"] is None:
            continue
        stats["scenarios"] += 1
        stats["trivial_files"] += out.get("trivial_files", 0)
        stats["post_startup_syscalls"][out["scn"]["id"]] = out["post_len"]
        if len(base_samples) < 3:
            base_samples.append(out["sample"])
        prepared.append(out)
    prepared.sort(key=lambda o: o["scn"]["id"])
    tasks = []
    for o in prepared:
        fl = o["faults"]
        stats["kill_points_planned"] += sum(1 for f in fl if f["kind"] == "kill")
        for i in range(0, len(fl), CHUNK):
            tasks.append((o["scn"], o["expected"], o["base_info"], fl[i:i + CHUNK], "f%05d" % i))
    # big scenarios first (better packing)
    tasks.sort(key=lambda t: -sum(len(e) for e in t[1] if e))
    for res in par.pmap(run_chunk, tasks, run.jobs):
        for r in res:
            stats["evaluations"] += 1
            f, info = r["fault"], r["info"]
            for key, w in r["viol"]:
                run.violation(key, w)
            if info["outcome"] == "timeout":
                run.inconc("timeout")
                continue
            if not info["effective"]:
                stats["missed"] += 1
                run.inconc("injection-did-not-hit-planned-call")
                continue
            stats["effective"] += 1
            if info.get("shifted"):
                stats["shifted"] += 1
            distinct.add(repr(info["cls"]))
            samples.add(r["sample"])
            st = "".join({"old": "o", "new": "N", "both": "=", "other": "?", "missing": "-"}[s] for s in info["states"])
            if f["kind"] == "kill":
                stats["kill_points_hit"] += 1
                hist_add(stats["kill_syscalls"], f["sys"])
                hist_add(stats["kill_states"], "%s/%s:%s" % (info["stage"], f["sys"], st))
                if info["extra"]:
                    stats["temp_left_after_kill"] += 1
                if r.get("mode_drift"):
                    stats["mode_drift_after_kill"] += 1
                if info.get("tail"):
                    stats["tail_rule_checked"] += 1
            else:
                k = "%s:%s%s" % (f["sys"], f["errno"], "+" if f.get("persist") else "")
                hist_add(stats["error_faults"], k)
                hist_add(stats["outcome_by_kind"], "%s -> %s" % (k, info["outcome"]))
                if r.get("mode_drift") and r["end"][0] == "exit" and r["end"][1] != 0:
                    stats["mode_drift_after_error_exit"] += 1
            hist_add(stats["exit_codes"], info["outcome"])
            if info["outcome"].startswith("signal:"):
                run.inconc("abnormal-termination-under-injected-error:" + info["outcome"])
    # aggregate the kill-state histogram to a readable size
    ks = {}
    for k, c in stats["kill_states"].items():
        stage = k.split("/")[0]
        pat = k.split(":")[-1]
        kk = "%s: %s" % (stage, "all-old" if set(pat) <= {"o"} else "all-new" if set(pat) <= {"N", "="} else "new-prefix")
        hist_add(ks, kk, c)
    stats["kill_outcomes_by_stage"] = ks
    del stats["kill_states"]
    return stats, distinct, samples, base_samples


def main():
    global JAQ
    run = Run("C18", level="fault_enumeration")
    JAQ = build.cli()
    setup_scratch()
    try:
        if run.replay:
            import json
            w = json.load(open(run.replay))["witness"]
            scn, fault = w["scenario"], w["fault"]
            out = prepare(scn)
            for key, wit in out["viol"]:
                run.violation(key, wit)
            n_eval = out["runs"]
            if fault is not None and out["base_info"] is not None:
                # re-derive the fault from the fresh trace: same call, same position
                cands = [f for f in out["faults"] if f["kind"] == fault["kind"] and f["sys"] == fault["sys"]
                         and f.get("errno") == fault.get("errno") and bool(f.get("persist")) == bool(fault.get("persist"))]
                same = [f for f in cands if f["pos"] == fault.get("pos")] or [f for f in cands if f["when"] == fault["when"]]
                for r in run_chunk((scn, out["expected"], out["base_info"], same[:1] or [fault], "replay")):
                    n_eval += 1
                    for key, wit in r["viol"]:
                        run.violation(key, wit)
                    print("replayed fault %s -> %s states=%s" % (inject_spec(r["fault"]), r["info"]["outcome"],
                                                                 r["info"]["states"]))
            run.finish({"evaluations": n_eval, "distinct_nontrivial": 0, "rule": RULE, "samples": [w.get("detail")]},
                       assumptions=ASSUMPTIONS)
            return
        rng = run.rng("scenarios")
        scenarios = quick_scenarios(rng)
        if run.tier == "thorough":
            nrand = run.size(0, 200)
            scenarios += [random_scenario(run.rng("rand", i), i) for i in range(nrand)]
        stats, distinct, samples, base_samples = run_all(run, scenarios)
        cov = {"evaluations": stats["evaluations"], "distinct_nontrivial": len(distinct), "rule": RULE,
               "samples": base_samples[:2] + samples.items,
               "exhaustive": stats["kill_points_hit"] == stats["kill_points_planned"] and stats["missed"] == 0,
               "trusted_base": ["strace 6.1 (ptrace fault injection and syscall log)", "Linux kernel / ext4+tmpfs",
                                "python3 os/stat for the directory snapshot"],
               "xdev_tmpdir": XTMP.startswith("/dev/shm")}
        cov.update({k: v for k, v in stats.items() if k != "evaluations"})
        broken = None
        if stats["scenarios"] == 0:
            broken = "no scenario could be traced"
        elif stats["kill_points_hit"] < 0.9 * stats["kill_points_planned"]:
            broken = "fewer than 90% of the planned kill points were hit (strace counting drifted?)"
        run.finish(cov, assumptions=ASSUMPTIONS, broken=broken)
    finally:
        cleanup_scratch()


if __name__ == "__main__":
    main()
