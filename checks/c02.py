"""C02 — path(f), getpath and updates agree on the positions a filter denotes.

Two oracles over an exhaustive small scope (path expressions composed to depth 2 from an
alphabet of path atoms x all JSON trees up to a node bound x update filters with 0/1/2 outputs
or an error), and random deeper compositions:
 (1) jqref.paths / jqref.update: the two tables of docs/advanced.dj implemented row by row,
     independent of Id::paths / Id::update; `[p]`, `[path(p)]`, `getpath(path(p))`, `p |= u`,
     `p = g`, `p += g`, `p //= g` are compared output by output up to the first error.
 (2) in-language rewrites evaluated by the same binary: every row of the manual's update table
     as an equation (both sides run by jaq), with iter_upd / index_upd / slice_upd taken
     VERBATIM from the manual of the current tree; derived filters (paths, path_value, del,
     delpaths, setpath, keys_unsorted, to_entries, pick) against path(); path/update of
     value-constructing expressions must fail rather than guess."""
import os
import random
import re
import sys

sys.path.insert(0, os.path.dirname(os.path.dirname(os.path.abspath(__file__))))
from jqref import ast as A, interp as I
from jqref.compare import compare, show_ref
from vlib import gen, par, values as V
from vlib.client import WorkerDied, classify_death
from vlib.codec import Obj, S, dec, enc, show
from vlib.run import Distinct, Run, Samples, with_big_stack

ID = A.ID


def P(code):
    """tiny helper: build G from jq text through the real parser once (driver start-up)"""
    raise NotImplementedError


def atoms():
    n = A.num
    idx = lambda t, opt=False: ("path", ID, ((("index", t), opt),))
    rng_ = lambda a, b, opt=False: ("path", ID, ((("range", a, b), opt),))
    return [
        ("id", ID), ("rec", A.REC), ("iter", A.iterate(ID)), ("iter?", A.iterate(ID, True)),
        ("i0", idx(n(0))), ("i-1", idx(("neg", n(1)))), ("i0?", idx(n(0), True)), ("i5", idx(n(5))),
        ("a", A.key(ID, "a")), ("a?", A.key(ID, "a", True)), ("b", A.key(ID, "b")),
        ("s1:", rng_(n(1), None)), ("s:1", rng_(None, n(1))), ("s1:-1?", rng_(n(1), ("neg", n(1)), True)),
        ("i0,1", idx(("comma", n(0), n(1)))), ("k0", idx(n(0))),
        ("first", ("call", "first", (A.iterate(ID, True),))), ("last", ("call", "last", (A.iterate(ID, True),))),
        ("limit1", ("call", "limit", (n(1), A.iterate(ID, True)))), ("skip1", ("call", "skip", (n(1), A.iterate(ID, True)))),
        ("select", ("call", "select", (("cmp", "!=", ID, ("call", "null", ())),))),
        ("recurse1", ("call", "recurse", (A.iterate(ID, True),))),
        ("getpath_a", ("call", "getpath", (("arr", A.string("a")),))),
        ("getpath_0", ("call", "getpath", (("arr", n(0)),))),
        ("empty", ("call", "empty", ())), ("error", ("call", "error", ())),
    ]


# atoms that are documented as unsupported on the left-hand side of updates (must fail)
NO_UPDATE = {"first", "last", "limit1", "skip1"}


def compositions(rng, depth2_all=True):
    """(name, term, uses_no_update_atom)"""
    at = atoms()
    out = [(n, t, n in NO_UPDATE) for n, t in at]
    for (n1, t1) in at:
        for (n2, t2) in at:
            bad = n1 in NO_UPDATE or n2 in NO_UPDATE
            out.append(("%s|%s" % (n1, n2), A.pipe(t1, t2), bad))
            out.append(("%s,%s" % (n1, n2), ("comma", t1, t2), bad))
            if n1 != "error":
                out.append(("%s//%s" % (n1, n2), ("alt", t1, t2), bad))
    isarr = ("cmp", "==", ("call", "type", ()), A.string("array"))
    for (n1, t1) in at:
        bad = n1 in NO_UPDATE
        out.append(("if(%s)" % n1, ("if", ((isarr, t1),), ("call", "empty", ())), bad))
        out.append(("if-else(%s)" % n1, ("if", ((("comma", isarr, ("call", "true", ())), t1),), A.key(ID, "a", True)), bad))
        out.append(("bind(%s)" % n1, A.bind(("comma", A.num(0), A.string("a")), ("pvar", "$i"),
                                            A.pipe(("path", ID, ((("index", A.var("$i")), True),)), t1)), bad))
        out.append(("def(%s)" % n1, ("def", (("f", ("g",), A.pipe(A.call("g"), ("call", "g", ()))),), ("call", "f", (t1,))), bad))
        out.append(("defv(%s)" % n1, ("def", (("f", ("$k", "g"), A.pipe(("path", ID, ((("index", A.var("$k")), True),)), A.call("g"))),),
                                     ("call", "f", (("comma", A.num(0), A.string("b")), t1))), bad))
        out.append(("reduce(%s)" % n1, ("fold", "reduce", ("comma", A.num(0), A.string("a")), ("pvar", "$i"),
                                        (t1, ("path", ID, ((("index", A.var("$i")), True),)))), bad))
        out.append(("foreach(%s)" % n1, ("fold", "foreach", ("comma", A.num(0), A.num(1)), ("pvar", "$i"),
                                         (ID, ("path", ID, ((("index", A.var("$i")), True),)), t1)), bad))
        out.append(("label(%s)" % n1, ("label", "$l", ("comma", t1, ("break", "$l"))), True))   # label: paths yes, updates no
        out.append(("try(%s)" % n1, ("try", t1, None), True))
    return out


UPDATES = [
    ("empty", ("call", "empty", ())), ("id", ID), ("wrap", ("arr", ID)), ("two", ("comma", ID, A.num(1))),
    ("error", ("call", "error", (A.string("u"),))), ("first-empty", ("call", "first", (("call", "empty", ()),))),
    ("plus1", ("try", ("math", "+", ID, A.num(1)), A.string("c"))),
]


def trees(max_nodes):
    return gen.small_trees([None, 0, S("a")], [S("a"), S("b"), 0], max_nodes)


def reference(fn):
    try:
        return fn()
    except (I.Fuel, RecursionError):
        return None
    except V.Unspecified:
        return None
    except I.CompileError as e:
        raise RuntimeError("driver bug: " + str(e))


def ref_main(t, v):
    it = I.Interp(fuel=40000)
    return reference(lambda: it.main(t, v, 400))


def model_task(task):
    """oracle (1): jqref vs jaq for a slice of path expressions over a set of inputs"""
    seed, idx, exprs, max_nodes, sample_n, profile = task
    rng = random.Random(f"c02/{seed}/{idx}")
    c = par.client(profile)
    all_inputs = trees(max_nodes)
    small = trees(3) if max_nodes > 4 else rng.sample(trees(3), 36)
    out = {"viol": [], "inconc": {}, "evals": 0, "nontrivial": 0, "distinct": set(), "samples": [], "skipped": 0,
           "by_kind": {}}

    def inc(d, k, n=1):
        d[k] = d.get(k, 0) + n
    for (name, p, no_upd) in exprs:
        inputs = small + (rng.sample(all_inputs, min(sample_n, len(all_inputs))) if max_nodes > 3 else [])
        programs = [("run", p), ("path", ("call", "path", (p,))),
                    ("getpath", ("call", "getpath", (("call", "path", (p,)),)))]
        for (un, u) in UPDATES:
            programs.append(("upd:" + un, ("update", p, u)))
        programs.append(("assign", ("assign", p, ("comma", A.num(7), A.string("x")))))
        programs.append(("plus=", ("updmath", "+", p, ("comma", A.num(1), ("arr", A.num(2))))))
        programs.append(("alt=", ("updalt", p, ("comma", A.num(7), A.num(8)))))
        for (kind, t) in programs:
            text = A.render(t, "min")
            refs = [ref_main(t, v) for v in inputs]
            keep = [(v, r) for v, r in zip(inputs, refs) if r is not None]
            out["skipped"] += len(inputs) - len(keep)
            if not keep:
                continue
            try:
                resp = c.eval(text, [{"input": enc(v)} for v, _ in keep], take=410, timeout=60)
            except WorkerDied as e:
                inc(out["inconc"], classify_death(e))
                continue
            if "results" not in resp:
                out["viol"].append(("compile:%s:%s" % (kind, name), {"program": text, "response": str(resp)[:400]}))
                continue
            for (v, (outs, end)), res in zip(keep, resp["results"]):
                out["evals"] += 1
                inc(out["by_kind"], kind.split(":")[0])
                why = compare(outs, end, res)
                if kind == "getpath" and why is None and end[0] == "end":
                    pass
                if why is not None:
                    out["viol"].append(("model:%s:%s" % (kind, name), {
                        "program": text, "input": show(v), "why": why, "profile": profile,
                        "expected": [show_ref(o) for o in outs], "expected_end": str(end), "got": str(res)[:600]}))
                if len(outs) >= 1 and (end[0] == "end" or outs):
                    out["nontrivial"] += 1
                    out["distinct"].add("%s:%s:%s" % (kind, name, shape(v)))
            if len(out["samples"]) < 2 and keep and keep[-1][1][0]:
                out["samples"].append({"program": text, "input": show(keep[-1][0]),
                                       "expected": [show_ref(o) for o in keep[-1][1][0]][:5]})
    out["distinct"] = list(out["distinct"])
    return out


def shape(v):
    if isinstance(v, list):
        return "[" + ",".join(shape(x) for x in v) + "]"
    if isinstance(v, Obj):
        return "{" + ",".join(shape(x) for _, x in v.items) + "}"
    return "*"


# -----------------------------------------------------------------------------------------
# oracle (2): the manual's table as in-language equations, both sides evaluated by jaq

def manual_defs():
    """iter_upd / index_upd / slice_upd verbatim from docs/advanced.dj of the current tree"""
    text = open(os.path.join(os.environ.get("VERIF_REPO", "/repo"), "docs", "advanced.dj"), encoding="utf-8").read()
    out = []
    for name in ("iter_upd", "index_upd", "slice_upd"):
        m = re.search(r"^def %s\(.*?\n(?=def eq\()" % name, text, re.S | re.M)
        if not m:
            raise RuntimeError("manual definition of %s not found" % name)
        body = re.sub(r"#[^\n]*", "", m.group(0))
        out.append(body.strip())
    return "\n".join(out) + "\n"


SIDE = "[try ((%s) | {v: .}) catch {e: 1}]"


def eq_prog(defs, lhs, rhs):
    return defs + "(" + SIDE % lhs + ") == (" + SIDE % rhs + ")"


def equations(defs):
    """(id, lhs-template, rhs-template) over placeholders F G U (jq text)"""
    fs = [".[]", ".[]?", ".[0]", ".a", ".a?", ".[1:]", "..", ".", "empty", ".[0,1]", ".b?", "select(. != null)",
          "(.[]? | select(. != 0))", "recurse(.[]?)", "getpath([0])", ".[-1]?"]
    us = ["empty", ".", "[.]", "(., 1)", "error(\"u\")", "(try (. + 1) catch \"c\")", "first(empty)"]
    eqs = []
    for f in fs:
        for g in fs:
            for u in us:
                eqs.append(("pipe", "(%s | %s) |= %s" % (f, g, u), "%s |= (%s |= %s)" % (f, g, u)))
                eqs.append(("comma", "(%s, %s) |= %s" % (f, g, u), "(%s |= %s) | (%s |= %s)" % (f, u, g, u)))
                if "error" not in f:
                    eqs.append(("alt", "(%s // %s) |= %s" % (f, g, u),
                                "if first((%s) // false) then %s |= %s else %s |= %s end" % (f, f, u, g, u)))
                eqs.append(("if", "(if type == \"array\" then %s else %s end) |= %s" % (f, g, u),
                            "if type == \"array\" then %s |= %s else %s |= %s end" % (f, u, g, u)))
    for f in fs:
        for u in us:
            eqs.append(("bind", "((0, \"a\") as $x | .[$x]? | %s) |= %s" % (f, u),
                        "(0 as $x | .[$x]? | %s) |= %s | (\"a\" as $x | .[$x]? | %s) |= %s" % (f, u, f, u)))
            eqs.append(("assign", "%s = (7, \"x\")" % f, "(7, \"x\") as $y | %s |= $y" % f))
            eqs.append(("plus=", "%s += (1, [2])" % f, "(1, [2]) as $y | %s |= (. + $y)" % f))
            eqs.append(("alt=", "%s //= (7, 8)" % f, "(7, 8) as $y | %s |= (. // $y)" % f))
            eqs.append(("getpath-path", "[getpath(path(%s))]" % f, "[%s]" % f))
            eqs.append(("path-positions", "[path(%s)] | length" % f, "[%s] | length" % f))
            eqs.append(("path_value", "[path_value(%s)]" % f, "[path(%s) as $q | [$q, getpath($q)]]" % f))
            eqs.append(("del", "del(%s)" % f, "%s |= empty" % f))
        eqs.append(("rec_up", ".. |= %s" % us[3], "def rec_up: (.[]? | rec_up), .; rec_up |= %s" % us[3]))
    for u in us:
        eqs.append(("empty", "empty |= %s" % u, "."))
        eqs.append(("rec_up", ".. |= %s" % u, "def rec_up: (.[]? | rec_up), .; rec_up |= %s" % u))
        eqs.append(("walk", "walk(%s)" % u, ".. |= %s" % u))
        # The manual's displayed definitions are used on the domain where they say what the
        # prose says (see DESIGN.md section 8): iter_upd with an empty update only on arrays
        # (`with_entries(.value |= empty)` would keep the key with a null value, while the prose
        # says the value at the position is deleted); slice objects with both `start` and `end`;
        # `null` / absent slice bounds mapped as the update table maps them (0 / length).
        deleting = u in ("empty", "first(empty)")
        og = "if isobject then \"not judged\" else %s end" if deleting else "%s"
        eqs.append(("iter_upd", og % (".[] |= %s" % u), og % ("iter_upd(%s; error)" % u)))
        eqs.append(("iter_upd?", og % (".[]? |= %s" % u), og % ("iter_upd(%s; .)" % u)))
        for i in ["0", "1", "-1", "-2", "5", "\"a\"", "\"zz\"", "null", "{start: 1, end: 2}", "{start: 0, end: -1}",
                  "{start: -1, end: 5}", "[0]"]:
            eqs.append(("index_upd", ".[%s] |= %s" % (i, u), "index_upd(%s; %s; error)" % (i, u)))
            eqs.append(("index_upd?", ".[%s]? |= %s" % (i, u), "index_upd(%s; %s; .)" % (i, u)))
        # the displayed slice_upd concatenates .[:$i], u(.[$i:$j]), .[$j:]: it says what the prose
        # says only when the (clipped) start is not behind the end -> (1,-1) needs length >= 2
        LEN = "(try length catch 0)"
        for (i, j, guard) in [("1", "-1", LEN + " >= 2"), ("0", "1", None), ("-1", "5", None), ("null", "1", None),
                              ("1", "null", LEN + " >= 1"), ("-5", "-1", None), ("0", "0", None), ("1", "1", LEN + " >= 1")]:
            mi = "0" if i == "null" else i
            mj = LEN if j == "null" else j
            g = ("if %s then %%s else \"not judged\" end" % guard) if guard else "%s"
            eqs.append(("slice_upd", g % (".[%s:%s] |= %s" % (i, j, u)), g % ("slice_upd(%s; %s; %s; error)" % (mi, mj, u))))
            eqs.append(("slice_upd?", g % (".[%s:%s]? |= %s" % (i, j, u)), g % ("slice_upd(%s; %s; %s; .)" % (mi, mj, u))))
        g = "if " + LEN + " >= 1 then %s else \"not judged\" end"
        eqs.append(("slice_upd", g % (".[1:] |= %s" % u), g % ("slice_upd(1; length; %s; error)" % u)))
        eqs.append(("slice_upd", ".[:1] |= %s" % u, "slice_upd(0; 1; %s; error)" % u))
    eqs += [
        ("paths", "[paths]", "[skip(1; path(..))]"),
        ("paths(p)", "[paths(type == \"number\")]", "[paths as $q | if getpath($q) | type == \"number\" then $q else empty end]"),
        ("keys_unsorted", "keys_unsorted", "[path(.[])[]]"),
        ("to_entries", "to_entries | map(.key)", "keys_unsorted"),
        ("to_entries-v", "to_entries | map(.value)", "[.[]]"),
        ("setpath", "setpath([0]; 9)", "getpath([0]) = 9"),
        ("setpath", "setpath([\"a\", 0]; 9)", "getpath([\"a\", 0]) = 9"),
        ("delpaths", "delpaths([[0], [\"a\"]])", "reduce ([0], [\"a\"]) as $p (.; getpath($p) |= empty)"),
        ("delpaths", "delpaths([path(.[]?)])", "reduce path(.[]?) as $p (.; getpath($p) |= empty)"),
        ("pick", "pick(.a?)", "if type == \"object\" then {a: .a} else pick(.a?) end"),
        ("pick2", "pick(.a?, .b?)", "pick(.a?) * pick(.b?)"),
    ]
    # value-constructing expressions: path() and updates must fail rather than guess
    for c in ["1", "\"a\"", "[.]", "{a: .}", ". + 1", "-.", ". == 1", ". and .", "(. as $x | $x)", "\"\\(.)\"",
              "(.a? = 1)", "tojson", "length", "not", "[.[]?]", "(.[]? | 1)"]:
        guard = "true" if c != "(.[]? | 1)" else "(([.[]?] | length) > 0)"
        eqs.append(("constructs", "if %s then (try (path(%s) | \"no error\") catch \"fails\") else \"fails\" end" % (guard, c), "\"fails\""))
        eqs.append(("constructs", "if %s then (try ((%s) |= 1 | \"no error\") catch \"fails\") else \"fails\" end" % (guard, c), "\"fails\""))
    for c in ["first(.[]?)", "last(.[]?)", "limit(1; .[]?)", "skip(1; .[]?)", "(try .[] catch .)", "(label $l | .[]?)"]:
        # documented as unsupported on the left of updates: must fail when there is something to update
        eqs.append(("unsupported-lhs", "if ([.[]?] | length) > 1 then (try ((%s) |= 1 | \"no error\") catch \"fails\") else \"fails\" end" % c, "\"fails\""))
    return eqs


def eq_task(task):
    seed, idx, eqs, max_nodes, sample_n, profile, defs = task
    rng = random.Random(f"c02eq/{seed}/{idx}")
    c = par.client(profile)
    all_inputs = trees(max_nodes)
    small = trees(3) if max_nodes > 4 else rng.sample(trees(3), 40)
    extra = [[0, [0, S("a")], Obj([(S("a"), [0])])], Obj([(S("a"), Obj([(S("b"), 0)])), (S("b"), [0, 0])]), S("abc"),
             [0, 0, 0, 0], Obj([(0, 0), (S("a"), None)]), True, 1.5]
    out = {"viol": [], "inconc": {}, "evals": 0, "nontrivial": 0, "distinct": set(), "samples": [], "by_kind": {}}

    def inc(d, k, n=1):
        d[k] = d.get(k, 0) + n
    for (kind, lhs, rhs) in eqs:
        inputs = small + extra + (rng.sample(all_inputs, min(sample_n, len(all_inputs))) if max_nodes > 3 else [])
        # one run: [lhs-stream, rhs-stream] so that a failure shows both
        prog = defs + "[" + SIDE % lhs + ", " + SIDE % rhs + "]"
        try:
            resp = c.eval(prog, [{"input": enc(v)} for v in inputs], take=2, timeout=90)
        except WorkerDied as e:
            inc(out["inconc"], classify_death(e))
            continue
        if "results" not in resp:
            out["viol"].append(("compile:%s" % kind, {"program": prog, "response": str(resp)[:400]}))
            continue
        for v, res in zip(inputs, resp["results"]):
            out["evals"] += 1
            inc(out["by_kind"], kind)
            if "panic" in res:
                out["viol"].append(("panic:%s" % res["panic"]["loc"], {"program": prog, "input": show(v), "panic": res["panic"]}))
                continue
            if res["end"][0] != "end" or len(res["outs"]) != 1:
                out["viol"].append(("eq-run:%s" % kind, {"program": prog, "input": show(v), "res": str(res)[:400]}))
                continue
            pair = dec(res["outs"][0][0])
            l, r = pair
            same = len(l) == len(r) and all(V.eq(a, b) if not (V.has_nan(a) or V.has_nan(b)) else show(a) == show(b) for a, b in zip(l, r))
            if not same:
                out["viol"].append(("equation:%s:%s" % (kind, lhs[:40]), {
                    "lhs": lhs, "rhs": rhs, "input": show(v), "lhs_stream": show(l), "rhs_stream": show(r), "profile": profile}))
            if l and not (len(l) == 1 and isinstance(l[0], Obj) and l[0].items and l[0].items[0][0] == S("e")):
                out["nontrivial"] += 1
                out["distinct"].add("%s:%s:%s" % (kind, lhs[:30], shape(v)))
        if len(out["samples"]) < 2:
            out["samples"].append({"equation": lhs + "   ===   " + rhs, "inputs": len(inputs)})
    out["distinct"] = list(out["distinct"])
    return out


def dispatch(task):
    kind, payload = task
    return kind, (model_task(payload) if kind == "model" else eq_task(payload))


def main():
    run = Run("C02")
    rng = run.rng("exprs")
    comps = compositions(rng)
    defs = manual_defs()
    eqs = equations(defs)
    thorough = run.tier == "thorough"
    if thorough:
        max_nodes, sample_n = 5, 400
    else:
        max_nodes, sample_n = 4, 16
        # quick: every single atom and every shape, and a seeded third of the depth-2 products
        comps = [x for i, x in enumerate(comps) if i < 30 or rng.random() < 0.3]
        eqs = [x for x in eqs if x[0] not in ("pipe", "comma", "alt", "if") or rng.random() < 0.25]
    rng.shuffle(comps)
    rng.shuffle(eqs)
    tasks = []
    nchunks = 64 if thorough else 32
    for i in range(nchunks):
        part = comps[i::nchunks]
        if part:
            tasks.append(("model", (run.seed, i, part, max_nodes, sample_n, "verif" if i % 3 else "release")))
        epart = eqs[i::nchunks]
        if epart:
            tasks.append(("eq", (run.seed, i, epart, max_nodes, sample_n, "verif" if i % 3 else "release", defs)))
    evals = nontrivial = skipped = 0
    distinct = Distinct()
    samples = Samples(8, run.rng("s"))
    by_kind = {}
    for kind, out in par.pmap(dispatch, tasks, run.jobs):
        for key, w in out["viol"]:
            run.violation(key, w)
        for k, n in out["inconc"].items():
            run.inconc(k, n)
        evals += out["evals"]
        nontrivial += out["nontrivial"]
        skipped += out.get("skipped", 0)
        for d in out["distinct"]:
            distinct.add(d)
        for s in out["samples"]:
            samples.add(s)
        for k, n in out["by_kind"].items():
            by_kind[kind + ":" + k] = by_kind.get(kind + ":" + k, 0) + n
    run.finish({
        "evaluations": evals, "distinct_nontrivial": len(distinct),
        "rule": "(path expression, measurement, input) triples: expressions composed from %d atoms by | , // if as def reduce "
                "foreach label try; measurements [p], path(p), getpath(path(p)), p |= u for 7 update filters, = += //=; inputs = all "
                "JSON trees up to %d nodes over {null,0,\"a\"} with keys {\"a\",\"b\",0} (all <=3-node trees always, larger ones "
                "sampled in quick / 400 per expression in thorough); distinct = (measurement, expression, input shape); non-trivial = "
                "at least one output" % (len(atoms()), max_nodes),
        "samples": samples.items, "path_expressions": len(comps), "equations": len(eqs),
        "evaluations_by_kind": by_kind, "nontrivial": nontrivial, "reference_skipped": skipped,
        "exhaustive": False, "manual_definitions_used_verbatim": ["iter_upd", "index_upd", "slice_upd"],
    }, assumptions=[
        "jqref.paths / jqref.update implement the two tables of docs/advanced.dj",
        "key order after deleting updates is not compared (objects compare as sets of entries)",
    ])


if __name__ == "__main__":
    with_big_stack(main)
