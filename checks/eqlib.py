"""Shared driver for equation / invariant tables (C11, C12): every obligation is a jq program
that computes a JSON object of *measurements* by the real interpreter (each measurement a
stream captured with its first error: S(x) = [try (x | {v: .}) catch {e: .}]), plus a Python
predicate over the decoded measurements. Equations of the manual have both sides computed by
the same binary; relational invariants are recomputed in Python on the typed results."""
import random

from vlib import par, values as V
from vlib.client import WorkerDied, classify_death
from vlib.codec import Obj, S, Str, dec, enc, show


def SS(x):
    return "[try ((%s) | {v: .}) catch {e: .}]" % x


def measure_prog(defs, measurements):
    """{name: S(expr), ...} as one object; evaluation order = insertion order"""
    body = ", ".join("%s: %s" % (json_key(k), SS(e)) for k, e in measurements)
    return defs + "{" + body + "}"


def json_key(k):
    return '"%s"' % k


def stream_of(m):
    """decoded S(...) -> (list of values, error payload or NOERR)"""
    vals = []
    err = NOERR
    for e in m:
        if isinstance(e, Obj) and e.items and e.items[0][0] == S("v"):
            vals.append(e.items[0][1])
        elif isinstance(e, Obj) and e.items and e.items[0][0] == S("e"):
            err = e.items[0][1]
    return vals, err


class _NoErr:
    def __repr__(self):
        return "NOERR"


NOERR = _NoErr()


def same_value(a, b):
    """structural identity up to number representation (1 vs 1.0 are told apart by kind;
    NaN equals NaN; -0.0 vs 0.0 told apart)"""
    ka, kb = V.kind(a), V.kind(b)
    if ka != kb:
        return False
    if ka == "number":
        if V.is_int(a) != V.is_int(b):
            return False
        if V.is_int(a):
            return V.ival(a) == V.ival(b)
        fa, fb = V.to_float(a), V.to_float(b)
        if fa != fa or fb != fb:
            return fa != fa and fb != fb
        return fa == fb
    if ka == "string":
        return a.b == b.b and a.text == b.text
    if ka == "array":
        return len(a) == len(b) and all(same_value(x, y) for x, y in zip(a, b))
    if ka == "object":
        return len(a.items) == len(b.items) and all(same_value(k1, k2) and same_value(v1, v2)
                                                    for (k1, v1), (k2, v2) in zip(a.items, b.items))
    return a == b


def same_stream(m1, m2, payload=True):
    v1, e1 = stream_of(m1)
    v2, e2 = stream_of(m2)
    if len(v1) != len(v2) or not all(same_value(a, b) for a, b in zip(v1, v2)):
        return False
    if (e1 is NOERR) != (e2 is NOERR):
        return False
    if payload and e1 is not NOERR and not same_value(e1, e2):
        return False
    return True


def show_stream(m):
    v, e = stream_of(m)
    s = "[" + ", ".join(show(x, 80) for x in v) + "]"
    if e is not NOERR:
        s += " then error " + show(e, 80)
    return s


def run_obligation(c, prog, inputs, vars_=(), timeout=90):
    """returns list of (input, measurements dict | None, raw)"""
    resp = c.eval(prog, [{"input": enc(v)} for v in inputs], vars=vars_, take=2, timeout=timeout)
    if "results" not in resp:
        return None, resp
    out = []
    for v, res in zip(inputs, resp["results"]):
        if "panic" in res:
            out.append((v, None, res))
            continue
        if res["end"][0] != "end" or len(res["outs"]) != 1:
            out.append((v, None, res))
            continue
        o = dec(res["outs"][0][0])
        out.append((v, {k.b.decode(): x for k, x in o.items}, res))
    return out, resp
