"""C05 — no filter text, argument value or input document can crash jaq.

Panic monitor. jaqmon (profile `verif` = release + debug-assertions + overflow-checks) runs every
case under catch_unwind with a panic hook; a panic, a compiler panic, a diagnostic whose span
leaves the filter text, or a worker/CLI death that is not resource exhaustion refutes the property.
Workloads, all enumerated from the current tree (op `natives`, the manual's examples, the prelude):
  1 filter texts (grammar-aware mutations + token soup): lex/parse/compile/report rendering, and
    execution of the ones that compile;
  2 every native / prelude definition / operator form x boundary tuples (exhaustive for <= 1
    argument slot over the pool, stratified + domain products + random above);
  3 documents per format (mutations of valid documents) through the readers and `from*`;
  4 writers (`to*`, op fmt write) on arbitrary values;
  + slices of all of them in profile `release` and at the real CLI (exit 101 / SIGABRT).
Every panic is re-run in a fresh worker before it is recorded."""
import collections
import hashlib
import itertools
import json
import os
import random
import sys
import time

sys.path.insert(0, os.path.dirname(os.path.dirname(os.path.abspath(__file__))))
from vlib import build, gen, par
from vlib import c05_docs as D
from vlib import c05_filters as F
from vlib import c05_mon as M
from vlib import c05_nat as N
from vlib import c05_pool as P
from vlib.client import WorkerDied, classify_death
from vlib.codec import Big, Dec, Obj, S, Str, enc, show
from vlib.run import Distinct, Run, Samples

EXEMPT_DEATHS = {"timeout", "stack-exhaustion", "memory-exhaustion", "killed"}
FROM_FILTER = {"json": "fromjson", "yaml": "fromyaml", "cbor": "fromcbor", "toml": "fromtoml", "xml": "fromxml", "csv": "fromcsv", "tsv": "fromtsv"}
WRITE_PROGS = ["tojson", "tostring", "@json", "@text", "tocbor", "toyaml", "totoml", "toxml", "tocsv", "totsv", "@csv", "@tsv", "@sh", "@html", "@uri", "@base64",
               "tocbor | fromcbor", "toyaml | fromyaml", "[.] | tocsv", "[.] | @tsv", "[.[]?] | @sh", ".[]? | toxml", "{a: .} | totoml", "tojson | fromjson | tojson",
               "@html \"\\(.)\"", "tobytes? | tojson", "toyaml | tobytes | fromyaml", "[., .] | toyaml", "{(tojson): .} | toyaml | fromyaml"]
FILT_INPUTS = [None, 1, S("a\u00e9"), [1, [2]], Obj([(S("a"), [1, 2]), (S("b"), S("x"))])]

_G = {}


def G(repo_needed=False):
    """per-process cache: pool, wires, programs"""
    if "pool" not in _G:
        pool = P.build_pool()
        _G["pool"] = pool
        _G["vals"] = [v for _c, v in pool]
        _G["wires"] = [enc(v) for _c, v in pool]
        _G["jwires"] = [json.dumps(w) for w in _G["wires"]]
        cats = sorted({c for c, _v in pool})
        _G["catnames"] = cats
        _G["catidx"] = [cats.index(c) for c, _v in pool]
        kinds = ["null", "bool", "num", "str", "bytes", "arr", "obj"]

        def kind(v):
            if v is None:
                return 0
            if isinstance(v, bool):
                return 1
            if isinstance(v, (int, float, Dec, Big)):
                return 2
            if isinstance(v, Str):
                return 3 if v.text else 4
            return 5 if isinstance(v, list) else 6
        _G["kindnames"] = kinds
        _G["kindidx"] = [kind(v) for _c, v in pool]
    return _G


def mon(profile, mem_gb=4, stack_mb=512):
    key = ("mon", profile, mem_gb, stack_mb)
    m = _G.get(key)
    if m is None:
        m = M.Mon(profile, mem_gb=mem_gb, stack_mb=stack_mb)
        _G[key] = m
    return m


class Acc:
    """what a task reports back"""

    def __init__(self, workload):
        self.workload = workload
        self.cases = 0
        self.codes = collections.Counter()
        self.viol = []          # (key, witness)
        self.inconc = collections.Counter()
        self.exempt = collections.Counter()
        self.distinct = set()
        self.samples = []
        self.notes = []
        self.covered = set()
        self.seen_keys = {}     # key -> count
        self.broken = []
        self.extra = collections.Counter()
        self.slow = []
        self.cli_candidates = []

    def pack(self):
        return {"workload": self.workload, "cases": self.cases, "codes": dict(self.codes), "viol": self.viol, "inconc": dict(self.inconc),
                "exempt": dict(self.exempt), "distinct": list(self.distinct), "samples": self.samples[:3], "notes": self.notes[:20],
                "covered": list(self.covered), "seen_keys": self.seen_keys, "broken": self.broken[:5], "extra": dict(self.extra), "slow": self.slow[:5],
                "cli_candidates": self.cli_candidates[:40]}

    # -- verdict helpers ------------------------------------------------------------------------
    def panic(self, msg, loc, case, what):
        """a panic was observed for `case` (a run_single description)"""
        if M.is_harness_loc(loc):
            self.broken.append(f"panic inside the harness at {loc}: {msg}")
            return
        if M.is_exempt_panic(msg):
            self.exempt["panic:" + M.msg_class(msg)] += 1
            return
        key = M.panic_key(msg, loc, case)
        self.seen_keys[key] = self.seen_keys.get(key, 0) + 1
        if self.seen_keys[key] > 1:
            return
        confirm(self, key, case, what, msg, loc)

    def span(self, info, case, what):
        key = M.span_key(info)
        self.seen_keys[key] = self.seen_keys.get(key, 0) + 1
        if self.seen_keys[key] > 1:
            return
        o = M.run_single(case)
        if o[0] == "span":
            self.viol.append((key, {"what": what, "case": case, "observed": o[1], "reproduced_in_fresh_worker": True}))
        else:
            self.inconc["unreproducible-span"] += 1

    def death(self, cls, detail, case, what):
        if cls in EXEMPT_DEATHS:
            self.inconc[cls] += 1
            return
        # a worker that died for another reason (abort inside a destructor, double panic, ...)
        first = (detail.split("stderr=")[-1].strip().split("\n") or ["?"])[0]
        key = "death:" + M.msg_class(first)[:60]
        self.seen_keys[key] = self.seen_keys.get(key, 0) + 1
        if self.seen_keys[key] > 1:
            return
        o = M.run_single(case)
        if o[0] == "death" and o[1] not in EXEMPT_DEATHS:
            self.viol.append((key, {"what": what, "case": case, "death": o[1], "detail": o[2], "reproduced_in_fresh_worker": True}))
        elif o[0] == "panic":
            self.panic(o[1], o[2], case, what)
        else:
            self.inconc["unreproducible-death"] += 1


def confirm(acc, key, case, what, msg, loc):
    o = M.run_single(case)
    if o[0] == "panic" and M.panic_key(o[1], o[2], case) == key:
        acc.viol.append((key, {"what": what, "case": case, "panic": {"msg": msg[:400], "loc": M.canon_loc(loc)}, "reproduced_in_fresh_worker": True}))
    elif o[0] == "panic" and not M.is_exempt_panic(o[1]):
        k2 = M.panic_key(o[1], o[2], case)
        acc.viol.append((k2, {"what": what, "case": case, "panic": {"msg": o[1][:400], "loc": M.canon_loc(o[2])}, "first_seen_as": key,
                              "reproduced_in_fresh_worker": True}))
    else:
        acc.inconc["unreproducible-panic"] += 1
        acc.notes.append(f"panic {key} did not reproduce in a fresh worker: {o[:2]}")
        acc.seen_keys[key] = 0


def judge_evalc(acc, r, prog, inputs, profile, what, take, stream=(), mem=(4, 512), vars=()):
    """account an evalc result; `inputs` are the wire inputs"""
    base = {"k": "evalc", "profile": profile, "prog": prog, "take": take, "stream": list(stream), "mem_gb": mem[0], "stack_mb": mem[1]}
    if vars:
        base["vars"] = [list(v) for v in vars]
    st = r["status"]
    if st == "compile_panic":
        acc.panic(r["panic"][0], r["panic"][1], base, what + " (compile)")
        return st
    if st == "compile_death":
        acc.death(r["death"][0], r["death"][1], base, what + " (compile)")
        return st
    if st == "compile_error":
        rep = r["report"]
        if rep.get("spans_ok") is False:
            acc.span({"spans": rep.get("spans"), "code_len": rep.get("code_len"), "report": (rep.get("report") or "")[:600]}, base, what)
        return st
    if st != "ok":
        acc.broken.append(f"harness error: {str(r.get('report'))[:200]}")
        return st
    for ch in r["codes"]:
        acc.codes[ch or "?"] += 1
    get = inputs if callable(inputs) else (lambda j: inputs[j])
    for idx, (msg, loc) in r["panics"].items():
        acc.panic(msg, loc, dict(base, input=get(idx)), what)
    for idx, (cls, detail) in r["deaths"].items():
        acc.death(cls, detail, dict(base, input=get(idx)), what)
    return st


# ---------------------------------------------------------------------------------------------
# workload 2: natives x tuples

def nat_programs():
    c = mon("verif")
    r = c.request({"op": "natives"})
    return N.progs_for(r["natives"], r["defs"]), r


def task_nat(t):
    _k, profile, label, body, slots, lists, rand_n, seed, timeout = t
    g = G()
    if "progs" not in g:
        g["progs"] = {p.label: p for p in nat_programs()[0]}
    p = g["progs"].get(label)
    acc = Acc("natives")
    if p is None:
        acc.notes.append(f"program {label} vanished")
        return acc.pack()
    vals, wires = g["vals"], g["wires"]
    tuples = []
    if lists:
        tuples = itertools.product(*lists)
    if rand_n:
        rng = random.Random(f"c05/{seed}/nat-rand/{label}")
        ok = [i for i, (c, _v) in enumerate(g["pool"]) if c != "slow"]
        tuples = itertools.chain(tuples, (tuple(rng.choice(ok) for _ in range(slots + 1)) for _ in range(rand_n)))
    tame = p.tame
    jw = g["jwires"]
    if tame is not None:
        n0 = 0
        idxs = []
        for tp in tuples:
            n0 += 1
            if tame([vals[i] for i in tp]):
                idxs.append(tp)
        acc.extra["tamed"] += n0 - len(idxs)
    else:
        idxs = list(tuples)
    if not idxs:
        return acc.pack()
    cases = [str(list(tp)) for tp in idxs]       # index tuples into the pool, which is sent once per request
    prog = p.text()
    c = mon(profile)
    max_s = 60 + len(cases) / 500.0
    t0 = time.time()
    r = c.evalc(prog, cases, take=4, stream=[None, {"i": "1"}], chunk=64, timeout=timeout, death_budget=6, max_seconds=max_s, raw=True, pool=wires)
    dt = time.time() - t0
    wire_of = lambda j: [wires[i] for i in idxs[j]]
    st = judge_evalc(acc, r, prog, wire_of, profile, f"native {label}: {prog}", 4, stream=[None, {"i": "1"}])
    if st == "compile_error":
        acc.notes.append(f"program for {label} does not compile: {prog}: {(r['report'].get('report') or '')[:120]}")
        return acc.pack()
    acc.cases += len(cases)
    nskip = acc.codes.get("S", 0)
    if nskip:
        acc.inconc["skipped-after-time-guard" if r.get("time_guard") else "skipped-after-death-budget"] += nskip
        acc.notes.append(f"{label}: {nskip} of {len(cases)} cases not run ({'time guard' if r.get('time_guard') else 'death budget'})")
    if any(ch in "ecxh" for ch in r["codes"] if ch):
        acc.covered.add(f"{p.name}/{p.arity}" if p.kind != "op" else p.label)
    ci = g["catidx"]
    cn = g["catnames"]
    if p.slots >= 2:      # coarse value kinds for products of three and more values
        ci, cn = g["kindidx"], g["kindnames"]
    classes = {(tuple([ci[i] for i in tp]), ch) for tp, ch in zip(idxs, r["codes"])}
    for cs, ch in classes:
        acc.distinct.add(f"n:{label}:{'/'.join(cn[k] for k in cs)}:{ch}")
    if dt > 8:
        acc.slow.append((label, round(dt, 1), len(cases)))
    # a few finished cases as candidates for the CLI slice
    rng2 = random.Random(f"c05/{seed}/cli-cand/{label}/{len(cases)}")
    for _ in range(3):
        j = rng2.randrange(len(cases))
        if r["codes"][j] in ("e", "c", "x"):
            acc.cli_candidates.append((prog, wire_of(j)))
    j = rng2.randrange(len(cases))
    acc.samples.append({"workload": "natives", "program": prog, "tuple": [show(vals[i], 60) for i in idxs[j]], "outcome": r["codes"][j]})
    return acc.pack()


def nat_tasks(progs, run, pool):
    """the tuple plan per program, cut into tasks of bounded size"""
    quick = run.tier == "quick"
    rng = run.rng("nat-plan")
    allidx = [i for i, (c, _v) in enumerate(pool) if c != "slow"]
    p1 = N.thin(pool, 8, rng) if quick else allidx          # primary programs, one slot
    v1 = N.thin(pool, 4, rng) if quick else N.thin(pool, 8, rng)   # filter-argument variants, one slot
    p2 = N.thin(pool, 2, rng) if quick else N.thin(pool, 4, rng)
    v2 = N.thin(pool, 1, rng) if quick else N.thin(pool, 2, rng)
    t1 = N.thin(pool, 1, rng)
    p3 = sorted(rng.sample(t1, 20)) if quick else t1
    scale = 1.0 if quick else 2.0
    rand_n = run.size(6000, 400000)
    prod_cap = run.size(40000, 1500000)
    cap = 60000
    tasks = []
    sizes = collections.Counter()

    def add(p, lists, rn=0, timeout=8.0, limit=None):
        if lists:
            lists = [list(l) for l in lists]
            limit = limit or prod_cap
            while True:
                tot = 1
                for l in lists:
                    tot *= len(l)
                if tot <= limit:
                    break
                k = max(range(len(lists)), key=lambda i: len(lists[i]))
                lists[k] = sorted(rng.sample(lists[k], max(1, int(len(lists[k]) * 0.85))))
            rest = 1
            for l in lists[1:]:
                rest *= len(l)
            per = max(1, cap // max(1, rest))
            ins = lists[0]
            for a in range(0, len(ins), per):
                sub = [ins[a:a + per]] + lists[1:]
                tasks.append(("nat", "verif", p.label, p.body, p.slots, sub, 0, run.seed, timeout))
                sizes[p.slots] += len(sub[0]) * rest
        if rn:
            for a in range(0, rn, cap):
                tasks.append(("nat", "verif", p.label, p.body, p.slots, None, min(cap, rn - a), f"{run.seed}/{a}", timeout))
                sizes[p.slots] += min(cap, rn - a)

    for p in progs:
        k = p.slots
        primary = set(p.funsig.split(",")) <= {"$", ""}
        sl = N.domain_slots(p, pool, rng, scale, slow_only=True)
        if sl and primary:
            add(p, sl, timeout=20.0)
        if k == 0:
            add(p, [allidx])
        elif k == 1:
            add(p, [p1, p1] if primary else [v1, v1])
        elif k == 2:
            add(p, [p2, p2, p2] if primary else [v2, v2, v2])
            dom = N.domain_slots(p, pool, rng, scale)
            if dom:
                add(p, dom)
            add(p, None, rand_n if primary else rand_n // 4)
        else:
            add(p, [p3] * (k + 1))
            dom = N.domain_slots(p, pool, rng, scale)
            if dom:
                add(p, dom)
            add(p, None, rand_n)
    return tasks, sizes


# ---------------------------------------------------------------------------------------------
# workload 1: filter texts

def task_filt(t):
    _k, profile, idx, n, seed, do_parse, nfilt = t
    g = G()
    if "seeds" not in g:
        g["seeds"] = F.doc_seeds(build.REPO)
    seeds = g["seeds"]
    rng = random.Random(f"c05/{seed}/filt/{idx}")
    acc = Acc("filters")
    mem = (1, 256)
    c = mon(profile, *mem)
    inputs = [enc(v) for v in FILT_INPUTS]
    for j in range(n):
        if idx + j * nfilt < len(seeds):
            op, text = "seed", seeds[idx + j * nfilt]     # the unmutated seeds, spread over the tasks
        else:
            op, text = F.mutate(rng, seeds)
        if len(text) > 20000:
            text = text[:20000]
        acc.cases += 1
        if do_parse:
            for kind in ("term", "defs"):
                req = {"op": "parse", "code": text, "kind": kind}
                try:
                    r = c.request(req, 15)
                except WorkerDied as e:
                    acc.death(classify_death(e), e.detail, {"k": "req", "profile": profile, "req": req, "mem_gb": 1, "stack_mb": 256}, f"parse ({kind}) of a mutated filter [{op}]")
                    continue
                o = M.outcome_of_response(r)
                if o[0] == "panic":
                    acc.panic(o[1], o[2], {"k": "req", "profile": profile, "req": req, "mem_gb": 1, "stack_mb": 256}, f"parse ({kind}) of a mutated filter [{op}]")
                acc.extra["parse:" + ("ok" if "term" in r or "defs" in r else "lex" if "lex_errors" in r else "parse" if "parse_errors" in r else "other")] += 1
        r = c.evalc(text, inputs, take=4, stream=[{"i": "1"}, {"i": "2"}], chunk=1, timeout=3.0, stop_on_death=True)
        st = judge_evalc(acc, r, text, inputs, profile, f"mutated filter [{op}]", 4, stream=[{"i": "1"}, {"i": "2"}], mem=mem)
        acc.extra["filter:" + st] += 1
        if st == "compile_error":
            rep = r["report"]
            first = (rep.get("report") or "").split("\n")[0]
            acc.distinct.add(f"f:{op}:err:{M.msg_class(first)}:{len(rep.get('spans') or [])}")
            acc.extra["spans_checked"] += len(rep.get("spans") or [])
        elif st == "ok":
            nskip = sum(1 for ch in r["codes"] if ch == "S")
            if nskip:
                acc.inconc["skipped-after-death"] += nskip
            acc.distinct.add(f"f:{op}:run:{''.join(sorted(set(x or '?' for x in r['codes'])))}:{hashlib.md5(' '.join(F.lex(text)[:6]).encode()).hexdigest()[:6]}")
        if j % 997 == 3:
            acc.samples.append({"workload": "filters", "op": op, "text": text[:160], "outcome": st if st != "ok" else "".join(x or "?" for x in r["codes"])})
    return acc.pack()


# ---------------------------------------------------------------------------------------------
# workload 3: documents

def written_seeds(c, fmt, rng, n):
    """valid documents produced by the real writer from generated values"""
    out = []
    for _ in range(n):
        v = gen.rand_json_like(rng, 4) if rng.random() < 0.6 else gen.rand_value(rng, 3)
        if fmt in ("csv", "tsv"):
            v = [rng.choice([1, 1.5, S("a"), S("b,c"), S("x\ty"), S("q\"r"), S("l\nm"), None, True, S("")]) for _ in range(rng.randrange(1, 5))]
        elif fmt == "toml" and not isinstance(v, Obj):
            v = Obj([(S("k"), v)])
        elif fmt == "xml":
            v = Obj([(S("t"), S("r")), (S("a"), Obj([(S("x"), S("1"))])), (S("c"), [S("t"), Obj([(S("t"), S("e"))]), Obj([(S("cdata"), S("d"))]), Obj([(S("comment"), S("c"))])])])
        try:
            r = c.request({"op": "fmt", "dir": "write", "format": fmt, "val": enc(v), "indent": rng.choice([None, "  ", "\t"]), "sort_keys": rng.random() < 0.3,
                           "sep_space": rng.random() < 0.5}, 15)
        except WorkerDied:
            continue
        if "bytes" in r:
            b = bytes.fromhex(r["bytes"])
            if fmt in ("csv", "tsv"):
                b = b * rng.randrange(1, 4)
            out.append(b[:4000])
    return out


def task_doc(t):
    _k, profile, fmt, idx, n, seed = t
    g = G()
    if "docseeds" not in g:
        g["docseeds"] = D.hand_seeds(build.REPO)
    rng = random.Random(f"c05/{seed}/doc/{fmt}/{idx}")
    acc = Acc("documents")
    c = mon(profile)
    seeds = list(g["docseeds"][fmt])
    if fmt not in ("raw", "raw0"):
        w = written_seeds(c, fmt, rng, 12)
        acc.extra["seeds_from_writer:" + fmt] += len(w)
        seeds += w
    docs = []
    for j in range(n):
        if idx == 0 and j < len(seeds):
            op, b = "seed", seeds[j]
        else:
            op, b = D.mutate_doc(rng, fmt, seeds)
        docs.append((op, b))
    for op, b in docs:
        hx = b.hex()
        for via_read, slurp in ((False, False), (True, False), (False, True), (True, True)):
            if (via_read or slurp) and rng.random() < 0.5:
                continue
            req = {"op": "fmt", "dir": "read", "format": fmt, "bytes": hx, "slurp": slurp, "via_read": via_read, "limit": 2000}
            case = {"k": "req", "profile": profile, "req": req}
            acc.cases += 1
            try:
                r = c.request(req, 10)
            except WorkerDied as e:
                acc.death(classify_death(e), e.detail, case, f"{fmt} reader (via_read={via_read}, slurp={slurp}) on a mutated document [{op}]")
                continue
            o = M.outcome_of_response(r)
            if o[0] == "panic":
                acc.panic(o[1], o[2], case, f"{fmt} reader (via_read={via_read}, slurp={slurp}) on a mutated document [{op}]")
                outcome = "panic"
            elif "harness_error" in r:
                acc.broken.append(str(r)[:200])
                outcome = "harness"
            else:
                outcome = ("err" if r.get("error") else "ok") + ":" + str(min(len(r.get("vals") or []), 3))
            acc.codes["doc:" + outcome.split(":")[0]] += 1
            acc.distinct.add(f"d:{fmt}:{op}:{int(via_read)}{int(slurp)}:{outcome}")
        acc.covered.add("read:" + fmt)
    if fmt in FROM_FILTER:
        for prog, mk in ((FROM_FILTER[fmt], lambda b: {"s": b.hex()}), (FROM_FILTER[fmt] + " | tojson", lambda b: {"b": b.hex()})):
            if fmt != "cbor" and "tojson" in prog and rng.random() < 0.5:
                continue
            inputs = [mk(b) for _op, b in docs]
            r = c.evalc(prog, inputs, take=8, chunk=32, timeout=6.0, death_budget=10)
            judge_evalc(acc, r, prog, inputs, profile, f"`{prog}` on a mutated {fmt} document", 8)
            acc.cases += len(inputs)
            acc.covered.add(FROM_FILTER[fmt] + "/0")
    if docs:
        op, b = docs[rng.randrange(len(docs))]
        acc.samples.append({"workload": "documents", "format": fmt, "op": op, "bytes": b[:80].hex()})
    return acc.pack()


# ---------------------------------------------------------------------------------------------
# workload 4: writers

def shaped_values(rng, pool_vals, n):
    shapes = P.xml_shaped() + P.toml_shaped() + P.sh_shaped() + P.structured()[:60] + P.time_arrays()[:10]

    def subst(v, depth=0):
        r = rng.random()
        if r < 0.12:
            return rng.choice(pool_vals)
        if r < 0.18 and depth < 3:
            return subst(rng.choice(shapes), depth + 1)
        if isinstance(v, list):
            return [subst(x, depth + 1) for x in v]
        if isinstance(v, Obj):
            items = []
            for k, x in v.items:
                if rng.random() < 0.06:
                    k = rng.choice(pool_vals)
                    if isinstance(k, float) and k != k:
                        k = S("nan")
                items.append((k, subst(x, depth + 1)))
            seen = set()
            out = []
            from vlib.codec import freeze
            for k, x in items:
                f = freeze(k)
                if f in seen:
                    continue
                seen.add(f)
                out.append((k, x))
            return Obj(out)
        return v
    out = []
    for _ in range(n):
        r = rng.random()
        if r < 0.45:
            out.append(subst(rng.choice(shapes)))
        elif r < 0.8:
            out.append(gen.rand_value(rng, 4, pool=pool_vals))
        else:
            out.append(gen.rand_json_like(rng, 4))
    return out


def task_wr(t):
    _k, profile, idx, n, seed = t
    g = G()
    rng = random.Random(f"c05/{seed}/wr/{idx}")
    acc = Acc("writers")
    c = mon(profile)
    scalars = [v for cat, v in g["pool"] if cat not in ("struct", "json", "yaml", "xml", "toml") or rng.random() < 0.2]
    vals = shaped_values(rng, scalars, n)
    wires = [enc(v) for v in vals]
    for prog in WRITE_PROGS:
        r = c.evalc(prog, wires, take=4, chunk=32, timeout=6.0, death_budget=10)
        st = judge_evalc(acc, r, prog, wires, profile, f"writer filter `{prog}`", 4)
        if st == "ok":
            acc.cases += len(wires)
            acc.covered.add(prog.split(" ")[0] + "/0")
            for ch in set(r["codes"]):
                acc.distinct.add(f"w:{prog}:{ch}")
        else:
            acc.notes.append(f"writer program {prog}: {st}")
    for v, w in zip(vals, wires):
        for fmt in D.FORMATS:
            if rng.random() < 0.5:
                continue
            req = {"op": "fmt", "dir": "write", "format": fmt, "val": w, "indent": rng.choice([None, "  ", "\t", "", "é"]), "sort_keys": rng.random() < 0.4,
                   "sep_space": rng.random() < 0.5, "join": rng.random() < 0.3, "color": rng.random() < 0.3}
            case = {"k": "req", "profile": profile, "req": req}
            acc.cases += 1
            try:
                r = c.request(req, 10)
            except WorkerDied as e:
                acc.death(classify_death(e), e.detail, case, f"{fmt} writer on a generated value")
                continue
            o = M.outcome_of_response(r)
            if o[0] == "panic":
                acc.panic(o[1], o[2], case, f"{fmt} writer on a generated value")
            oc = "panic" if o[0] == "panic" else "err" if "error" in r else "ok"
            acc.codes["write:" + oc] += 1
            acc.distinct.add(f"w:fmt:{fmt}:{oc}:{type(v).__name__}")
            acc.covered.add("write:" + fmt)
    if vals:
        acc.samples.append({"workload": "writers", "value": show(vals[0], 120)})
    return acc.pack()


# ---------------------------------------------------------------------------------------------
# sort stress: the order on numbers is handed to std's sorts, which panic when they notice that a
# comparison is not a total order; noticing depends on the permutation, so many random arrays are tried

SORT_PROGS = ["sort", "sort_by(.)", "sort_by(.[0])", "group_by(.)", "unique", "unique_by(.)", "min_by(.), max_by(.)", "[.[] | [.]] | sort", "sort_by(-.)?",
              "[.[] | {a: .}] | sort_by(.a)", "[.[] | {a: .}] | sort", ". - [.[0]] | length", "[.[] | tojson] | sort | length", "sort | bsearch(.[0])",
              "to_entries | sort_by(.value) | length", "[.[] | {(tojson): 1}] | add | keys | length", "sort_by(., 1)", "group_by(. , .) | length"]


def task_sort(t):
    _k, profile, idx, n, seed = t
    rng = random.Random(f"c05/{seed}/sort/{idx}")
    acc = Acc("sort-stress")
    c = mon(profile)
    nan = float("nan")
    families = [
        [2 ** 53, 2 ** 53 + 1, float(2 ** 53), 2 ** 53 + 2, 2 ** 53 - 1, Dec("9007199254740993.0"), Dec("9007199254740992.5"), Big(2 ** 53), float(2 ** 53) + 2],
        [2 ** 63, float(2 ** 63), 2 ** 63 - 1, 2 ** 63 + 1, 2 ** 64, float(2 ** 64), Dec("1e19"), 2 ** 63 - 2, -(2 ** 63), -float(2 ** 63), -(2 ** 63) - 1],
        [nan, 1, 2, 0.5, -1, float("inf"), float("-inf"), Dec("1.0"), 1.0],
        [nan, None, True, S("a"), Str(b"a", False), [nan], 1, 1.0, Dec("1.00"), Obj([(S("a"), nan)]), Obj([(nan, 1)])],
        [0, -0.0, 0.0, Dec("-0.0"), Dec("0e0"), Big(0), 5e-324, -5e-324],
        [Dec("1e1000"), Dec("-1e1000"), float("inf"), 2 ** 1030, -(2 ** 1030), 1.7976931348623157e308, Dec("1.8e308"), 2 ** 1024, Big(2 ** 1023)],
        [10 ** 17, 10 ** 17 + 1, 1e17, Dec("100000000000000001.0"), 10 ** 17 - 1, float(10 ** 17 + 16)],
    ]
    arrays = []
    for _ in range(n):
        fam = rng.choice(families)
        if rng.random() < 0.3:
            fam = fam + rng.choice(families)
        arrays.append([rng.choice(fam) for _ in range(rng.choice([8, 21, 22, 33, 50, 64, 65, 100, 130, 200, 300]))])
    wires = [enc(a) for a in arrays]
    for prog in SORT_PROGS:
        r = c.evalc(prog, wires, take=4, chunk=32, timeout=8.0, death_budget=6)
        st = judge_evalc(acc, r, prog, wires, profile, f"sort stress `{prog}`", 4)
        if st == "ok":
            acc.cases += len(wires)
            for ch in set(r["codes"]):
                acc.distinct.add(f"s:{prog}:{ch}")
        else:
            acc.notes.append(f"sort program {prog}: {st}")
    acc.samples.append({"workload": "sort-stress", "program": SORT_PROGS[idx % len(SORT_PROGS)], "array": show(arrays[0], 200)})
    return acc.pack()


# ---------------------------------------------------------------------------------------------
# CLI slice

def task_cli(t):
    _k, sub, idx, n, seed, payload = t
    g = G()
    rng = random.Random(f"c05/{seed}/cli/{sub}/{idx}")
    acc = Acc("cli")
    cases = []
    if sub == "filt":
        if "seeds" not in g:
            g["seeds"] = F.doc_seeds(build.REPO)
        for _ in range(n):
            op, text = F.mutate(rng, g["seeds"])
            text = text[:5000]
            b = text.encode("utf-8")
            r = rng.random()
            if r < 0.1:
                b = b[:rng.randrange(len(b) + 1)] + rng.choice([b"\xff", b"\xc3", b"\xed\xa0\x80", b"\x00"]) + b[rng.randrange(len(b) + 1):]
            if r < 0.6 or b"\x00" in b or text.startswith("-") or not text:
                cases.append((f"filter file [{op}]", {"k": "cli", "args": ["-n", "-f", "@F:prog.jq"], "files": {"prog.jq": b.hex()}}))
            else:
                cases.append((f"filter argument [{op}]", {"k": "cli", "args": ["-n", text]}))
    elif sub == "doc":
        if "docseeds" not in g:
            g["docseeds"] = D.hand_seeds(build.REPO)
        for _ in range(n):
            fmt = rng.choice([f for f in D.FORMATS if f not in ("raw0",)])
            op, b = D.mutate_doc(rng, fmt, g["docseeds"][fmt])
            args = ["--from", fmt] + (["-s"] if rng.random() < 0.3 else []) + (["--to", rng.choice(D.FORMATS[:7])] if rng.random() < 0.4 else []) + [".", "@F:doc"]
            cases.append((f"{fmt} document [{op}]", {"k": "cli", "args": args, "files": {"doc": b.hex()}}))
    elif sub in ("nat", "wr"):
        c = mon("verif")
        for prog, wire in payload:
            try:
                r = c.request({"op": "fmt", "dir": "write", "format": "json", "val": wire}, 10)
            except WorkerDied:
                continue
            if "bytes" not in r:
                continue
            if sub == "nat":
                cases.append((f"native at the CLI: {prog}", {"k": "cli", "args": ["-c", "limit(4; " + prog + ")"], "stdin_hex": r["bytes"]}))
            else:
                fmt = rng.choice(D.FORMATS[:7])
                cases.append((f"--to {fmt}", {"k": "cli", "args": ["--to", fmt] + (["-S"] if rng.random() < 0.3 else []) + ["."], "stdin_hex": r["bytes"]}))
    for what, case in cases:
        acc.cases += 1
        o = M.run_cli_case(case)
        if o[0] == "panic":
            if M.is_exempt_panic(o[1]):
                acc.exempt["panic:" + M.msg_class(o[1])] += 1
            else:
                key = M.panic_key(o[1], o[2], case)
                acc.seen_keys[key] = acc.seen_keys.get(key, 0) + 1
                if acc.seen_keys[key] == 1:
                    o2 = M.run_cli_case(case)
                    if o2[0] == "panic":
                        acc.viol.append((key, {"what": what + " (real CLI, exit 101)", "case": case, "panic": {"msg": o[1][:400], "loc": M.canon_loc(o[2])},
                                               "reproduced_in_fresh_worker": True}))
                    else:
                        acc.inconc["unreproducible-panic"] += 1
            acc.codes["cli:panic"] += 1
        elif o[0] == "death":
            if o[1] in EXEMPT_DEATHS:
                acc.inconc[o[1]] += 1
            else:
                key = "death:cli:" + M.msg_class(o[2].split("stderr=")[-1].strip().split("\n")[0])[:60]
                acc.seen_keys[key] = acc.seen_keys.get(key, 0) + 1
                if acc.seen_keys[key] == 1:
                    o2 = M.run_cli_case(case)
                    if o2[0] == "death" and o2[1] not in EXEMPT_DEATHS:
                        acc.viol.append((key, {"what": what + " (real CLI died)", "case": case, "detail": o[2], "reproduced_in_fresh_worker": True}))
                    else:
                        acc.inconc["unreproducible-death"] += 1
            acc.codes["cli:death"] += 1
        else:
            acc.codes["cli:" + o[1]] += 1
        acc.distinct.add(f"c:{sub}:{what.split('[')[0][:30]}:{o[0]}:{o[1] if o[0] == 'ok' else ''}")
    if cases:
        acc.samples.append({"workload": "cli", "what": cases[0][0], "args": [a[:80] for a in cases[0][1]["args"]]})
    return acc.pack()


def task(t):
    t0 = time.time()
    out = task_(t)
    out["dt"] = (round(time.time() - t0, 1), str(t[:4])[:120])
    return out


def task_(t):
    k = t[0]
    if k == "nat":
        return task_nat(t)
    if k == "filt":
        return task_filt(t)
    if k == "doc":
        return task_doc(t)
    if k == "wr":
        return task_wr(t)
    if k == "cli":
        return task_cli(t)
    if k == "sort":
        return task_sort(t)
    raise ValueError(k)


# ---------------------------------------------------------------------------------------------
# minimisation and CLI confirmation of witnesses (main process)

def ddmin(items, test, budget=150):
    """classic delta debugging on a list; `test(list)` -> still failing?"""
    n = 2
    calls = 0
    while len(items) >= 2 and calls < budget:
        size = max(1, len(items) // n)
        chunks = [items[i:i + size] for i in range(0, len(items), size)]
        reduced = False
        for i in range(len(chunks)):
            cand = [x for j, ch in enumerate(chunks) if j != i for x in ch]
            calls += 1
            if cand and test(cand):
                items = cand
                n = max(n - 1, 2)
                reduced = True
                break
            if calls >= budget:
                break
        if not reduced:
            if size == 1:
                break
            n = min(len(items), n * 2)
    return items


def minimise(key, case):
    """shrink filter texts / documents; returns a smaller case with the same key or None"""
    m = M.Mon(case.get("profile", "verif"), case.get("mem_gb", 4), case.get("stack_mb", 512))

    def same(c2):
        o = M.run_single(c2, m, timeout=10)
        if o[0] == "panic":
            return M.panic_key(o[1], o[2], c2) == key
        if o[0] == "span":
            return M.span_key(o[1]) == key
        return False
    try:
        if case["k"] == "evalc" and "mutated filter" in case.get("_what", ""):
            toks = list(case["prog"])
            res = ddmin(toks, lambda ts: same(dict(case, prog="".join(ts))))
            return dict(case, prog="".join(res))
        if case["k"] == "req" and case["req"].get("op") == "parse":
            res = ddmin(list(case["req"]["code"]), lambda ts: same(dict(case, req=dict(case["req"], code="".join(ts)))))
            return dict(case, req=dict(case["req"], code="".join(res)))
        if case["k"] == "req" and case["req"].get("op") == "fmt" and case["req"].get("dir") == "read":
            b = list(bytes.fromhex(case["req"]["bytes"]))
            res = ddmin(b, lambda bs: same(dict(case, req=dict(case["req"], bytes=bytes(bs).hex()))))
            return dict(case, req=dict(case["req"], bytes=bytes(res).hex()))
        if case["k"] == "evalc" and isinstance(case.get("input"), dict) and ("s" in case["input"] or "b" in case["input"]) and case["prog"].startswith("from"):
            tag = "s" if "s" in case["input"] else "b"
            b = list(bytes.fromhex(case["input"][tag]))
            res = ddmin(b, lambda bs: same(dict(case, input={tag: bytes(bs).hex()})))
            return dict(case, input={tag: bytes(res).hex()})
        if case["k"] == "evalc" and isinstance(case.get("input"), list):
            # a tuple of arguments: shrink long arrays inside it (e.g. the array handed to `sort`)
            tup = list(case["input"])
            changed = False
            for j, w in enumerate(tup):
                if isinstance(w, list) and len(w) > 6:
                    res = ddmin(list(w), lambda xs: same(dict(case, input=tup[:j] + [xs] + tup[j + 1:])), budget=200)
                    if len(res) < len(w):
                        tup[j] = res
                        changed = True
            if not changed and len(tup) > 6:
                # the input itself is one long array
                res = ddmin(tup, lambda xs: same(dict(case, input=xs)), budget=250)
                if len(res) < len(tup):
                    return dict(case, input=res)
            return dict(case, input=tup) if changed else None
    except Exception as e:  # minimisation is best effort
        return None
    finally:
        m.close()
    return None


def cli_confirm(case):
    """try the witness at the real CLI (debug build: overflow checks on, like `cargo build`)"""
    try:
        if case["k"] == "evalc":
            args = ["-c", "limit(%d; %s)" % (case.get("take", 4), case["prog"])]
            if "input" in case:
                m = M.Mon("verif")
                try:
                    r = m.request({"op": "fmt", "dir": "write", "format": "json", "val": case["input"]}, 10)
                finally:
                    m.close()
                if "bytes" not in r:
                    return None
                cc = {"k": "cli", "args": args, "stdin_hex": r["bytes"]}
            else:
                cc = {"k": "cli", "args": ["-n"] + args}
        elif case["k"] == "req" and case["req"].get("op") == "fmt" and case["req"].get("dir") == "read":
            cc = {"k": "cli", "args": ["--from", case["req"]["format"]] + (["-s"] if case["req"].get("slurp") else []) + [".", "@F:doc"], "files": {"doc": case["req"]["bytes"]}}
        elif case["k"] == "req" and case["req"].get("op") == "parse":
            cc = {"k": "cli", "args": ["-n", "-f", "@F:p.jq"], "files": {"p.jq": case["req"]["code"].encode().hex()}}
        else:
            return None
        o = M.run_cli_case(cc)
        return {"cli_case": cc, "cli_outcome": list(o)[:3]}
    except Exception as e:
        return {"cli_error": str(e)[:200]}


def readable(case):
    """human-readable rendering of a case for the witness"""
    from vlib.codec import dec
    out = {}
    try:
        if case["k"] == "evalc":
            out["filter"] = case["prog"]
            if "input" in case:
                out["input"] = show(dec(case["input"]), 400)
        elif case["k"] == "req":
            rq = case["req"]
            if rq.get("op") == "fmt" and rq.get("dir") == "read":
                b = bytes.fromhex(rq["bytes"])
                out["document"] = repr(b[:300])
                out["format"] = rq["format"]
            elif rq.get("op") == "fmt":
                out["value"] = show(dec(rq["val"]), 400)
                out["format"] = rq["format"]
            elif rq.get("op") == "parse":
                out["code"] = rq["code"][:400]
        elif case["k"] == "cli":
            out["argv"] = case["args"]
            if case.get("stdin_hex"):
                out["stdin"] = repr(bytes.fromhex(case["stdin_hex"])[:300])
            for nme, hx in (case.get("files") or {}).items():
                out["file:" + nme] = repr(bytes.fromhex(hx)[:300])
    except Exception:
        pass
    return out


# ---------------------------------------------------------------------------------------------

def replay(run):
    rp = json.load(open(run.replay))
    w = rp["witness"]
    case = w.get("minimised_case") or w["case"]
    o = M.run_single(case)
    print(f"replay {rp['key']}: outcome {o[:3]}")
    if o[0] == "panic" and not M.is_exempt_panic(o[1]):
        run.violation(M.panic_key(o[1], o[2], case), dict(w, replayed=True))
    elif o[0] == "span":
        run.violation(M.span_key(o[1]), dict(w, replayed=True))
    elif o[0] == "death" and o[1] not in EXEMPT_DEATHS:
        run.violation(rp["key"], dict(w, replayed=True))
    elif o[0] == "death":
        run.inconc(o[1])
    run.finish({"evaluations": 1, "distinct_nontrivial": 1, "rule": "replay of one stored witness", "samples": [readable(case)]})


def main():
    run = Run("C05")
    # scratch directory for the workers' stderr files; removed when the main process exits
    import atexit
    import shutil
    import tempfile
    tmpdir = tempfile.mkdtemp(prefix="c05-run-")
    os.environ["C05_TMPDIR"] = tmpdir
    main_pid = os.getpid()
    atexit.register(lambda: os.getpid() == main_pid and shutil.rmtree(tmpdir, ignore_errors=True))
    M.bin_path("verif")
    if run.replay:
        return replay(run)
    quick = run.tier == "quick"
    pool = P.build_pool()
    progs, listing = nat_programs()
    mon("verif").close()
    _G.clear()
    tasks, nat_sizes = nat_tasks(progs, run, pool)
    nfilt = run.size(48, 640)
    per_filt = 700
    for i in range(nfilt):
        tasks.append(("filt", "verif", i, per_filt, run.seed, True, nfilt))
    ndoc = run.size(2, 30)
    for fmt in D.FORMATS:
        for i in range(ndoc if fmt not in ("raw", "raw0") else 1):
            tasks.append(("doc", "verif", fmt, i, 600, run.seed))
    nwr = run.size(8, 100)
    for i in range(nwr):
        tasks.append(("wr", "verif", i, 250, run.seed))
    for i in range(run.size(16, 200)):
        tasks.append(("sort", "verif", i, 120, run.seed))
    # release slice: the same generators (same seeds => same cases) in the profile users run
    rrng = run.rng("release-slice")
    rel = []
    for t in tasks:
        if t[0] == "nat":
            if rrng.random() < (0.12 if quick else 0.08):
                rel.append(t[:1] + ("release",) + t[2:])
        elif rrng.random() < 0.2:
            rel.append(t[:1] + ("release",) + t[2:] if t[0] != "filt" else ("filt", "release") + t[2:5] + (False, nfilt))
    M.bin_path("release")
    M.bin_path("cli")
    # CLI slice
    ncli = run.size(8, 120)
    cli_tasks = []
    for i in range(ncli):
        cli_tasks.append(("cli", "filt", i, 20, run.seed, None))
        cli_tasks.append(("cli", "doc", i, 20, run.seed, None))
    rng = run.rng("order")
    # big tasks first, so that the tail is short
    tasks = tasks + rel
    rng.shuffle(tasks)
    tasks.sort(key=lambda t: 0 if t[0] in ("filt", "doc", "wr", "sort") else 1)
    tasks = cli_tasks + tasks

    by_wl = collections.Counter()
    codes = collections.Counter()
    exempt = collections.Counter()
    extra = collections.Counter()
    distinct = Distinct()
    samples = Samples(10, run.rng("samples"))
    covered = set()
    notes = []
    key_counts = collections.Counter()
    viols = {}
    broken = []
    slow = []
    cli_cand = []
    first_sample = {}
    task_times = []
    profiles = collections.Counter()

    def absorb(out):
        by_wl[out["workload"]] += out["cases"]
        codes.update(out["codes"])
        exempt.update(out["exempt"])
        extra.update(out["extra"])
        for cls, k in out["inconc"].items():
            run.inconc(cls, k)
        for d in out["distinct"]:
            distinct.add(d)
        for s in out["samples"]:
            if s.get("workload") not in first_sample:
                first_sample[s.get("workload")] = s
            else:
                samples.add(s)
        covered.update(out["covered"])
        notes.extend(out["notes"])
        for k, v in out["seen_keys"].items():
            key_counts[k] += v
        for key, w in out["viol"]:
            # keep the simplest witness per key: native tuples before sort arrays, documents, writers, filter texts, CLI
            w["workload"] = out["workload"]
            prio = {"natives": 0, "sort-stress": 1, "documents": 2, "writers": 3, "filters": 4, "cli": 5}
            if key not in viols or prio.get(w["workload"], 9) < prio.get(viols[key].get("workload"), 9):
                viols[key] = w
        broken.extend(out["broken"])
        slow.extend(out["slow"])
        cli_cand.extend(out["cli_candidates"])
        task_times.append(out.get("dt"))

    for out in par.pmap(task, tasks, run.jobs):
        absorb(out)
    # second wave: natives and writer values at the real CLI (needs finished cases from the first wave)
    rng2 = run.rng("cli-nat")
    rng2.shuffle(cli_cand)
    want = run.size(320, 6000)
    cli2 = []
    cand = cli_cand[:want]
    for i in range(0, len(cand), 20):
        cli2.append(("cli", "nat", i, 0, run.seed, cand[i:i + 20]))
    wvals = shaped_values(run.rng("cli-wr"), [v for _c, v in pool], run.size(120, 2000))
    for i in range(0, len(wvals), 20):
        cli2.append(("cli", "wr", i, 0, run.seed, [(".", enc(v)) for v in wvals[i:i + 20]]))
    for out in par.pmap(task, cli2, run.jobs):
        absorb(out)

    # witnesses: minimise, confirm at the CLI, record
    for key, w in sorted(viols.items()):
        case = dict(w["case"])
        case["_what"] = w.get("what", "")
        mc = minimise(key, case)
        case.pop("_what", None)
        if mc is not None:
            mc.pop("_what", None)
            if mc != case:
                w["minimised_case"] = mc
                w["minimised"] = readable(mc)
        w["readable"] = readable(case)
        if case["k"] != "cli":
            cc = cli_confirm(w.get("minimised_case") or case)
            if cc:
                w["real_cli"] = cc
        w["occurrences_in_this_run"] = key_counts.get(key, 1)
        run.violation(key, w)

    total = sum(by_wl.values())
    all_callables = sorted({f"{n}/{len(a)}" for n, a in listing["natives"]} | {f"{n}/{len(a)}" for n, a in listing["defs"]})
    not_ex = [c for c in all_callables if c not in covered]
    op_labels = [p.label for p in progs if p.kind == "op"]
    ops_not = [l for l in op_labels if l not in covered]
    panics_by_site = {k: v for k, v in sorted(key_counts.items()) if v}
    run.notes.extend(sorted(set(notes))[:40])
    cov = {
        "evaluations": total,
        "distinct_nontrivial": len(distinct),
        "rule": "a case = one execution of the real lexer/parser/compiler/report renderer, interpreter, format reader or writer under the panic hook; "
                "distinct = (workload, subject [callable + filter-argument shape | format + read path | mutation operator + error class], "
                "category tuple of the arguments, outcome code); non-trivial = the case reached the code under test (compiled program executed, "
                "rejected filter rendered, document fed to a reader, value fed to a writer)",
        "samples": list(first_sample.values()) + samples.items[:6],
        "cases_per_workload": dict(by_wl),
        "native_tuple_cases_by_slots": {str(k): v for k, v in nat_sizes.items()},
        "outcome_codes": dict(codes),
        "pool_size": len(pool),
        "programs": len(progs),
        "callables_total": len(all_callables), "callables_exercised": len(all_callables) - len(not_ex), "callables_not_exercised": not_ex,
        "operator_forms_total": len(op_labels), "operator_forms_not_exercised": ops_not,
        "formats_read": sorted(c for c in covered if c.startswith("read:")), "formats_written": sorted(c for c in covered if c.startswith("write:")),
        "panic_sites_seen(key -> cases)": panics_by_site,
        "exempt_resource_exhaustion_panics": dict(exempt),
        "details": dict(extra),
        "slowest_native_batches": sorted(slow, key=lambda x: -x[1])[:8],
        "slowest_tasks": sorted([x for x in task_times if x], key=lambda x: -x[0])[:8],
        "profiles": ["verif", "release", "cli(debug)"], "release_slice_tasks": len(rel), "tasks": len(tasks) + len(cli2),
    }
    run.finish(cov, assumptions=[
        "jaqmon's catch_unwind + panic hook see every panic of the code under test (panic=unwind in both profiles)",
        "profile verif (release + debug-assertions + overflow-checks, applied to all crates incl. dependencies) makes integer overflow and internal assertions observable",
        "worker deaths classified by signal/stderr signature (stack overflow, allocation failure, watchdog) are resource exhaustion and exempt",
        "tuples whose legitimate behaviour is unbounded allocation or practically unbounded looping (string * huge, combinations(huge), jn/yn with huge order) are not generated (counted in details.tamed)",
    ], broken="; ".join(sorted(set(broken))[:3]) if broken else None)


if __name__ == "__main__":
    main()
