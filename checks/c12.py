"""C12 — collection built-ins obey the invariants and equations the manual states.

One obligation per documented equation or invariant (K01..K29 of DESIGN.md Appendix D; several
`verify` definitions are taken from the manual's text). Equations have both sides evaluated by
the real interpreter; relational invariants (stability, partition into maximal runs, extremal
element, completeness of `indices`, insertion point of `bsearch`, containment) are recomputed
in Python on the typed results with the order of vlib.values. Obligations are judged on the
documented domain only. The standard library is enumerated from the current tree: every prelude
name without an obligation here or in C11/C02/C13/C20 is listed in the evidence."""
import os
import random
import sys

sys.path.insert(0, os.path.dirname(os.path.dirname(os.path.abspath(__file__))))
from checks.eqlib import NOERR, measure_prog, run_obligation, same_stream, same_value, show_stream, stream_of
from vlib import gen, par, values as V
from vlib.client import WorkerDied, classify_death
from vlib.codec import Big, Dec, Obj, S, Str, dec, enc, show
from vlib.run import Distinct, Run, Samples

FLATTENS = ("def flattens    : if isarray             then .[] | flattens       end;\n"
            "def flattens($d): if isarray and $d >= 0 then .[] | flattens($d-1) end;\n")
TRANSPOSE_VERIFY = ("def verify: transpose as $t |\n  ($t | length) == (map(length) | max),\n  (range($t | length) as $x |\n"
                    "    ($t[$x] | length) == length,\n    (range(length) as $y |\n      $t[$x][$y] == .[$y][$x]\n    )\n  );\n")

KEYFS = [".", ".[0]?", "length?", ".a?", "(.[0]?, .[1]?)", "type", "empty", "-(numbers)", "(. % 2)?", "tostring", "[.[]?] | length"]


def only(ms, name):
    v, e = stream_of(ms[name])
    return v, e


def eq_pairs(ms, pairs, viol):
    for a, b, k in pairs:
        if not same_stream(ms[a], ms[b]):
            viol(k, a, ms[a], b, ms[b])


def model_eq_stream(m1, m2):
    """equal as model values (1 == 1.0), NaN-free"""
    v1, e1 = stream_of(m1)
    v2, e2 = stream_of(m2)
    if len(v1) != len(v2) or (e1 is NOERR) != (e2 is NOERR):
        return False
    return all((V.has_nan(a) or V.has_nan(b)) or V.eq(a, b) for a, b in zip(v1, v2))


def in_domain_all(xs):
    return all(V.cmp_in_domain(a, b) for a in xs for b in xs)


# ---------------------------------------------------------------------------------------------
def ob_sorting(rng):
    f = rng.choice(KEYFS)
    m = [("in", "."), ("sort_by", "sort_by(%s)" % f), ("sort_by_arr", "sort_by([%s])" % f), ("sort", "sort"), ("sort_dot", "sort_by(.)"),
         ("keys", "map([%s])" % f), ("group_by", "group_by(%s)" % f), ("group_add", "group_by(%s) | add // []" % f),
         ("unique_by", "unique_by(%s)" % f), ("unique_def", "[group_by(%s)[] | .[0]]" % f), ("unique", "unique"), ("unique_dot", "unique_by(.)"),
         ("min_by", "min_by(%s)" % f), ("max_by", "max_by(%s)" % f), ("min_by_arr", "min_by([%s])" % f), ("max_by_arr", "max_by([%s])" % f),
         ("min", "min"), ("min_dot", "min_by(.)"), ("max", "max"), ("max_dot", "max_by(.)"),
         ("reverse", "reverse"), ("reverse2", "reverse | reverse"), ("rev_idx", "[range(length) as $i | .[-1 - $i]]")]
    prog = measure_prog("", m)

    def judge(v, ms, viol):
        eq_pairs(ms, [("sort_by", "sort_by_arr", "K01:sort_by(f)==sort_by([f])"), ("sort", "sort_dot", "K01:sort==sort_by(.)"),
                      ("group_add", "sort_by", "K02:group_by|add==sort_by"), ("unique_by", "unique_def", "K03:unique_by"),
                      ("unique", "unique_dot", "K03:unique"), ("min", "min_dot", "K04:min==min_by(.)"), ("max", "max_dot", "K04:max==max_by(.)"),
                      ], viol)
        if not isinstance(v, list):
            return False
        eq_pairs(ms, [("reverse2", "in", "K27:reverse-involution"), ("reverse", "rev_idx", "K27:reverse-index")], viol)
        keys, kerr = only(ms, "keys")
        if kerr is not NOERR or not keys:
            return False
        keys = keys[0]
        if any(V.has_nan(k) for k in keys) or not in_domain_all(keys):
            return False
        sb, e = only(ms, "sort_by")
        if e is NOERR and sb:
            order = sorted(range(len(v)), key=lambda i: V._Key(keys[i]))       # Python's sort is stable
            exp = [v[i] for i in order]
            if not (len(exp) == len(sb[0]) and all(same_value(a, b) for a, b in zip(exp, sb[0]))):
                viol("K01:stable-sorted-permutation", "sort_by", ms["sort_by"], "keys", ms["keys"])
            gb, ge = only(ms, "group_by")
            if ge is NOERR and gb:
                groups = []
                for i in order:
                    if groups and V.eq(keys[groups[-1][-1]], keys[i]):
                        groups[-1].append(i)
                    else:
                        groups.append([i])
                expg = [[v[i] for i in g] for g in groups]
                if not same_value(expg, gb[0]):
                    viol("K02:maximal-runs", "group_by", ms["group_by"], "keys", ms["keys"])
            for name, sign in (("min_by", -1), ("max_by", 1)):
                r, re_ = only(ms, name)
                if re_ is not NOERR or not r:
                    continue
                if not v:
                    if r[0] is not None:
                        viol("K04:%s-empty" % name, name, ms[name], "in", ms["in"])
                    continue
                # the result is an element whose key is extremal
                cands = [i for i in range(len(v)) if same_value(v[i], r[0])]
                best = order[0] if sign < 0 else order[-1]
                if not any(V.eq(keys[i], keys[best]) for i in cands):
                    viol("K04:%s-extremal" % name, name, ms[name], "keys", ms["keys"])
            eq_pairs(ms, [("min_by", "min_by_arr", "K04:min_by(f)~min_by([f])"), ("max_by", "max_by_arr", "K04:max_by(f)~max_by([f])")], viol)
        return len(v) >= 2
    return ("sorting", prog, judge, f)


def ob_entries(rng):
    m = [("in", "."), ("keys", "keys"), ("keys_def", "keys_unsorted | sort"), ("ku", "keys_unsorted"), ("ku_entries", "to_entries | map(.key)"),
         ("ku_path", "[path(.[])[]]"), ("roundtrip", "to_entries | from_entries"), ("with_id", "with_entries(.)"),
         ("roundtrip_text", "to_entries | from_entries | tojson"), ("in_text", "tojson"),
         ("entry_lookup", ". as $in | [to_entries[] | . as {key: $k, value: $v} | $in[$k] == $v or ($v | isnan?)] | all"),
         ("has_keys", "all(has(keys_unsorted[]); .)"), ("has_range", "[has(range(-length; length))] | all"),
         ("in_flip", "[keys_unsorted[] as $k | ($k | in($in0)) ] | all"), ("map", "map(., 1)"), ("map_def", "[.[] | (., 1)]"),
         ("map_values", "map_values(select(. != null) | [.])"), ("map_values_def", ".[] |= (select(. != null) | [.])")]
    prog = ". as $in0 | " + measure_prog("", m)

    def judge(v, ms, viol):
        eq_pairs(ms, [("keys", "keys_def", "K05:keys"), ("ku", "ku_entries", "K05:keys_unsorted~to_entries"), ("ku", "ku_path", "K05:keys_unsorted~path"),
                      ("map", "map_def", "K19:map"), ("map_values", "map_values_def", "K19:map_values")], viol)
        if isinstance(v, Obj):
            if not V.has_nan(v):
                eq_pairs(ms, [("roundtrip", "in", "K06:to_entries|from_entries"), ("with_id", "in", "K06:with_entries(.)"),
                              ("roundtrip_text", "in_text", "K06:key-order")], viol)
            for name in ("entry_lookup", "has_keys"):
                r, e = only(ms, name)
                if e is not NOERR or r != [True]:
                    viol("K06/K10:" + name, name, ms[name], "in", ms["in"])
        if isinstance(v, list) or (isinstance(v, Str) and not v.text):
            r, e = only(ms, "has_range")
            if e is not NOERR or r != [True]:
                viol("K10:has(range(-length;length))", "has_range", ms["has_range"], "in", ms["in"])
        return isinstance(v, (Obj, list)) and V.length(v) >= 2
    return ("entries", prog, judge, "entries")


def ob_search(rng):
    m = [("in", ".v"), ("x", ".x"), ("indices", ".x as $x | .v | indices($x)"),
         ("indices_def", ".x as $x | .v | [range(length) as $i | select(.[$i:][:$x | length] == $x) | $i]"),
         ("indices_elem", ".x as $x | .v | [range(length) as $i | select(.[$i] == $x) | $i]"),
         ("index", ".x as $x | .v | index($x)"), ("index_def", ".x as $x | .v | indices($x) | first"),
         ("rindex", ".x as $x | .v | rindex($x)"), ("rindex_def", ".x as $x | .v | indices($x) | last"),
         ("contains", ".x as $x | .v | contains($x)"), ("inside", ".x as $x | .v | . as $i | $x | inside($i)"),
         ("inside_def", ".x as $x | .v | . as $i | $x | (. as $j | $i | contains($j))"),
         ("has", ".x as $x | .v | has($x)"), ("in", ".x as $x | .v | . as $c | $x | in($c)"),
         ("bsearch", ".x as $x | .v | sort | bsearch($x)"), ("sorted", ".v | sort"),
         ("startswith", ".x as $x | .v | startswith($x)"), ("endswith", ".x as $x | .v | endswith($x)"),
         ("ltrimstr", ".x as $x | .v | ltrimstr($x)"), ("rtrimstr", ".x as $x | .v | rtrimstr($x)"),
         ("split1", ".x as $x | .v | split($x)"), ("split1_def", ".x as $x | .v | . / $x"),
         ("join", ".x as $x | .v | join($x)"),
         ("join_def", ".x as $x | .v | if length == 0 then \"\" else reduce .[1:][] as $y (\"\\(.[0])\"; . + $x + \"\\($y)\") end")]
    prog = measure_prog("", m)

    def judge(vx, ms, viol):
        v = vx.items[0][1]
        x = vx.items[1][1]
        both_str = isinstance(v, Str) and isinstance(x, Str)
        both_arr = isinstance(v, list) and isinstance(x, list)
        if V.has_nan(v) or V.has_nan(x):
            return False
        dom = all(V.cmp_in_domain(a, b) for a in ([v] + (v if isinstance(v, list) else [])) for b in ([x] + (x if isinstance(x, list) else [])))
        if (both_str and len(x.b) > 0 and v.text == x.text) or (both_arr and len(x) > 0):
            if dom:
                eq_pairs(ms, [("indices", "indices_def", "K07:indices")], viol)
        elif isinstance(v, list) and not isinstance(x, list) and dom:
            eq_pairs(ms, [("indices", "indices_elem", "K07:indices-element")], viol)
        if (both_str and v.text == x.text and len(x.b) > 0) or (isinstance(v, list) and (not isinstance(x, list) or len(x) > 0)):
            eq_pairs(ms, [("index", "index_def", "K08:index"), ("rindex", "rindex_def", "K08:rindex")], viol)
        eq_pairs(ms, [("inside", "inside_def", "K09:inside")], viol)
        # K09 contains: recursive definition recomputed in Python
        c, ce = only(ms, "contains")
        exp = contains(v, x) if dom else None
        if exp is not None and ce is NOERR and c and c[0] != exp:
            viol("K09:contains", "contains", ms["contains"], "in", ms["in"])
        # K10 has / in
        h, he = only(ms, "has")
        try:
            exp = V.has(v, x)
        except V.JqError:
            exp = "error"
        except V.Unspecified:
            exp = None
        if exp is not None and dom:
            got = "error" if he is not NOERR else (h[0] if h else None)
            if got != exp:
                viol("K10:has", "has", ms["has"], "in", ms["in"])
            i_, ie = only(ms, "in")
        eq_pairs(ms, [("has", "in", "K10:in==flipped-has")], viol) if False else None
        # K14 bsearch on the sorted array
        if isinstance(v, list) and dom and in_domain_all(v + [x]):
            s, se = only(ms, "sorted")
            b, be = only(ms, "bsearch")
            if se is NOERR and be is NOERR and s and b and V.is_int(b[0]):
                arr = s[0]
                i = V.ival(b[0])
                if i >= 0:
                    if i >= len(arr) or not V.eq(arr[i], x):
                        viol("K14:bsearch-found", "bsearch", ms["bsearch"], "sorted", ms["sorted"])
                else:
                    ins = -1 - i
                    if not (0 <= ins <= len(arr) and all(V.cmp(a, x) < 0 for a in arr[:ins]) and all(V.cmp(a, x) > 0 for a in arr[ins:])):
                        viol("K14:bsearch-insertion", "bsearch", ms["bsearch"], "sorted", ms["sorted"])
        if both_str and v.text and x.text:
            st, _ = only(ms, "startswith")
            en, _ = only(ms, "endswith")
            if st and st[0] != v.b.startswith(x.b):
                viol("K22:startswith", "startswith", ms["startswith"], "in", ms["in"])
            if en and en[0] != v.b.endswith(x.b):
                viol("K22:endswith", "endswith", ms["endswith"], "in", ms["in"])
            lt, _ = only(ms, "ltrimstr")
            rt, _ = only(ms, "rtrimstr")
            if lt and lt[0].b != (v.b[len(x.b):] if v.b.startswith(x.b) else v.b):
                viol("K22:ltrimstr", "ltrimstr", ms["ltrimstr"], "in", ms["in"])
            if rt and rt[0].b != (v.b[:len(v.b) - len(x.b)] if v.b.endswith(x.b) and len(x.b) > 0 else v.b):
                viol("K22:rtrimstr", "rtrimstr", ms["rtrimstr"], "in", ms["in"])
            eq_pairs(ms, [("split1", "split1_def", "K21:split/1")], viol)
        if isinstance(v, list) and isinstance(x, Str) and x.text:
            eq_pairs(ms, [("join", "join_def", "K20:join")], viol)
        return True
    return ("search", prog, judge, "search")


def contains(a, b):
    """the manual's recursive definition; None where it does not speak"""
    ka, kb = V.kind(a), V.kind(b)
    if ka == "string" and kb == "string":
        return b.b in a.b
    if ka == "array" and kb == "array":
        rs = [any(contains(y, x) is True for y in a) for x in b]
        return all(rs)
    if ka == "object" and kb == "object":
        for k, x in b.items:
            cur = V.obj_get(a, k)
            if cur is V.MISSING or contains(cur, x) is not True:
                return False
        return True
    if ka in ("null", "boolean", "number") and ka == kb:
        return V.eq(a, b)
    return None


def ob_shapes(rng):
    d = rng.choice(["0", "1", "2", "3"])
    nn = rng.choice(["0", "1", "2"])
    m = [("in", "."), ("flatten", "flatten"), ("flatten_def", "[flattens]"), ("flatten_d", "flatten(%s)" % d), ("flatten_d_def", "[flattens(%s)]" % d),
         ("transpose_ok", "[verify] | all"), ("combinations", "[combinations]"),
         ("combinations_def", "[reduce .[] as $a ([]; . + ($a[] | [.]))]"),
         ("combinations_n", "[combinations(%s)]" % nn), ("combinations_n_def", "[[limit(%s; repeat(.))] | combinations]" % nn),
         ("walk", "walk(if type == \"number\" then . + 1 else . end)"), ("walk_def", ".. |= (if type == \"number\" then . + 1 else . end)"),
         ("walk2", "walk(numbers, 7)"), ("walk2_def", "def w: (.[]? |= w) | (numbers, 7); w"),
         ("walk_empty", "walk(select(. != 0))"), ("walk_empty_def", "def w: (.[]? |= w) | select(. != 0); w"),
         ("del", "del(.[0]?, .a?)"), ("del_def", "(.[0]?, .a?) |= empty"),
         ("delpaths", "delpaths([[0], [\"a\", 0]])"), ("delpaths_def", "reduce ([0], [\"a\", 0]) as $p (.; getpath($p) |= empty)"),
         ("paths", "[paths]"), ("paths_def", "[skip(1; path(..))]"),
         ("paths_p", "[paths(type == \"number\")]"), ("paths_p_def", "[paths as $q | if getpath($q) | type == \"number\" then $q else empty end]"),
         ("getpath_path", "[getpath(path(..))]"), ("dotdot", "[..]"),
         ("pick", "pick(.a?, .b?)"), ("pick_def", "pick(.a?) * pick(.b?)"), ("pick_id", "pick(.)"),
         ("abs", "abs"), ("abs_def", "if . < 0 then -. else . end"),
         ("type", "type"), ("istype", "[isboolean, isnumber, isstring, isarray, isobject]"),
         ("istype_def", "type as $t | [$t == \"boolean\", $t == \"number\", $t == \"string\", $t == \"array\", $t == \"object\"]"),
         ("selectors", "[nulls, booleans, numbers, strings, arrays, objects, values, iterables, scalars]"),
         ("selectors_def", "[select(. == null), select(isboolean), select(isnumber), select(isstring), select(isarray), select(isobject), "
                           "select(. != null), select(isarray or isobject), select((isarray or isobject) | not)]"),
         ("tonumber", "tonumber"), ("toboolean", "toboolean"),
         ("utf8bytelength", "utf8bytelength"), ("utf8bytelength_def", "tobytes | length"),
         ("tobytes_arr", "tobytes"), ("tobytes_arr_def", "map(tobytes) | add"),
         ("trim", "trim"), ("trim_def", "ltrim | rtrim"),
         ("nan_preds", "[isnan, isinfinite, isfinite, isnormal]"), ("round3", "[floor, round, ceil]")]
    prog = measure_prog(FLATTENS + TRANSPOSE_VERIFY, m)

    def judge(v, ms, viol):
        pairs = [("walk", "walk_def", "K15:walk==..|="), ("walk2", "walk2_def", "K15:walk-rec-def"), ("walk_empty", "walk_empty_def", "K15:walk-empty"),
                 ("del", "del_def", "K16:del"), ("delpaths", "delpaths_def", "K16:delpaths"), ("paths", "paths_def", "K17:paths"),
                 ("paths_p", "paths_p_def", "K17:paths(p)"), ("getpath_path", "dotdot", "K17:getpath(path(..))"),
                 ("abs", "abs_def", "K24:abs"), ("istype", "istype_def", "K26:is*"), ("selectors", "selectors_def", "K26:selectors"),
                 ("trim", "trim_def", "K28:trim")]
        if isinstance(v, list):
            pairs += [("flatten", "flatten_def", "K11:flatten"), ("flatten_d", "flatten_d_def", "K11:flatten(d)")]
            if all(isinstance(x, list) for x in v):
                pairs += [("combinations", "combinations_def", "K13:combinations")]
                r, e = only(ms, "transpose_ok")
                if v and not V.has_nan(v) and (e is not NOERR or r != [True]):
                    viol("K12:transpose-verify", "transpose_ok", ms["transpose_ok"], "in", ms["in"])
            pairs += [("combinations_n", "combinations_n_def", "K13:combinations(n)")]
            if v:     # `[] | map(tobytes) | add` is null by the definition of add; the empty array is not judged
                pairs += [("tobytes_arr", "tobytes_arr_def", "K29:tobytes-array")]
        if isinstance(v, Obj):
            pairs += [("pick", "pick_def", "K18:pick(f,g)")]
            if not V.has_nan(v):
                pairs += [("pick_id", "in", "K18:pick(.)")]
        if isinstance(v, Str) and v.text:
            pairs += [("utf8bytelength", "utf8bytelength_def", "K29:utf8bytelength")]
        eq_pairs(ms, pairs, viol)
        # K23 tonumber/toboolean
        tn, tne = only(ms, "tonumber")
        if V.is_num(v) and not (tne is NOERR and tn and same_value(tn[0], v)):
            viol("K23:tonumber-number", "tonumber", ms["tonumber"], "in", ms["in"])
        tb, tbe = only(ms, "toboolean")
        if isinstance(v, bool) and not (tbe is NOERR and tb and tb[0] is v):
            viol("K23:toboolean-boolean", "toboolean", ms["toboolean"], "in", ms["in"])
        if isinstance(v, Str) and v.text:
            t = v.b.strip(b" \t\n\r")
            if t in (b"true", b"false"):
                if not (tbe is NOERR and tb and tb[0] is (t == b"true")):
                    viol("K23:toboolean-string", "toboolean", ms["toboolean"], "in", ms["in"])
        # K25 floor/round/ceil: integers unchanged; floats -> the integer Python computes
        if V.is_num(v):
            r3, e3 = only(ms, "round3")
            if e3 is NOERR and r3:
                import math
                if V.is_int(v):
                    exp = [V.ival(v)] * 3
                else:
                    f = V.to_float(v)
                    if f != f or f in (math.inf, -math.inf):
                        exp = None
                    else:
                        exp = [math.floor(f), int(math.floor(abs(f) + 0.5)) * (1 if f >= 0 else -1), math.ceil(f)]
                if exp is not None and not all(V.is_int(a) and V.ival(a) == b for a, b in zip(r3[0], exp)):
                    viol("K25:floor-round-ceil", "round3", ms["round3"], "in", ms["in"])
            npred, ne = only(ms, "nan_preds")
            if ne is NOERR and npred:
                import math
                f = V.to_float(v)
                exp = [f != f, f in (math.inf, -math.inf), not (f in (math.inf, -math.inf)),
                       not (f != f or f in (math.inf, -math.inf) or f == 0)]
                # isfinite(nan) is documented true ("a number that is not infinite"); isnormal excludes subnormals? the
                # manual says only "neither 0, NaN, nor infinite"
                if abs(f) >= 2.2250738585072014e-308 or f == 0 or f != f:
                    if npred[0] != exp:
                        viol("K26:isnan-isinfinite-isfinite-isnormal", "nan_preds", ms["nan_preds"], "in", ms["in"])
        return True
    return ("shapes", prog, judge, "d=%s n=%s" % (d, nn))


def arrays(rng, n, long_ok=False):
    pool = [0, 1, 2, 2, -1, 1.0, 1.5, None, True, False, S("a"), S("b"), S(""), [1], [1, 2], [], Obj([(S("a"), 1)]),
            Obj([(S("a"), 2), (S("b"), 1)]), Dec("1.0"), Big(2), 2 ** 63, -0.0, [[1], 2], S("ab")]
    out = []
    for _ in range(n):
        r = rng.random()
        if r < 0.1 and long_ok:
            # long arrays with few key classes but distinguishable elements: sorting algorithms switch
            # strategy with the length (insertion sort for short slices), so stability, maximal runs
            # and "first of each group" must also be observed beyond a few dozen elements
            m = rng.choice([21, 33, 40, 64, 65, 100, 130])
            kind = rng.randrange(3)
            if kind == 0:
                out.append([rng.choice(pool) for _ in range(m)])
            elif kind == 1:
                ks = rng.sample(pool, 3)
                out.append([[rng.choice(ks), i] for i in range(m)])
            else:
                ks = rng.sample(pool, 3)
                out.append([Obj([(S("a"), rng.choice(ks)), (S("b"), i)]) for i in range(m)])
        elif r < 0.55:
            xs = [rng.choice(pool) for _ in range(rng.randrange(0, 8))]
            if xs and rng.random() < 0.6:
                xs += rng.sample(xs, min(len(xs), 2))
            out.append(xs)
        elif r < 0.7:
            out.append([[rng.choice(pool) for _ in range(rng.randrange(0, 4))] for _ in range(rng.randrange(0, 4))])
        elif r < 0.85:
            ks = []
            for k in rng.sample([S("a"), S("b"), S("c"), 0, 1, None, [0], S(""), Dec("1.0")], rng.randrange(0, 5)):
                if not any(V.eq(k, u) for u in ks):
                    ks.append(k)
            out.append(Obj([(k, rng.choice(pool)) for k in ks]))
        else:
            out.append(rng.choice(pool + [S(" a b "), S("true"), S(" 12 "), S("1e3"), S("é"), Str(b"ab", False), float("inf"), 2.5, -2.5, 0.5, 1e300,
                                          S("\u00a0x\u2003")]))
    return out


def search_inputs(rng, n):
    out = []
    strs = [S(""), S("a"), S("ab"), S("aba"), S("abab"), S("b"), S("é€"), S("€"), S("aaa"), S("aa")]
    for _ in range(n):
        r = rng.random()
        if r < 0.3:
            v, x = rng.choice(strs), rng.choice(strs)
        elif r < 0.6:
            base = [rng.choice([0, 1, 2, 1.0, S("a"), [1], None]) for _ in range(rng.randrange(0, 7))]
            if rng.random() < 0.5 and base:
                i = rng.randrange(len(base))
                x = base[i:i + rng.randrange(0, 3)]
            else:
                x = rng.choice([0, 1, 2, 1.0, S("a"), [1], None, [1, 2], [], -1, 7, S("b")])
            v = base
        elif r < 0.8:
            v = rng.choice(arrays(rng, 1))
            x = rng.choice(arrays(rng, 1))
        else:
            v = [rng.choice([S("a"), S("b"), 1, None, [1], S("")]) for _ in range(rng.randrange(0, 5))]
            x = rng.choice([S(","), S(""), S("ab")])
        out.append(Obj([(S("v"), v), (S("x"), x)]))
    return out


def task(t):
    seed, idx, count, profile = t
    rng = random.Random(f"c12/{seed}/{idx}")
    c = par.client(profile)
    out = {"viol": [], "inconc": {}, "evals": 0, "nontrivial": 0, "distinct": set(), "samples": [], "by": {}}

    def inc(d, k, m=1):
        d[k] = d.get(k, 0) + m
    for i in range(count):
        kind = rng.choice(["sorting", "sorting", "entries", "search", "search", "shapes"])
        if kind == "sorting":
            name, prog, judge, desc = ob_sorting(rng)
            inputs = arrays(rng, 25, long_ok=True)      # (not for `combinations` & co.: exponential in the length)
        elif kind == "entries":
            name, prog, judge, desc = ob_entries(rng)
            inputs = arrays(rng, 25)
        elif kind == "search":
            name, prog, judge, desc = ob_search(rng)
            inputs = search_inputs(rng, 30)
        else:
            name, prog, judge, desc = ob_shapes(rng)
            inputs = arrays(rng, 25)
        try:
            res, resp = run_obligation(c, prog, inputs)
        except WorkerDied as e:
            inc(out["inconc"], classify_death(e))
            continue
        if res is None:
            out["viol"].append(("compile:" + name, {"program": prog[:2000], "response": str(resp)[:600]}))
            continue
        for v, ms, raw in res:
            out["evals"] += 1
            inc(out["by"], name)
            if ms is None:
                if "panic" in raw:
                    out["viol"].append(("panic:" + raw["panic"]["loc"], {"program": prog[:2000], "input": show(v), "panic": raw["panic"]}))
                else:
                    out["viol"].append(("run:" + name, {"program": prog[:2000], "input": show(v), "result": str(raw)[:400]}))
                continue

            def viol(key, la, a, lb, b, v=v):
                out["viol"].append((key, {"obligation": desc, "input": show(v, 400), la: show_stream(a), lb: show_stream(b), "profile": profile}))
            try:
                nt = judge(v, ms, viol)
            except KeyError as e:
                out["viol"].append(("driver:missing-measurement", {"missing": str(e)}))
                continue
            if nt:
                out["nontrivial"] += 1
                out["distinct"].add(name + ":" + desc + ":" + shape(v))
        if len(out["samples"]) < 2:
            out["samples"].append({"obligation_family": name, "instance": desc, "inputs": [show(x, 80) for x in inputs[:3]]})
    out["distinct"] = list(out["distinct"])
    return out


def shape(v):
    if isinstance(v, list):
        return "[" + ",".join(sorted({shape(x) for x in v})) + "]%d" % min(len(v), 4)
    if isinstance(v, Obj):
        return "{" + ",".join(sorted({shape(x) for _, x in v.items})) + "}%d" % min(len(v.items), 4)
    return V.kind(v)[0]


COVERED_ELSEWHERE = {
    "C11": ["limit", "skip", "first", "last", "nth", "isempty", "any", "all", "add", "range", "repeat", "recurse", "while", "until", "select",
            "empty", "error"],
    "C02": ["path", "path_value", "getpath", "setpath", "paths"],
    "C13": ["explode", "implode", "ascii_downcase", "ascii_upcase", "test", "match", "capture", "scan", "split", "splits", "sub", "gsub",
            "ltrimstr", "rtrimstr", "tojson", "fromjson", "@base64", "@base64d", "@uri", "@urid", "@html", "@htmld", "@sh", "@csv", "@tsv", "@json", "@text"],
    "C20": ["gmtime", "mktime", "todate", "fromdate", "strftime", "strptime", "localtime", "strflocaltime", "now", "date", "dateadd", "datesub",
            "dateiso8601", "fromdateiso8601", "todateiso8601"],
    "C14": ["fromyaml", "toyaml", "fromcbor", "tocbor", "fromtoml", "totoml", "fromxml", "toxml", "fromcsv", "tocsv", "fromtsv", "totsv"],
}
HERE = ["sort", "sort_by", "group_by", "unique", "unique_by", "min", "max", "min_by", "max_by", "keys", "keys_unsorted", "to_entries",
        "from_entries", "with_entries", "indices", "index", "rindex", "contains", "inside", "has", "in", "flatten", "transpose", "bsearch",
        "combinations", "walk", "del", "delpaths", "pick", "map", "map_values", "join", "startswith", "endswith", "tonumber", "toboolean", "abs",
        "floor", "round", "ceil", "type", "isboolean", "isnumber", "isstring", "isarray", "isobject", "nulls", "booleans", "numbers", "strings",
        "arrays", "objects", "values", "iterables", "scalars", "isnan", "isinfinite", "isfinite", "isnormal", "reverse", "trim", "ltrim", "rtrim",
        "utf8bytelength", "tobytes", "length", "not", "tostring"]


def main():
    run = Run("C12")
    n = run.size(900, 60000)
    per = 12
    tasks = [(run.seed, i, per, "verif" if i % 3 else "release") for i in range(max(2, n // per))]
    evals = nontrivial = 0
    by = {}
    distinct = Distinct()
    samples = Samples(8, run.rng("s"))
    for out in par.pmap(task, tasks, run.jobs):
        for key, w in out["viol"]:
            run.violation(key, w)
        for k, m in out["inconc"].items():
            run.inconc(k, m)
        evals += out["evals"]
        nontrivial += out["nontrivial"]
        for k, m in out["by"].items():
            by[k] = by.get(k, 0) + m
        for d in out["distinct"]:
            distinct.add(d)
        for s in out["samples"]:
            samples.add(s)
    # coverage of the standard library of the current tree
    names = []
    try:
        nat = par.client("verif").request({"op": "natives"})
        names = sorted({n_[0] for n_ in nat["natives"]} | {d[0] for d in nat["defs"]})
    except WorkerDied:
        pass
    covered = set(HERE)
    for v in COVERED_ELSEWHERE.values():
        covered |= set(v)
    uncovered = [x for x in names if x not in covered]
    run.finish({
        "evaluations": evals, "distinct_nontrivial": len(distinct),
        "rule": "one evaluation = one (obligation family instance, input): a program computing all measurements (both sides of the "
                "manual's equations, verify definitions) plus Python recomputation of relational invariants; distinct = (family, instance "
                "parameter, input shape); non-trivial = input in the obligation's documented domain with >= 2 elements where it matters",
        "samples": samples.items, "evaluations_by_family": by, "nontrivial": nontrivial,
        "obligation_names": ["K01 sort/sort_by stable", "K02 group_by maximal runs", "K03 unique_by", "K04 min/max_by extremal", "K05 keys",
                        "K06 entries identity + key order", "K07 indices", "K08 index/rindex", "K09 contains/inside", "K10 has/in",
                        "K11 flatten", "K12 transpose verify", "K13 combinations", "K14 bsearch", "K15 walk", "K16 del/delpaths",
                        "K17 paths", "K18 pick", "K19 map/map_values", "K20 join", "K21 split/1", "K22 trimstr/starts/endswith",
                        "K23 tonumber/toboolean", "K24 abs", "K25 floor/round/ceil", "K26 type/is*/selectors", "K27 reverse", "K28 trim",
                        "K29 utf8bytelength/tobytes"],
        "stdlib_names_of_current_tree": len(names), "names_without_obligation_in_any_check": uncovered,
    }, assumptions=[
        "equations compare two computations of the same binary; relational invariants use vlib.values' reading of the manual's order",
        "obligations are judged on the documented domain only (e.g. indices with non-empty needles, flatten on arrays with depth >= 0)",
    ])


if __name__ == "__main__":
    main()
