"""C03 — streams are produced on demand; consumers of a prefix never run the rest.

Effect-trace monitor. Stream producers E are generated with effect markers (`bomb($id)`, a
native added through the public extension API: logs its id; inert unless armed) at generated
positions. jqref, run with inert markers, records for every firing of every marker how many
outputs of E had been delivered before it (the left-to-right semantics). Then the real
interpreter runs
  * E itself, pulled one output at a time (the library iterator): the effect log, the number
    of inputs pulled and the tick count at the moment output k is delivered must not exceed
    what the semantics allows for k -- for every k at once;
  * every prefix consumer wrapped around E for cuts k: first, limit, nth, isempty, any/all,
    label/break, //, first(skip), halt after k outputs, array of a limited stream;
  * the same consumers with the markers that lie behind the cut ARMED to raise an error, halt,
    or consume an input: the consumer's result must be unchanged.
Only "no more than the semantics allows" is demanded; evaluating less or later is never an
alarm, and the order among effects that are all due before output k is not compared."""
import os
import random
import subprocess
import sys
import threading
import time

sys.path.insert(0, os.path.dirname(os.path.dirname(os.path.abspath(__file__))))
from jqref import ast as A, interp as I
from jqref.compare import compare, match, show_ref
from vlib import build, par, values as V
from vlib.client import WorkerDied, classify_death
from vlib.codec import dec, enc, show
from vlib.run import Distinct, Run, Samples, with_big_stack

ID = A.ID
n = A.num


class PGen:
    """generator of stream producers with markers"""

    def __init__(self, rng, size):
        self.rng = rng
        self.next_id = 1
        self.next_val = 1
        self.budget = size
        self.infinite = False
        self.uses_inputs = False
        self.kinds = set()

    def marker(self):
        i = self.next_id
        self.next_id += 1
        return ("call", "bomb", (n(i),))

    def val(self):
        v = self.next_val
        self.next_val += 1
        return n(v)

    def marked(self, t):
        """attach a marker before and/or after t"""
        r = self.rng.random()
        if r < 0.45:
            return A.pipe(t, self.marker())            # fires once per output of t, after computing it
        if r < 0.7:
            return A.pipe(self.marker(), t)            # fires when t starts
        if r < 0.8:
            return A.pipe(self.marker(), A.pipe(t, self.marker()))
        return t

    def prod(self, depth=0):
        self.budget -= 1
        if self.budget <= 0 or depth > 5:
            return self.marked(self.val())
        k = self.rng.choice(["leaf", "comma", "comma", "comma", "pipe", "iter", "bind", "if", "alt", "try", "foreach",
                             "reduce", "recdef", "repeat", "recurse", "range", "range0", "limit", "first", "param",
                             "label", "pathidx", "error", "inputs", "input", "update", "interp", "obj", "math", "neg",
                             "recinf", "skip", "closure", "and", "pathmode", "pathmode"])
        self.kinds.add(k)
        f = getattr(self, "p_" + k)
        return f(depth + 1)

    def p_leaf(self, d):
        return self.marked(self.val())

    def p_comma(self, d):
        return ("comma", self.prod(d), self.prod(d))

    def p_pipe(self, d):
        return A.pipe(self.prod(d), self.marked(("comma", ("math", "*", ID, n(10)), ("math", "+", ID, n(1000)))))

    def p_iter(self, d):
        # array construction is strict in its body; iteration over it is a stream again
        return self.marked(A.iterate(("arr", ("comma", self.marked(self.val()), self.marked(self.val())))))

    def p_bind(self, d):
        return A.bind(self.prod(d), ("pvar", "$x"), self.marked(("comma", A.var("$x"), ("math", "+", A.var("$x"), n(500)))))

    def p_if(self, d):
        cond = A.pipe(self.marker(), ("comma", A.call("true"), A.call("false")))
        return ("if", ((cond, self.prod(d)),), self.prod(d))

    def p_alt(self, d):
        if self.rng.random() < 0.5:
            return ("alt", self.prod(d), self.prod(d))       # right side never evaluated when left has outputs
        return ("alt", A.pipe(self.marker(), ("comma", A.call("null"), A.call("false"))), self.prod(d))

    def p_try(self, d):
        body = ("comma", self.prod(d), ("comma", A.pipe(self.marker(), ("call", "error", (A.string("e"),))), self.prod(d)))
        if self.rng.random() < 0.5:
            return ("try", body, self.marked(self.val()))
        return ("try", body, None)

    def p_foreach(self, d):
        upd = A.pipe(("math", "+", ID, n(1)), self.marker())
        proj = self.marked(("arr", ("comma", A.var("$x"), ID)))
        return ("fold", "foreach", self.prod(d), ("pvar", "$x"), (n(0), upd, proj))

    def p_reduce(self, d):
        return ("fold", "reduce", self.prod(d), ("pvar", "$x"), (n(0), A.pipe(("math", "+", ID, A.var("$x")), self.marker())))

    def p_recdef(self, d):
        lim = self.rng.choice(["2", "3", "4"])
        body = ("if", ((("cmp", "<", ID, n(lim)), ("comma", self.marked(ID), A.pipe(("math", "+", ID, n(1)), A.call("r")))),), A.call("empty"))
        return ("def", (("r", (), body),), A.pipe(n(0), A.call("r")))

    def p_recinf(self, d):
        self.infinite = True
        body = ("comma", A.pipe(ID, A.call("tick")), A.pipe(A.pipe(("math", "+", ID, n(1)), self.marker()), A.call("r")))
        return ("def", (("r", (), body),), A.pipe(self.val(), A.call("r")))

    def p_repeat(self, d):
        self.infinite = True
        return ("call", "repeat", (A.pipe(A.call("tick"), self.marked(self.val())),))

    def p_recurse(self, d):
        self.infinite = True
        return A.pipe(self.val(), ("call", "recurse", (A.pipe(A.call("tick"), self.marked(("math", "+", ID, n(1)))),)))

    def p_range(self, d):
        return self.marked(("call", "range", (n(0), n(self.rng.choice(["2", "3", "4"])))))

    def p_range0(self, d):
        self.infinite = True
        return A.pipe(("call", "range", (self.val(), n(0), n(0))), A.call("tick"))

    def p_limit(self, d):
        return ("call", "limit", (n(self.rng.choice(["1", "2", "3"])), self.prod(d)))

    def p_skip(self, d):
        return ("call", "skip", (n(self.rng.choice(["0", "1", "2"])), self.prod(d)))

    def p_first(self, d):
        return ("call", self.rng.choice(["first", "first", "last"]), (self.prod(d),))

    def p_param(self, d):
        # a filter parameter is evaluated each time it is used, never when it is not
        body = self.rng.choice([("comma", A.call("f"), A.call("f")), ("comma", self.marked(self.val()), A.call("f")),
                                ("call", "first", (A.call("f"),)), ("comma", A.call("g"), self.marked(self.val()))])
        return ("def", (("m", ("f", "g"), body),), ("call", "m", (self.prod(d), self.prod(d))))

    def p_closure(self, d):
        body = ("comma", A.var("$v"), A.pipe(A.call("f"), ("math", "+", ID, A.var("$v"))))
        return ("def", (("m", ("$v", "f"), body),), ("call", "m", (self.prod(d), self.prod(d))))

    def p_label(self, d):
        return ("label", "$l", ("comma", self.prod(d), ("comma", A.pipe(self.marker(), ("break", "$l")), self.prod(d))))

    def p_pathidx(self, d):
        base = ("arr", ("comma", n(7), ("comma", n(8), n(9))))
        src = self.rng.choice([base, A.pipe(self.marker(), base), ("comma", base, base)])
        idx = A.pipe(self.marker(), self.rng.choice([n(0), ("comma", n(0), n(1)), n(2)]))
        return ("path", src, ((("index", idx), False),))

    # ---- path mode: the same laziness must hold when a filter is run for its paths (path(f), paths, pick ...) ----
    def mmark(self):
        i = self.next_id
        self.next_id += 1
        return ("call", "mark", (n(i),))          # `mark` is transparent for paths (`bomb` is run-only)

    def pmarked(self, t):
        r = self.rng.random()
        if r < 0.4:
            return A.pipe(t, self.mmark())
        if r < 0.75:
            return A.pipe(self.mmark(), t)
        if r < 0.85:
            return A.pipe(self.mmark(), A.pipe(t, self.mmark()))
        return t

    def pp(self, d):
        """a path expression with markers"""
        self.budget -= 1
        leaf = lambda: self.pmarked(self.rng.choice([A.key(ID, "a"), A.key(ID, "b"), A.index(ID, n(0)), A.key(ID, "n", True),
                                                     ("call", "getpath", (("arr", A.string("b")),))]))
        if self.budget <= 0 or d > 4:
            return leaf()
        k = self.rng.choice(["leaf", "comma", "comma", "comma", "pipe", "if", "alt", "first", "limit", "try", "label", "recurse", "bind"])
        if k == "leaf":
            return leaf()
        if k == "comma":
            return ("comma", self.pp(d + 1), self.pp(d + 1))
        if k == "pipe":
            return A.pipe(self.pp(d + 1), self.pmarked(("comma", A.key(ID, "c", True), A.key(ID, "d", True))))
        if k == "if":
            cond = A.pipe(self.mmark(), ("comma", A.call("true"), A.call("false")))
            return ("if", ((cond, self.pp(d + 1)),), self.pp(d + 1))
        if k == "alt":
            return ("alt", self.pp(d + 1), self.pp(d + 1))
        if k == "first":
            return ("call", "first", (self.pp(d + 1),))
        if k == "limit":
            return ("call", "limit", (n(self.rng.choice(["1", "2"])), self.pp(d + 1)))
        if k == "try":
            return ("try", ("comma", self.pp(d + 1), ("comma", A.pipe(self.mmark(), ("call", "error", (A.string("e"),))), self.pp(d + 1))), None)
        if k == "label":
            return ("label", "$p", ("comma", self.pp(d + 1), ("comma", A.pipe(self.mmark(), ("break", "$p")), self.pp(d + 1))))
        if k == "bind":
            return A.bind(("comma", n(0), n(1)), ("pvar", "$i"), self.pmarked(A.pipe(A.key(ID, "x"), A.index(ID, A.var("$i")))))
        return A.pipe(self.pp(d + 1), ("call", "recurse", (self.pmarked(A.key(ID, "c", True)),)))

    def p_pathmode(self, d):
        c = lambda v: ("obj", ((A.string("c"), v), (A.string("d"), A.call("null"))))
        base = ("obj", ((A.string("a"), c(n(1))), (A.string("b"), c(("obj", ((A.string("c"), n(2)),)))), (A.string("n"), A.call("null")),
                        (A.string("x"), ("arr", ("comma", c(n(3)), c(n(4)))))))
        inner = self.pp(0)
        w = self.rng.random()
        if w < 0.75:
            t = ("call", "path", (inner,))
        elif w < 0.9:
            t = ("call", "path", (("call", "first", (inner,)),))
        else:
            t = A.pipe(("call", "path", (inner,)), self.marked(("call", "length", ())))
        return A.pipe(base, t)

    def p_error(self, d):
        return ("comma", self.prod(d), A.pipe(self.marker(), ("call", "error", (A.string("x"),))))

    def p_inputs(self, d):
        self.uses_inputs = True
        self.infinite = True
        if self.rng.random() < 0.5:
            return self.marked(A.call("inputs"))
        return ("fold", "foreach", A.call("inputs"), ("pvar", "$x"), (n(0), A.pipe(("math", "+", ID, A.var("$x")), A.call("tick"))))

    def p_input(self, d):
        self.uses_inputs = True
        return ("comma", self.prod(d), self.marked(A.call("input")))

    def p_update(self, d):
        return A.pipe(("arr", ("comma", n(1), n(2))), ("update", A.iterate(ID), self.marked(("comma", ID, ("math", "+", ID, n(10))))))

    def p_interp(self, d):
        return ("str", None, (("s", "a"), ("t", self.prod(d)), ("s", "-"), ("t", self.marked(("comma", n(1), n(2))))))

    def p_obj(self, d):
        return ("obj", ((("comma", A.string("a"), A.string("b")), self.prod(d)), (A.string("c"), self.marked(("comma", n(1), n(2))))))

    def p_math(self, d):
        return ("math", self.rng.choice(["+", "-"]), self.prod(d), self.marked(("comma", n(1), n(2))))

    def p_neg(self, d):
        return ("neg", self.prod(d))

    def p_and(self, d):
        return (self.rng.choice(["and", "or"]), A.pipe(self.marker(), ("comma", A.call("true"), A.call("false"))),
                A.pipe(self.marker(), ("comma", A.call("false"), A.call("true"))))


def markers_in_path_index(E):
    """marker id -> ids (Python object identities) of the path-expression nodes in whose index / slice-bound
    positions the marker sits (innermost and enclosing ones)"""
    found = {}

    def ids(t, acc):
        if isinstance(t, tuple):
            if len(t) == 3 and t[0] == "call" and t[1] == "bomb":
                acc.add(int(t[2][0][1]))
            for x in t:
                ids(x, acc)

    def go(t):
        if not isinstance(t, tuple):
            return
        if t and t[0] == "path":
            acc = set()
            for part, _opt in t[2]:
                for x in part[1:]:
                    if x is not None:
                        ids(x, acc)
            for m in acc:
                found.setdefault(m, set()).add(id(t))
        for x in t:
            go(x)
    go(E)
    return found


def within_known_deviation(marker, fired, allowed, k, in_index, entries):
    """The known finding C03-path-index-on-entry, made exact: jaq evaluates the index filters of `f[x]` when the
    path expression is *entered* (once, before and regardless of the outputs of `f`) in addition to what the
    documented expansion does. So a marker in an index position may fire, before output k, at most
    (reference firings before k) + (reference entries of its enclosing path expressions before k) times.
    Anything beyond that - in particular a path expression that is itself entered too early - is not covered."""
    nodes = in_index.get(marker)
    if not nodes:
        return False
    n_entries = sum(1 for node, idx in entries if node in nodes and idx < k)
    return fired <= allowed + n_entries


INPUT_STREAM = [11, 22, 33, 44, 55]
MAXOUT = 14


def ref_run(E, take, inputs_cycle):
    it = I.Interp(fuel=80000, inputs=(endless(INPUT_STREAM) if inputs_cycle else list(INPUT_STREAM)))
    try:
        outs, end = it.main(E, None, take)
    except (I.Fuel, RecursionError):
        return None
    except V.Unspecified:
        return None
    return outs, end, list(it.fx), list(it.trace), it


def endless(xs):
    while True:
        for x in xs:
            yield x


def allowed_counts(fx, k):
    """marker id -> number of firings the semantics orders before the k-th output is delivered"""
    out = {}
    for ident, idx in fx:
        if idx < k:
            out[ident] = out.get(ident, 0) + 1
    return out


def check_log(fired_ids, allowed):
    """returns the marker that fired more often than allowed, or None"""
    seen = {}
    for i in fired_ids:
        seen[i] = seen.get(i, 0) + 1
    for i, c in seen.items():
        if c > allowed.get(i, 0):
            return i, c, allowed.get(i, 0)
    return None


def consumers(E, k, outs):
    """(name, term, expected outputs, expected end, consumed) for cut k (1 <= k <= len(outs))"""
    vk = outs[k - 1]
    cs = []
    lim = ("call", "limit", (n(k), E))
    cs.append(("limit", lim, outs[:k], ("end",), k))
    cs.append(("nth", ("call", "nth", (n(k - 1), E)), [vk], ("end",), k))
    cs.append(("first-skip", ("call", "first", (("call", "skip", (n(k - 1), E)),)), [vk], ("end",), k))
    cs.append(("array-of-limit", ("arr", lim), [list(outs[:k])], ("end",), k))
    cs.append(("limit-then-halt", ("comma", lim, A.call("halt")), outs[:k], ("halt", 0), k))
    cs.append(("label-break", ("label", "$out", ("fold", "foreach", E, ("pvar", "$x"),
                                                 (n(0), ("math", "+", ID, n(1)),
                                                  ("comma", A.var("$x"), ("if", ((("cmp", ">=", ID, n(k)), ("break", "$out")),), A.call("empty")))))),
               outs[:k], ("end",), k))
    if k == 1:
        cs.append(("first", ("call", "first", (E,)), [vk], ("end",), 1))
        cs.append(("isempty", ("call", "isempty", (E,)), [False], ("end",), 1))
        cs.append(("alt-first", ("call", "first", (("alt", A.pipe(E, ("arr", ID)), n(0)),)), [[vk]], ("end",), 1))
    # any/all stop at the first decisive output: usable when the k-th output is the first equal to itself
    if all(not same(vk, o) for o in outs[:k - 1]) and simple(vk):
        lit = literal(vk)
        if lit is not None:
            cs.append(("any", ("call", "any", (E, ("cmp", "==", ID, lit))), [True], ("end",), k))
            cs.append(("all", ("call", "all", (E, ("cmp", "!=", ID, lit))), [False], ("end",), k))
    return cs


def same(a, b):
    try:
        return V.eq(a, b)
    except Exception:
        return False


def simple(v):
    return isinstance(v, int) and not isinstance(v, bool)


def literal(v):
    if isinstance(v, bool) or not isinstance(v, int):
        return None
    return n(v) if v >= 0 else ("neg", n(-v))


def task(t):
    seed, idx, count, size, profile = t
    rng = random.Random(f"c03/{seed}/{idx}")
    c = par.client(profile)
    out = {"viol": [], "inconc": {}, "evals": 0, "nontrivial": 0, "distinct": set(), "samples": [], "kinds": {},
           "consumers": {}, "armed": 0, "skipped": 0, "infinite": 0}

    def inc(d, k, m=1):
        d[k] = d.get(k, 0) + m

    def report(kind, E, extra):
        text = A.render(E, "min")
        w = {"producer": text, "profile": profile}
        w.update(extra)
        if "marker" in extra and within_known_deviation(extra["marker"], extra["fired"], extra["allowed"], extra.get("k", 1 << 30),
                                                          cur["in_index"], cur["entries"]):
            # call site: the effect sits in the index position of a path expression `f[x]` and fired no more often
            # than entering that path expression (as the reference does) explains
            key = "path-index-evaluated-on-entry"
        else:
            key = "%s:%s" % (kind, "+".join(sorted(extra.get("_kinds", [])))[:80])
        out["viol"].append((key, w))

    cur = {"in_index": {}, "entries": []}
    for _ in range(count):
        g = PGen(rng, size)
        E = A.normalize(g.prod())
        r = ref_run(E, MAXOUT, g.uses_inputs and g.infinite)
        if r is None:
            out["skipped"] += 1
            continue
        outs, end, fx, trace, it = r
        if I.has_taint(outs) or any(I.has_taint(o) for o in outs):
            out["skipped"] += 1
            continue
        for k in g.kinds:
            inc(out["kinds"], k)
        if g.infinite:
            out["infinite"] += 1
        text = A.render(E, "min")
        cyc = g.uses_inputs and g.infinite
        base_case = {"input": None, "inputs": [enc(x) for x in INPUT_STREAM], "repeat_inputs": cyc}
        kinds = sorted(g.kinds)
        in_index_nodes = markers_in_path_index(E)
        in_index = set(in_index_nodes)
        cur["in_index"], cur["entries"] = in_index_nodes, list(it.entries)
        # ---- (1) the library iterator: pull one by one, all cuts at once ------------------------
        try:
            resp = c.eval(text, [dict(base_case, take=len(outs) + (0 if end[0] == "cut" else 1))], timeout=40)
        except WorkerDied as e:
            inc(out["inconc"], classify_death(e))
            continue
        if "results" not in resp:
            report("compile", E, {"response": str(resp)[:300], "_kinds": kinds})
            continue
        res = resp["results"][0]
        out["evals"] += 1
        why = compare(outs, end if end[0] != "cut" else ("prefix",), res)
        if why is not None:
            report("stream", E, {"why": why, "expected": [show_ref(o) for o in outs], "expected_end": str(end),
                                 "got": str(res)[:500], "_kinds": kinds})
            continue
        fired = [int(x["i"]) for x in res["fx"]]
        for k in range(1, len(res["outs"]) + 1):
            fxlen, pulled, ticks = res["outs"][k - 1][1:4]
            bad = check_log(fired[:fxlen], allowed_counts(fx, k))
            if bad:
                report("eager:iterator", E, {"k": k, "marker": bad[0], "fired": bad[1], "allowed": bad[2],
                                             "reference_firings(marker,outputs_before)": fx[:20], "_kinds": kinds})
                break
            if pulled > trace[k - 1][1]:
                report("eager-input:iterator", E, {"k": k, "pulled": pulled, "allowed": trace[k - 1][1], "_kinds": kinds})
                break
            if ticks > trace[k - 1][2]:
                report("eager-ticks:iterator", E, {"k": k, "ticks": ticks, "allowed": trace[k - 1][2], "_kinds": kinds})
                break
        if end[0] != "cut":
            # whole stream consumed: the total effects must not exceed the reference's either
            bad = check_log(fired, allowed_counts(fx, 1 << 30))
            if bad:
                report("extra-effects:iterator", E, {"marker": bad[0], "fired": bad[1], "allowed": bad[2], "_kinds": kinds})
        if fx and outs:
            out["nontrivial"] += 1
            out["distinct"].add("iterator:" + ",".join(kinds))
        # ---- (2) prefix consumers, inert and armed -------------------------------------------
        if not outs:
            continue
        ks = sorted(set([1, len(outs)] + [rng.randrange(1, len(outs) + 1) for _ in range(2)]))
        for k in ks:
            allowed = allowed_counts(fx, k)
            behind = sorted(({ident for ident, idx_ in fx if idx_ >= k and allowed.get(ident, 0) == 0}
                             | ({i for i in range(1, g.next_id)} - {ident for ident, _ in fx})) - in_index)
            for (cname, term, exp_outs, exp_end, _k) in consumers(E, k, outs):
                ctext = A.render(term, "min")
                cases = [dict(base_case, take=len(exp_outs) + 1)]
                modes = ["inert"]
                if behind:
                    for mode in ("error", "halt", "input"):
                        pick = rng.sample(behind, min(len(behind), 3))
                        cases.append(dict(base_case, take=len(exp_outs) + 1, arm={str(i): mode for i in pick}))
                        modes.append(mode)
                try:
                    resp = c.eval(ctext, cases, timeout=40)
                except WorkerDied as e:
                    inc(out["inconc"], classify_death(e))
                    continue
                if "results" not in resp:
                    report("compile", E, {"consumer": ctext, "response": str(resp)[:300], "_kinds": kinds})
                    continue
                for mode, res in zip(modes, resp["results"]):
                    out["evals"] += 1
                    inc(out["consumers"], cname)
                    if mode != "inert":
                        out["armed"] += 1
                    why = compare(exp_outs, exp_end, res)
                    if why is not None:
                        report("consumer:%s:%s" % (cname, mode), E, {"consumer": ctext, "k": k, "why": why, "armed": mode,
                                                                   "expected": [show_ref(o) for o in exp_outs],
                                                                   "got": str(res)[:500], "_kinds": kinds})
                        continue
                    fired = [int(x["i"]) for x in res["fx"]]
                    bad = check_log(fired, allowed)
                    if bad:
                        report("eager:%s" % cname, E, {"consumer": ctext, "k": k, "marker": bad[0], "fired": bad[1],
                                                       "allowed": bad[2], "armed": mode,
                                                       "reference_firings(marker,outputs_before)": fx[:20], "_kinds": kinds})
                        continue
                    if mode == "inert" and res["pulled"] > trace[k - 1][1]:
                        report("eager-input:%s" % cname, E, {"consumer": ctext, "k": k, "pulled": res["pulled"],
                                                             "allowed": trace[k - 1][1], "_kinds": kinds})
                    out["distinct"].add("%s:%s:%s" % (cname, mode, ",".join(kinds)))
        if len(out["samples"]) < 2:
            out["samples"].append({"producer": text, "outputs": [show_ref(o) for o in outs][:6], "end": str(end),
                                   "reference_firings(marker,outputs_before)": fx[:12]})
    out["distinct"] = list(out["distinct"])
    return out


# ---- the command line as consumer: endless stdin, bounded consumption ---------------------------

CLI_CASES = [
    (["-n", "first(inputs)"], "1\n"),
    (["-n", "[limit(3; inputs)] | length"], "3\n"),
    (["first(., inputs)"], "1\n1\n1\n"),       # main loop: three inputs, then we stop feeding? (see feeder)
    (["-n", "limit(2; repeat(7))"], "7\n7\n"),
    (["-n", "first(range(0; 1; 0))"], "0\n"),
    (["-n", "label $l | inputs | ., break $l"], "1\n"),
    (["-n", "isempty(inputs)"], "false\n"),
    (["-n", "nth(5; inputs)"], "1\n"),
    (["-n", "first(inputs, error)"], "1\n"),
    (["-n", "input, halt"], "1\n"),
]


def cli_case(jaq, args, expect, limit_bytes=64 << 20):
    """feeds an endless stream of `1`s; the process must finish after reading a bounded amount"""
    p = subprocess.Popen([jaq] + args, stdin=subprocess.PIPE, stdout=subprocess.PIPE, stderr=subprocess.PIPE,
                         env={"PATH": os.environ.get("PATH", ""), "HOME": "/tmp", "TZ": "UTC", "NO_COLOR": "1"})
    written = [0]
    main_loop = not (args and args[0] == "-n")

    def feed():
        chunk = b"1\n" * 4096
        try:
            if main_loop:
                p.stdin.write(b"1\n1\n1\n")
                p.stdin.close()
                return
            while written[0] < limit_bytes:
                p.stdin.write(chunk)
                written[0] += len(chunk)
        except (BrokenPipeError, OSError):
            pass
        try:
            p.stdin.close()
        except Exception:
            pass
    th = threading.Thread(target=feed, daemon=True)
    th.start()
    t0 = time.time()
    while p.poll() is None and written[0] < limit_bytes and time.time() - t0 < 120:
        time.sleep(0.01)
    if p.poll() is None:
        unbounded = written[0] >= limit_bytes
        p.kill()
        p.wait()
        return ("unbounded" if unbounded else "watchdog"), written[0], b"", b""
    out = p.stdout.read()
    err = p.stderr.read()
    return "done", written[0], out, err


INCREMENTAL = [
    # (args, bytes fed while stdin stays OPEN, output that must arrive before anything more is fed)
    (["-c", "."], b"1 \n", b"1\n"),
    (["-n", "-c", "inputs"], b"1 \n", b"1\n"),
    (["-c", "[., input]"], b"1 \n2 \n", b"[1,2]\n"),
    (["-n", "-c", "first(inputs)"], b"7 \n", b"7\n"),
    (["-c", "--to", "yaml", "."], b"1 \n", b"---\n1\n...\n"),
    (["-r", "."], b"\"a\" \n", b"a\n"),
]


def incremental_case(jaq, args, feed, expect):
    """The command line as incremental consumer: stdin stays open; output k must be delivered
    while jaq waits for input k+1. Verdict on logical state, not on time: 'violated' only if the
    process sits in read(0, ...) (waiting for more input) several polls in a row while the
    expected output has not arrived; a plain timeout is inconclusive."""
    import select
    p = subprocess.Popen([jaq] + args, stdin=subprocess.PIPE, stdout=subprocess.PIPE, stderr=subprocess.PIPE,
                         env={"PATH": os.environ.get("PATH", ""), "HOME": "/tmp", "TZ": "UTC", "NO_COLOR": "1"})
    try:
        p.stdin.write(feed)
        p.stdin.flush()
        got = b""
        blocked = 0
        t0 = time.time()
        while time.time() - t0 < 90:
            r, _, _ = select.select([p.stdout], [], [], 0.25)
            if r:
                chunk = os.read(p.stdout.fileno(), 4096)
                if not chunk:
                    break
                got += chunk
                if got.startswith(expect) or not expect.startswith(got):
                    break
                continue
            if p.poll() is not None:
                break
            try:
                sc = open("/proc/%d/syscall" % p.pid).read().split()
                # x86-64: syscall 0 = read, first argument = fd
                if sc and sc[0] == "0" and len(sc) > 1 and int(sc[1], 16) == 0:
                    blocked += 1
                else:
                    blocked = 0
            except (OSError, ValueError):
                blocked = 0
            if blocked >= 8:
                return "withheld", got
        if got.startswith(expect):
            return "delivered", got
        if blocked >= 8:
            return "withheld", got
        return ("wrong" if got and not expect.startswith(got) else "watchdog"), got
    finally:
        try:
            p.stdin.close()
        except Exception:
            pass
        try:
            p.wait(timeout=20)
        except Exception:
            p.kill()


def main():
    run = Run("C03")
    nprod = run.size(2500, 40000)
    per = 25
    tasks = []
    for i in range(max(2, nprod // per)):
        tasks.append((run.seed, i, per, 8 if i % 2 else 14, "verif" if i % 4 else "release"))
    evals = nontrivial = armed = skipped = infinite = 0
    kinds, cons = {}, {}
    distinct = Distinct()
    samples = Samples(8, run.rng("s"))
    for out in par.pmap(task, tasks, run.jobs):
        for key, w in out["viol"]:
            w.pop("_kinds", None)
            run.violation(key, w)
        for k, m in out["inconc"].items():
            run.inconc(k, m)
        evals += out["evals"]
        nontrivial += out["nontrivial"]
        armed += out["armed"]
        skipped += out["skipped"]
        infinite += out["infinite"]
        for k, m in out["kinds"].items():
            kinds[k] = kinds.get(k, 0) + m
        for k, m in out["consumers"].items():
            cons[k] = cons.get(k, 0) + m
        for d in out["distinct"]:
            distinct.add(d)
        for s in out["samples"]:
            samples.add(s)
    # command line
    jaq = build.cli()
    cli = {}
    for args, expect in CLI_CASES:
        status, nbytes, so, se = cli_case(jaq, args, expect)
        cli[" ".join(args)] = {"status": status, "bytes_fed": nbytes}
        evals += 1
        if status == "unbounded":
            run.violation("cli:unbounded-input:" + args[-1], {"args": args, "bytes_consumed_without_finishing": nbytes})
        elif status == "watchdog":
            run.inconc("cli-watchdog")
        elif so.decode("utf-8", "replace") != expect:
            run.violation("cli:output:" + args[-1], {"args": args, "expected": expect, "stdout": so.decode("utf-8", "replace")[:200],
                                                     "stderr": se.decode("utf-8", "replace")[:200]})
        else:
            distinct.add("cli:" + args[-1])
    for args, feed, expect in INCREMENTAL:
        status, got = incremental_case(jaq, args, feed, expect)
        cli["incremental: " + " ".join(args)] = {"status": status}
        evals += 1
        if status == "withheld":
            run.violation("cli:output-withheld-while-waiting-for-input:" + " ".join(args),
                          {"args": args, "fed": feed.decode(), "expected_before_more_input": expect.decode(),
                           "received": got.decode("utf-8", "replace"), "state": "process blocked in read(0) with stdin open"})
        elif status == "wrong":
            run.violation("cli:incremental-output:" + " ".join(args), {"args": args, "expected": expect.decode(), "received": got.decode("utf-8", "replace")})
        elif status == "watchdog":
            run.inconc("cli-watchdog")
        else:
            distinct.add("cli-incremental:" + " ".join(args))
    run.finish({
        "evaluations": evals, "distinct_nontrivial": len(distinct),
        "rule": "stream producers with effect markers at generated positions x consumer x cut k x arming mode; distinct = "
                "(consumer, arming mode, set of producer kinds); non-trivial = the reference fired at least one marker and "
                "delivered at least one output",
        "samples": samples.items, "producers_with_effects_and_outputs": nontrivial, "armed_runs": armed,
        "producer_kinds": kinds, "consumer_runs": cons, "infinite_producers": infinite, "reference_skipped": skipped,
        "cli_cases": cli,
    }, assumptions=[
        "jqref's generator-based evaluation order is the manual's left-to-right semantics",
        "only 'no more than allowed before output k' is demanded; order among earlier effects is not compared",
    ])


if __name__ == "__main__":
    with_big_stack(main)
