"""C19 — a compiled filter is immutable shared data: concurrent runs equal isolated runs.

Three detectors over the real crates (helper `jaqmon threads`, harness/src/threads.rs):

 (1) stress + output comparison: every program of a generated workload is compiled ONCE; the
     isolated outcome of every (program, input) is computed twice (determinism); then T threads
     x R repetitions run all pairs on the shared compiled filters (own context per run, seeded
     yield/sleep jitter between pulls, shuffled or lock-step order, optionally a thread that
     compiles and runs the programs meanwhile, optionally — build with `jaq-json/sync` — the
     very same Arc-backed inputs and global variables handed to all threads). Every concurrent
     outcome must equal the isolated one; afterwards the isolated outcomes are recomputed in
     reverse order and shared values must be unchanged. T in {2, 4, 16, 64}, both builds.
 (2) the same helper instrumented by ThreadSanitizer (std rebuilt with -Zbuild-std) on a
     smaller workload: any data-race report is a violation.
 (3) a tiny workload under Miri with several scheduler seeds (UB / data races in the unsafe code
     of dependencies, weak-memory emulation).

The static half (`Filter: Send + Sync`, with `sync` also `Val: Send + Sync`) is asserted at
compile time in the helper: if it stops holding, the helper does not build (broken run with the
compiler's message, see build log) — reported as violation `static:send-sync` when the compiler
names the assertion."""
import json
import os
import re
import shutil
import signal
import subprocess
import sys
import tempfile
import threading
import time

sys.path.insert(0, os.path.dirname(os.path.dirname(os.path.abspath(__file__))))
from vlib import build, c19_build, c19_gen as G
from vlib.client import WorkerDied, classify_death
from vlib.codec import enc, show
from vlib.run import Distinct, Run, Samples

TAKE = 64
STRESS_TIMEOUT = 420     # s per helper invocation; only ever yields "inconclusive"
TSAN_TIMEOUT = 600
MIRI_TIMEOUT = {"quick": 1500, "thorough": 4200}
TSAN_LOG_CAP = 1 << 20   # bytes of report text after which an instrumented run is stopped (it has shown enough)
SCRATCH = None


def scratch():
    global SCRATCH
    if SCRATCH is None:
        SCRATCH = tempfile.mkdtemp(prefix="c19-")
    return SCRATCH


# ---- workload ------------------------------------------------------------------------------
def screen_one(c, p):
    """one program, isolated, in the ordinary serve helper with a watchdog: programs that do not
    finish (or kill the worker) are kept out of the threaded workloads"""
    try:
        r = c.eval(p["prog"], [{"input": v} for v in p["wire"]["inputs"]], vars=[(n, v) for n, v in p["wire"]["vars"]],
                   take=TAKE, timeout=30)
    except WorkerDied as e:
        return "screen:" + classify_death(e)
    if "results" not in r:
        return "compile-error" if "compile_error" in r else "screen:compile-panic"
    if any("panic" in x for x in r["results"]):
        return "panics-in-isolation"
    return "ok"


def make_workload(run, salt, rounds, n_random, inputs, miri=False):
    progs = G.workload(run.rng("workload", salt), rounds, n_random, inputs, miri=miri)
    w = G.wire(progs)
    for p, q in zip(progs, w):
        p["wire"] = q
    return progs


def screen(run, progs, stats, helper):
    """NB: driver threads + subprocesses only (no fork of this process: a forked child would
    inherit an open build-lock descriptor and dead-lock every build in /verif)"""
    from vlib.client import Jaqmon
    res = [None] * len(progs)
    it = iter(range(len(progs)))
    lock = threading.Lock()

    def worker():
        c = Jaqmon(path=helper, mem_gb=4, stack_mb=256)
        try:
            while True:
                with lock:
                    i = next(it, None)
                if i is None:
                    return
                res[i] = screen_one(c, progs[i])
        finally:
            c.stop()
    ths = [threading.Thread(target=worker) for _ in range(max(1, min(8, run.jobs)))]
    for th in ths:
        th.start()
    for th in ths:
        th.join()
    keep = []
    for i, p in enumerate(progs):
        st = res[i] or "screen:driver-error"
        stats[st] = stats.get(st, 0) + 1
        if st.startswith("screen:"):
            run.inconc(st)
        else:
            keep.append(p)
    return keep


# ---- running the helper ----------------------------------------------------------------------
def write_request(progs, cfg, name):
    req = dict(cfg)
    req["programs"] = [p["wire"] for p in progs]
    path = os.path.join(scratch(), name)
    with open(path, "w") as f:
        json.dump(req, f)
    return path


def run_helper(cmd, timeout, env=None, cwd=None, watch=None):
    """-> dict(status ok|died|timeout|log-cap, rc, out, err, wall); watch = (log path prefix, cap
    in bytes): the process is stopped once its sanitizer log exceeds the cap"""
    t0 = time.time()
    e = dict(os.environ)
    e.setdefault("TZ", "UTC")
    if env:
        e.update(env)
    out_path = os.path.join(scratch(), "out-%d-%d.txt" % (os.getpid(), threading.get_ident()))
    with open(out_path, "w") as fo, open(out_path + ".err", "w") as fe:
        p = subprocess.Popen(cmd, stdout=fo, stderr=fe, env=e, cwd=cwd, start_new_session=True)
        status = None
        while status is None:
            try:
                rc = p.wait(timeout=1.0 if watch else max(0.1, timeout - (time.time() - t0)))
                status = "ok"
            except subprocess.TimeoutExpired:
                if time.time() - t0 >= timeout:
                    status = "timeout"
                elif watch:
                    d, pre = os.path.split(watch[0])
                    size = sum(os.path.getsize(os.path.join(d, fn)) for fn in os.listdir(d) if fn.startswith(pre + "."))
                    if size > watch[1]:
                        status = "log-cap"
        if status != "ok":
            try:
                os.killpg(p.pid, signal.SIGKILL)
            except Exception:
                p.kill()
            rc = p.wait()
    out = open(out_path, errors="replace").read()
    err = open(out_path + ".err", errors="replace").read()
    if status == "ok" and rc < 0:
        status = "died"
    return {"status": status, "rc": rc, "out": out, "err": err, "wall": time.time() - t0}


def summaries(text):
    out = []
    for line in text.splitlines():
        if line.startswith("{") and '"runs"' in line:
            try:
                out.append(json.loads(line))
            except ValueError:
                pass
    return out


def signame(rc):
    try:
        return signal.Signals(-rc).name
    except Exception:
        return str(rc)


def neighbourhood(progs, pi, cap=40):
    """the failing program plus the programs of the same family group (a wrong result often
    needs *another* program of the group to run concurrently), for a self-contained replay"""
    grp = progs[pi]["family"].split(".")[0]
    idx = [pi] + [i for i, p in enumerate(progs) if i != pi and p["family"].split(".")[0] == grp]
    return idx[:cap]


def judge(run, s, progs, cfg, detector, acc):
    """verdicts from one helper summary"""
    def witness(m, kind):
        pi = m["prog"]
        idx = neighbourhood(progs, pi)
        w = {"detector": detector, "kind": kind, "program": progs[pi]["prog"], "family": progs[pi]["family"],
             "thread": m.get("thread"), "expected": m.get("expected", m.get("first")), "got": m.get("got", m.get("second")),
             "cfg": cfg, "replay_programs": [progs[i]["wire"] for i in idx], "replay_families": [progs[i]["family"] for i in idx]}
        ii = m.get("input")
        if ii is not None:
            w["input"] = show(progs[pi]["inputs"][ii])
            w["input_wire"] = progs[pi]["wire"]["inputs"][ii]
        return w
    for m in s.get("nondeterministic", []):
        run.violation("nondeterministic-in-isolation:%s" % progs[m["prog"]]["family"], witness(m, "nondeterministic"))
    for m in s.get("mismatch_samples", []):
        fam = progs[m["prog"]]["family"]
        if m.get("input") is None:
            run.violation("compile-differs-while-running:%s" % fam, witness(m, "compile"))
        else:
            run.violation("concurrent-differs-from-isolated:%s" % fam, witness(m, "mismatch"))
    if s.get("mismatches", 0) and not s.get("mismatch_samples"):
        run.violation("concurrent-differs-from-isolated:?", {"detector": detector, "cfg": cfg, "summary": s})
    for m in s.get("post_mismatch_samples", []):
        run.violation("isolated-after-differs:%s" % progs[m["prog"]]["family"], witness(m, "after"))
    for m in s.get("shared_changed", []):
        run.violation("shared-value-changed:%s" % progs[m["prog"]]["family"], witness(m, "shared"))
    if s.get("thread_panics", 0) or s.get("compiler_panicked"):
        run.inconc("helper-thread-panicked")
    for k in ("runs", "pulls", "switches", "overlapped_runs", "completion_switches", "isolated_runs", "compiled_during",
              "shared_checked", "mismatches", "post_mismatches"):
        acc[k] = acc.get(k, 0) + int(s.get(k, 0))
    acc["max_concurrent"] = max(acc.get("max_concurrent", 0), s.get("max_concurrent", 0))
    acc["completion_orders"] = acc.get("completion_orders", 0) + s.get("completion_orders", 0)
    acc["reps_total"] = acc.get("reps_total", 0) + s.get("reps", 0)
    for k, v in s.get("outcome_classes", {}).items():
        acc.setdefault("outcome_classes", {})
        acc["outcome_classes"][k] = max(acc["outcome_classes"].get(k, 0), v)
    acc["isolated_panics"] = max(acc.get("isolated_panics", 0), len(s.get("isolated_panics", [])))


# ---- detector 1: stress + output comparison ----------------------------------------------------
def stress_configs(run, chunk):
    """(build, T, R, jitter, lockstep, compile_during, share_values)"""
    k = run.size(1, 3)
    base = [
        ("release", 2, 10 * k, 2, True, True, False),
        ("release", 4, 6 * k, 1, False, False, False),
        ("release", 16, 3 * k, 2, True, True, False),
        ("release", 64, 1 * k, 3, False, False, False),
        ("sync", 2, 10 * k, 1, False, True, True),
        ("sync", 4, 6 * k, 2, True, False, True),
        ("sync", 16, 3 * k, 0, False, True, True),
        ("sync", 64, 1 * k, 2, True, False, True),
        ("sync", 16, 2 * k, 1, True, False, False),
    ]
    # vary what is combined with what from chunk to chunk
    if chunk % 2 == 1:
        base = [(b, t, r, (j + 1) % 4, not ls, not cd, sh) for (b, t, r, j, ls, cd, sh) in base]
    return base


def stress_one(run, bins, progs, c, chunk, ci, acc, per_t):
    b, t, r, j, ls, cd, sh = c
    cfg = {"threads": t, "reps": r, "seed": run.seed * 1000 + chunk * 37 + ci, "jitter": j, "take": TAKE,
           "lockstep": ls, "compile_during": cd, "share_values": sh, "build": b}
    if run.violations:
        acc["skipped_after_first_violation"] = acc.get("skipped_after_first_violation", 0) + 1
        return
    path = write_request(progs, cfg, "stress-%d-%d.json" % (chunk, ci))
    res = run_helper([bins[b], "threads", path], timeout=STRESS_TIMEOUT)
    if res["status"] == "died" and res["rc"] in (-signal.SIGSEGV, -signal.SIGABRT, -signal.SIGBUS, -signal.SIGILL):
        # A crash of the concurrent phase is a refutation only if it is reproducible and the
        # single-threaded execution of the very same request is fine (then it is not resource
        # exhaustion of an individual run: worker threads have a *larger* stack than the main
        # thread that computed the isolated baseline).
        again = run_helper([bins[b], "threads", path], timeout=STRESS_TIMEOUT)
        cfg1 = dict(cfg, threads=1, compile_during=False)
        path1 = write_request(progs, cfg1, "stress-%d-%d-single.json" % (chunk, ci))
        single = run_helper([bins[b], "threads", path1], timeout=STRESS_TIMEOUT)
        if again["status"] == "died" and single["status"] == "ok" and single["rc"] == 0 and summaries(single["out"]):
            run.violation("crash-under-concurrency:%s" % signame(res["rc"]),
                          {"detector": "stress", "kind": "crash", "cfg": cfg, "signal": signame(res["rc"]),
                           "stderr": res["err"][-1500:], "single_threaded_run": "completed",
                           "replay_programs": [p["wire"] for p in progs][:400]})
        else:
            run.inconc("stress:helper-died:" + signame(res["rc"]))
        return
    if res["status"] != "ok" or res["rc"] != 0:
        run.inconc("stress:helper-%s" % res["status"] if res["status"] != "ok" else "stress:helper-exit-%s" % res["rc"])
        run.notes.append("stress helper %s rc=%s cfg=%s stderr=%s" % (res["status"], res["rc"], cfg, res["err"][-300:]))
        return
    ss = summaries(res["out"])
    if not ss:
        run.inconc("stress:no-summary")
        return
    judge(run, ss[0], progs, cfg, "stress", acc)
    pt = per_t.setdefault(str(t), {"invocations": 0, "runs": 0, "overlapped_runs": 0, "switches": 0})
    pt["invocations"] += 1
    pt["runs"] += ss[0]["runs"]
    pt["overlapped_runs"] += ss[0]["overlapped_runs"]
    pt["switches"] += ss[0]["switches"]
    acc["invocations"] = acc.get("invocations", 0) + 1


def detector_stress(run, bins, chunks, acc, per_t):
    t0 = time.time()
    for chunk, progs in enumerate(chunks):
        cfgs = stress_configs(run, chunk)
        # two invocations at a time: the oversubscription makes the OS preempt inside natives
        lock = threading.Lock()
        it = iter(list(enumerate(cfgs)))

        def worker():
            while True:
                with lock:
                    nxt = next(it, None)
                if nxt is None:
                    return
                stress_one(run, bins, progs, nxt[1], chunk, nxt[0], acc, per_t)
        ths = [threading.Thread(target=worker) for _ in range(2)]
        for th in ths:
            th.start()
        for th in ths:
            th.join()
    return time.time() - t0


# ---- detector 2: ThreadSanitizer ---------------------------------------------------------------
HASH = re.compile(r"::h[0-9a-f]{16}\b")
ACCESS = re.compile(r"^\s+((?:Previous )?(?:[Aa]tomic )?(?:[Ww]rite|[Rr]ead)) of size (\d+)")
FRAME = re.compile(r"^\s+#(\d+)\s+(.*?)\s*$")
STD_CRATES = {"std", "core", "alloc", "__rustc", "compiler_builtins", "panic_unwind", "panic_abort", "unwind", "proc_macro",
              "std_detect", "hashbrown_std", "rustc_demangle", "addr2line", "gimli", "object", "miniz_oxide", "adler2"}
JAQ_CRATES = {"jaq_core", "jaq_std", "jaq_json", "jaq_fmts", "jaq_all", "jaq"}


def parse_frame(line):
    """`#2 <jaq_std::regex::Flags>::regex <null> (jaqmon+0x59d8bb) (BuildId: ..)` -> (func, file)
    (the release build has no line tables: file is `<null>`, a codegen-unit name or a path)"""
    m = FRAME.match(line)
    if not m:
        return None
    rest = re.sub(r"\s+\(BuildId: \w+\)\s*$", "", m.group(2))
    rest = re.sub(r"\s+\(\S+\+0x[0-9a-f]+\)\s*$", "", rest)
    if " " in rest:
        func, where = rest.rsplit(" ", 1)
    else:
        func, where = rest, ""
    return re.sub(r"\s*\(\.llvm\.\d+\)", "", HASH.sub("", func.strip())), where


def origin(func):
    """which code base a frame belongs to, by the crate its function lives in"""
    m = re.match(r"^[<&(\s]*(?:dyn\s+|impl\s+)?([A-Za-z_][A-Za-z0-9_]*)::", func)
    if not m:
        return "rt"            # C runtime / sanitizer interceptors (free, memcpy, main, ...)
    c = m.group(1)
    if c in JAQ_CRATES:
        return "jaq"
    if c == "jaqmon":
        # the counting allocator is a pass-through on every allocation of every crate
        return "rt" if func.lstrip("<").startswith("jaqmon::alloc::") else "harness"
    if c in STD_CRATES:
        return "std"
    return "dep"


def parse_tsan(text):
    """-> list of report blocks {kind, stacks:[{what, frames:[(func, where)]}], summary, raw}"""
    blocks = []
    for raw in re.split(r"^={18}\s*$", text, flags=re.M):
        m = re.search(r"WARNING: ThreadSanitizer: ([^\n(]+?)\s*\(pid=\d+\)", raw)
        if not m:
            continue
        kind = m.group(1).strip()
        stacks = []
        cur = None
        for line in raw.splitlines():
            a = ACCESS.match(line)
            if a:
                cur = {"what": a.group(1).lower(), "frames": []}
                stacks.append(cur)
                continue
            if cur is not None:
                f = parse_frame(line)
                if f:
                    cur["frames"].append(f)
                elif not line.strip():
                    cur = None
        sm = re.search(r"SUMMARY: ThreadSanitizer: (.*)", raw)
        blocks.append({"kind": kind, "stacks": stacks, "summary": sm.group(1).strip() if sm else "", "raw": raw.strip()[:6000]})
    return blocks


def tsan_key(b):
    """innermost frames outside std / the C runtime (function names without hashes) of the two
    accesses; origins = code bases seen on the two access stacks"""
    sites = []
    origins = set()
    for st in b["stacks"][:2]:
        site = None
        for func, _where in st["frames"]:
            o = origin(func)
            origins.add(o)
            if site is None and o in ("jaq", "dep", "harness"):
                site = "%s[%s]" % (func[:120], o)
        if site is None and st["frames"]:
            site = st["frames"][0][0][:120] + "[std]"
        sites.append(site or "?")
    return "tsan:%s:%s" % (b["kind"], " | ".join(sorted(set(sites)))), origins


RACY = ("data race", "heap-use-after-free", "data race on vptr (ctor/dtor vs virtual call)",
        "use of an invalid mutex (e.g. uninitialized or destroyed)", "double lock of a mutex",
        "unlock of an unlocked mutex (or by a wrong thread)")


def tsan_logs(prefix):
    text = ""
    for fn in sorted(os.listdir(scratch())):
        if fn.startswith(prefix + "."):
            text += open(os.path.join(scratch(), fn), errors="replace").read() + "\n"
    return text


def tsan_verdicts(run, reports, progs, info):
    seen = {}
    for b in reports:
        key, origins = tsan_key(b)
        seen.setdefault(key, {"count": 0, "block": b, "origins": origins})
        seen[key]["count"] += 1
    info["reports"] = len(reports)
    info["distinct_reports"] = len(seen)
    info["report_kinds"] = {}
    for key, e in seen.items():
        b = e["block"]
        info["report_kinds"][b["kind"]] = info["report_kinds"].get(b["kind"], 0) + e["count"]
        if b["kind"] not in RACY:
            run.inconc("tsan:other-report:" + b["kind"])
            run.notes.append("tsan non-race report: %s %s" % (key, b["summary"][:200]))
        elif not (e["origins"] & {"jaq", "dep"}):
            # both accesses in the helper's own code / std only: not about jaq
            run.inconc("tsan:report-inside-the-helper-itself")
            run.notes.append("tsan report without jaq/dependency frames: " + key)
        else:
            run.violation(key, {"detector": "tsan", "kind": b["kind"], "summary": b["summary"][:300], "seen": e["count"],
                                "stacks": [{"what": st["what"], "frames": [f[0][:200] for f in st["frames"][:14]]}
                                           for st in b["stacks"][:2]],
                                "report": b["raw"][:4000], "cfg": b.get("cfg"),
                                "replay_programs": [p["wire"] for p in progs]})


def detector_tsan(run, progs, info, built):
    t0 = time.time()
    path, log = built
    if path is None:
        info["status"] = "not run: the ThreadSanitizer build failed"
        info["build_log_tail"] = log[-1500:]
        run.inconc("tsan:build-failed")
        return time.time() - t0
    k = run.size(1, 3)
    cfgs = [
        {"threads": 4, "reps": 1 * k, "jitter": 1, "lockstep": False, "compile_during": True, "share_values": True},
        {"threads": 16, "reps": 1 * k, "jitter": 2, "lockstep": True, "compile_during": False, "share_values": False},
    ]
    if run.tier == "thorough":
        cfgs.append({"threads": 64, "reps": 1, "jitter": 0, "lockstep": False, "compile_during": True, "share_values": True})
    acc = {}
    reports = []
    info["invocations"] = 0
    for ci, cfg in enumerate(cfgs):
        if reports:
            info["skipped_after_first_report"] = info.get("skipped_after_first_report", 0) + 1
            continue
        cfg = dict(cfg, seed=run.seed * 1000 + 500 + ci, take=TAKE, build="tsan")
        req = write_request(progs, cfg, "tsan-%d.json" % ci)
        logp = os.path.join(scratch(), "tsanlog-%d" % ci)
        res = run_helper([path, "threads", req], timeout=TSAN_TIMEOUT, watch=(logp, TSAN_LOG_CAP), env={
            "TSAN_OPTIONS": "halt_on_error=0 exitcode=66 report_signal_unsafe=0 history_size=4 second_deadlock_stack=1 log_path=" + logp})
        text = tsan_logs("tsanlog-%d" % ci)
        blocks = parse_tsan(text + "\n" + res["err"])
        for b in blocks:
            b["cfg"] = cfg
        reports += blocks
        ss = summaries(res["out"])
        if res["status"] == "log-cap":
            info["stopped_at_log_cap"] = info.get("stopped_at_log_cap", 0) + 1
        elif res["status"] == "timeout":
            run.inconc("tsan:timeout")
            run.notes.append("tsan invocation %d timed out after %d s (%d report blocks in its log)" % (ci, TSAN_TIMEOUT, len(blocks)))
        elif res["status"] == "died" and not blocks:
            run.inconc("tsan:helper-died:" + signame(res["rc"]))
        elif res["rc"] not in (0, 66) and not blocks:
            run.inconc("tsan:helper-exit-%s" % res["rc"])
            run.notes.append("tsan helper rc=%s stderr=%s" % (res["rc"], res["err"][-300:]))
        if res["rc"] == 66 and not blocks:
            run.inconc("tsan:exit-66-but-no-report-parsed")
            run.notes.append("tsan exit 66, log: " + (text + res["err"])[-600:])
        if ss:
            judge(run, ss[0], progs, cfg, "tsan", acc)
        if ss or blocks:
            info["invocations"] += 1
    tsan_verdicts(run, reports, progs, info)
    info.update({k: acc.get(k, 0) for k in ("runs", "pulls", "switches", "overlapped_runs", "compiled_during", "mismatches")})
    info["status"] = "ran" if info["invocations"] else "not run: no invocation of the instrumented helper completed or reported"
    return time.time() - t0


# ---- detector 3: Miri ----------------------------------------------------------------------------
# natives + jaq-core's definitions only (see `defs: core` in threads.rs). Between them the fragments go
# through bytes (trimming, concatenation, splitting), indexmap/hashbrown (objects), once_cell (lazy
# streams: foreach/limit), Arc::make_mut on values shared between the threads (updates on the shared
# input and the shared global), the JSON printer/parser, sorting. One run costs Miri ~1 s per 100 us
# of native execution, hence the small size.
MIRI_QUICK = ('(.[0] |= "x"), {a: .[1:], (.[0] | tojson): 1}, [limit(2; foreach ($x[], .[]) as $y (0; . + 1; [$y, .]))], '
              '($x | .[1].a += 1), (.[0] | ltrimstr("a") + "bc" | ., (. / "b")), (tojson | fromjson | sort)')
MIRI_THOROUGH = MIRI_QUICK + ', [.[0] | matches("a+b"; "g")], (try error({a: $x}) catch .a[0]), (map(tojson) | sort)'


def miri_workload(run):
    from vlib.codec import Obj, S
    x = [5, Obj([(S("a"), 2)]), S("é")]
    inputs = [[S("aab"), 1, None], [S("ab"), [1.5, Obj([(S("k"), 2 ** 70)])]], [S("xaaby"), S("aab")]]
    thorough = run.tier == "thorough"
    p = {"family": "miri.composite", "prog": MIRI_THOROUGH if thorough else MIRI_QUICK, "vars": [("x", x)],
         "inputs": inputs if thorough else inputs[:2]}
    p["wire"] = G.wire([p])[0]
    return [p]


def parse_miri(text):
    """-> list of (kind, message, location)"""
    errs = []
    lines = text.splitlines()
    for i, line in enumerate(lines):
        m = re.match(r"^error: (Undefined Behavior|unsupported operation|memory leaked|abnormal termination|"
                     r"the evaluated program [a-z ]+|deadlock|post-monomorphization error|resource exhaustion)[:\s]*(.*)", line)
        if not m:
            m2 = re.match(r"^error: (.*)", line)
            if not m2 or "aborting due to" in line or "could not compile" in line:
                continue
            kind, msg = "error", m2.group(1)
        else:
            kind, msg = m.group(1), m.group(2)
        loc = ""
        inner = ""
        for l2 in lines[i + 1:i + 60]:
            if l2.startswith("error:"):
                break
            mm = re.match(r"^\s+--> (\S+)", l2)
            if mm and not loc:
                loc = mm.group(1)
            # backtrace: `= note: inside `f` at path:line:col`; the innermost frame outside std names the culprit
            mm = re.search(r"inside `.*` at (\S+?):(\d+):\d+", l2)
            if mm and not inner and "/rustlib/src/" not in mm.group(1) and "/harness/src/" not in mm.group(1):
                inner = "%s:%s:0" % (mm.group(1), mm.group(2))
        errs.append((kind, msg.strip(), inner or loc))
    return errs


def canon_loc(loc):
    loc = re.sub(r"^.*/registry/src/[^/]+/", "", loc)
    loc = re.sub(r"^.*/rustlib/src/rust/", "rust/", loc)
    if loc.startswith(build.REPO.rstrip("/") + "/"):
        loc = loc[len(build.REPO.rstrip("/")) + 1:]
    loc = re.sub(r"^/tmp/jaq-mut-[^/]+/repo/", "", loc)
    return re.sub(r":\d+$", "", loc)      # file:line (drop the column)


def detector_miri(run, info, built):
    t0 = time.time()
    ok, log = built
    if not ok:
        errs = parse_miri(log)
        if any(k == "Undefined Behavior" for k, _m, _l in errs):
            for k, m, l in errs:
                if k == "Undefined Behavior":
                    run.violation("miri:%s:%s" % (re.sub(r"\s+", " ", m)[:80], canon_loc(l)), {"detector": "miri", "log": log[-3000:]})
        info["status"] = "not run: building the helper for Miri failed"
        info["build_log_tail"] = log[-1500:]
        run.inconc("miri:build-failed")
        return time.time() - t0
    progs = miri_workload(run)
    # quick: 4 scheduler seeds, small program, 2 inputs, one isolated run per input, no compile-while-running
    # (one compilation under Miri costs ~20 s of CPU); thorough: 16 seeds, a somewhat larger program (+ regex, try/catch, sort), 3 inputs, isolated
    # runs twice before and twice after, and a thread that compiles (and runs) the program meanwhile
    nseeds = run.size(4, 16)
    first = (run.seed * 64) % 4096
    cfg = {"threads": 3, "reps": 1, "seed": run.seed + 1, "jitter": 1, "take": 40, "lockstep": True,
           "compile_during": run.tier == "thorough", "light": run.tier != "thorough", "compile_limit": 1, "share_values": True, "defs": "core", "build": "miri",
           "miri_seeds": [first, first + nseeds]}
    res = run_miri(progs, cfg, timeout=MIRI_TIMEOUT[run.tier])
    miri_judge(run, res, progs, cfg, info)
    return time.time() - t0


def run_miri(progs, cfg, timeout):
    sp = os.path.join(scratch(), "miri-summaries.jsonl")
    if os.path.exists(sp):
        os.remove(sp)
    req = write_request(progs, dict(cfg, summary_path=sp), "miri.json")
    a, b = cfg["miri_seeds"]
    flags = "-Zmiri-disable-isolation -Zmiri-many-seeds=%d..%d -Zmiri-many-seeds-keep-going" % (a, b)
    res = run_helper(c19_build.miri_cmd(["threads", req]), timeout=timeout, env=c19_build.miri_env(flags), cwd=build.HARNESS)
    res["summaries"] = summaries(open(sp, errors="replace").read()) if os.path.exists(sp) else []
    return res


def miri_judge(run, res, progs, cfg, info):
    ss = res["summaries"]
    if any(s.get("compile_errors") for s in ss):
        # the Miri workload is fixed text: this is a bug of this driver, not an observation
        info["status"] = "not run: the Miri workload does not compile: %s" % ss[0]["compile_errors"][0][1][:300]
        run.inconc("miri:driver-error")
        return
    acc = {}
    for s in ss:
        judge(run, s, progs, cfg, "miri", acc)
    info["seeds_requested"] = cfg["miri_seeds"][1] - cfg["miri_seeds"][0]
    info["seeds_completed"] = len(ss)
    info["seed_range"] = cfg["miri_seeds"]
    info.update({k: acc.get(k, 0) for k in ("runs", "pulls", "switches", "overlapped_runs", "compiled_during", "mismatches")})
    info["distinct_switch_counts"] = len({(s["switches"], s["completion_switches"]) for s in ss})
    errs = parse_miri(res["err"] + "\n" + res["out"])
    info["error_reports"] = len(errs)
    for kind, msg, loc in errs:
        msg1 = re.sub(r"0x[0-9a-f]+|alloc\d+|\bid \d+|<\d+>|thread `[^`]*`", "_", msg)
        msg1 = re.sub(r"\s+", " ", msg1)
        msg1 = re.sub(r"^(Data race detected) between .*$", r"\1", msg1)[:70]
        if kind == "Undefined Behavior":
            run.violation("miri:UB:%s:%s" % (msg1, canon_loc(loc)),
                          {"detector": "miri", "kind": kind, "message": msg, "location": loc, "cfg": cfg,
                           "log": res["err"][-5000:], "replay_programs": [p["wire"] for p in progs]})
        elif kind == "deadlock":
            run.violation("miri:deadlock:%s" % canon_loc(loc),
                          {"detector": "miri", "kind": kind, "message": msg, "location": loc, "cfg": cfg,
                           "log": res["err"][-5000:], "replay_programs": [p["wire"] for p in progs]})
        else:
            run.inconc("miri:%s" % kind)
            run.notes.append("miri %s: %s @ %s" % (kind, msg[:200], loc))
    if res["status"] == "timeout":
        run.inconc("miri:timeout")
    elif res["rc"] != 0 and not errs:
        run.inconc("miri:exit-%s" % res["rc"])
        run.notes.append("miri rc=%s stderr tail: %s" % (res["rc"], res["err"][-400:]))
    info["status"] = "ran" if ss else "not run: no seed completed (%s)" % res["status"]
    info["programs"] = [p["prog"] for p in progs]


# ---- replay ------------------------------------------------------------------------------------------
def replay(run):
    rp = json.load(open(run.replay))
    w = rp["witness"]
    det = w.get("detector", "stress")
    cfg = dict(w.get("cfg", {}))
    fams = w.get("replay_families") or ["replay"] * len(w.get("replay_programs", []))
    progs = [{"family": f, "prog": q["prog"], "wire": q, "inputs": [None] * len(q["inputs"])} for f, q in
             zip(fams + ["replay"] * len(w.get("replay_programs", [])), w.get("replay_programs", []))]
    for p in progs:
        from vlib.codec import dec
        p["inputs"] = [dec(v) for v in p["wire"]["inputs"]]
    acc = {}
    n = 0
    if det == "miri":
        ok, log = c19_build.miri_prepare()
        info = {}
        if ok:
            res = run_miri(progs, cfg, timeout=2400)
            miri_judge(run, res, progs, cfg, info)
            n = info.get("runs", 0)
        else:
            run.inconc("miri:build-failed")
    elif det == "tsan":
        info = {}
        detector_tsan_replay(run, progs, cfg, info)
        n = info.get("runs", 0)
    else:
        b = cfg.get("build", "release")
        binp = build.jaqmon("release", features=("sync",)) if b == "sync" else build.jaqmon("release")
        cfg["reps"] = max(cfg.get("reps", 1), 4) * 5
        for attempt in range(6):
            cfg["seed"] = cfg.get("seed", 0) + attempt
            path = write_request(progs, cfg, "replay.json")
            res = run_helper([binp, "threads", path], timeout=900)
            if res["status"] == "died":
                run.violation(rp["key"], dict(w, replayed="helper died again: " + signame(res["rc"]))) if w.get("kind") == "crash" \
                    else run.inconc("replay:helper-died")
                break
            ss = summaries(res["out"])
            if ss:
                judge(run, ss[0], progs, cfg, "stress", acc)
                n += ss[0]["runs"]
            if run.violations:
                break
    if not run.violations:
        print("[C19] replay: the recorded violation did not show again on this tree "
              "(schedule-dependent events may need several attempts)")
    run.finish({"evaluations": n, "distinct_nontrivial": len(progs), "rule": "replay of one recorded witness (its request re-executed)",
                "samples": [{"program": progs[0]["prog"] if progs else None, "detector": det}]})


def detector_tsan_replay(run, progs, cfg, info):
    path, log = c19_build.jaqmon_tsan()
    if path is None:
        run.inconc("tsan:build-failed")
        return
    req = write_request(progs, cfg, "tsan-replay.json")
    logp = os.path.join(scratch(), "tsanlog-r")
    res = run_helper([path, "threads", req], timeout=TSAN_TIMEOUT, watch=(logp, TSAN_LOG_CAP),
                     env={"TSAN_OPTIONS": "halt_on_error=0 exitcode=66 report_signal_unsafe=0 history_size=4 log_path=" + logp})
    acc = {}
    for s in summaries(res["out"]):
        judge(run, s, progs, cfg, "tsan", acc)
    info["runs"] = acc.get("runs", 0)
    blocks = parse_tsan(tsan_logs("tsanlog-r") + "\n" + res["err"])
    for b in blocks:
        b["cfg"] = cfg
    tsan_verdicts(run, blocks, progs, info)


# ---- main ----------------------------------------------------------------------------------------------
def main():
    run = Run("C19")
    # verdict bookkeeping is called from several driver threads
    lk = threading.RLock()
    for name in ("violation", "inconc"):
        def wrap(f):
            def g(*a, **k):
                with lk:
                    return f(*a, **k)
            return g
        setattr(run, name, wrap(getattr(run, name)))
    try:
        if run.replay:
            replay(run)
            return
        body(run)
    finally:
        if SCRATCH and not os.environ.get("C19_KEEP"):
            shutil.rmtree(SCRATCH, ignore_errors=True)


def build_plain(run):
    """both ordinary builds; returns (bins, static_violation_text|None). vlib.build raises
    SystemExit on a failing build after writing the compiler output to stderr; to tell the
    static half (Send/Sync assertion) from a broken build, the build is re-run here capturing
    the compiler's message."""
    bins = {}
    for name, feats in (("release", ()), ("sync", ("sync",))):
        try:
            bins[name] = build.jaqmon("release", features=feats)
        except SystemExit:
            env = build._env()
            cmd = ["cargo", "build", "--offline", "--profile", "release", "-q"]
            if feats:
                cmd += ["--features", ",".join(feats)]
                env["CARGO_TARGET_DIR"] = os.path.join(build.TARGET, "feat-" + "-".join(feats))
            lock = build._lock()
            try:
                p = subprocess.run(cmd, env=env, cwd=build.HARNESS, stdout=subprocess.PIPE, stderr=subprocess.STDOUT, text=True)
            finally:
                lock.close()
            out = p.stdout
            m = re.search(r"error\[E0277\]: `?([^\n]*?)`? cannot be (sent|shared) between threads safely", out)
            if m and "assert_send_sync" in out:
                what = "Val" if "assert_send_sync::<Val>" in out and "assert_send_sync::<Filter>" not in out.split("error[E0277]")[1][:3000] \
                    else "Filter"
                run.violation("static:not-send-sync:%s:%s" % (name, what),
                              {"detector": "static", "build": name, "compiler": out[out.find("error[E0277]"):][:3000]})
            else:
                raise
    return bins


def body(run):
    walls = {}
    t = time.time()
    bins = build_plain(run)
    walls["build_plain_s"] = round(time.time() - t, 1)
    if len(bins) < 2:
        run.finish({"evaluations": 1, "distinct_nontrivial": 0, "rule": "static half failed", "samples": []})

    # all builds first, one after the other, in this thread: nothing below holds the build lock
    skip = set(os.environ.get("C19_SKIP", "").split(","))
    t = time.time()
    tsan_built = c19_build.jaqmon_tsan() if "tsan" not in skip else (None, "skipped")
    walls["build_tsan_s"] = round(time.time() - t, 1)
    t = time.time()
    miri_built = c19_build.miri_prepare() if "miri" not in skip else (False, "skipped")
    walls["build_miri_s"] = round(time.time() - t, 1)

    # Miri runs beside the other two detectors (it is CPU-bound in its own processes)
    miri_info = {}
    miri_wall = {}

    def miri_thread():
        try:
            miri_wall["s"] = detector_miri(run, miri_info, miri_built)
        except Exception as e:      # a bug of this driver must not look like a pass
            miri_info["status"] = "not run: driver error %r" % (e,)
            run.inconc("miri:driver-error")
    mt = threading.Thread(target=miri_thread)
    if "miri" not in skip:
        mt.start()
    else:
        miri_info["status"] = "not run: skipped by C19_SKIP"

    # workloads
    screen_stats = {}
    nchunks = run.size(1, 4)
    chunks = []
    t = time.time()
    for ch in range(nchunks):
        progs = make_workload(run, "stress-%d" % ch, rounds=2, n_random=run.size(140, 220), inputs=3)
        chunks.append(screen(run, progs, screen_stats, bins["release"]))
    tsan_progs = screen(run, make_workload(run, "tsan", rounds=1, n_random=run.size(50, 120), inputs=2), screen_stats, bins["release"])
    walls["generate_and_screen_s"] = round(time.time() - t, 1)

    acc, per_t = {}, {}
    walls["stress_s"] = round(detector_stress(run, bins, chunks, acc, per_t), 1) if "stress" not in skip else 0
    tsan_info = {}
    if "tsan" not in skip:
        walls["tsan_s"] = round(detector_tsan(run, tsan_progs, tsan_info, tsan_built), 1)
    else:
        tsan_info["status"] = "not run: skipped by C19_SKIP"
    if "miri" not in skip:
        mt.join()
        walls["miri_s (concurrent with the other detectors)"] = round(miri_wall.get("s", 0), 1)

    # evidence
    distinct = Distinct()
    fam_hist = {}
    samples = Samples(8, run.rng("samples"))
    allp = [p for ch in chunks for p in ch]
    for p in allp + tsan_progs:
        distinct.add(p["prog"])
        fam_hist[p["family"]] = fam_hist.get(p["family"], 0) + 1
    for p in allp:
        samples.add({"family": p["family"], "program": p["prog"], "vars": {n: show(v) for n, v in p["vars"]},
                     "inputs": [show(v) for v in p["inputs"][:2]]})
    detectors_ran = [d for d, ok in (("stress", acc.get("invocations", 0) > 0), ("tsan", tsan_info.get("status") == "ran"),
                                     ("miri", miri_info.get("status") == "ran")) if ok]
    runs_total = acc.get("runs", 0) + tsan_info.get("runs", 0) + miri_info.get("runs", 0)
    cov = {
        "evaluations": runs_total + acc.get("isolated_runs", 0),
        "distinct_nontrivial": len(distinct),
        "rule": "evaluations = executions of a compiled filter on an input (concurrent runs of all detectors + isolated baseline "
                "runs); distinct_nontrivial = distinct program texts (templates of %d families with seeded constants + random "
                "core-language expressions) that were compiled once and executed from >= 2 threads; every program has 2-3 "
                "inputs" % len(fam_hist),
        "samples": samples.items,
        "detectors_ran": detectors_ran,
        "static_assertions": "Filter: Send + Sync (both builds) and Val: Send + Sync (feature sync) compiled",
        "stress": dict(acc, per_thread_count=per_t, workloads=len(chunks), programs=len(allp),
                       thread_counts=sorted(int(k) for k in per_t), builds=["release (Rc values)", "release + jaq-json/sync (Arc values)"]),
        "tsan": tsan_info,
        "miri": miri_info,
        "screening": screen_stats,
        "families": fam_hist,
        "wall_per_detector_s": walls,
    }
    broken = None
    if not detectors_ran:
        broken = "no detector ran (stress: %s, tsan: %s, miri: %s)" % (acc.get("invocations", 0), tsan_info.get("status"),
                                                                         miri_info.get("status"))
    else:
        for d, inf in (("tsan", tsan_info), ("miri", miri_info)):
            if d not in detectors_ran:
                print("[C19] NOTE: detector %s did not run: %s" % (d, inf.get("status")))
        if acc.get("invocations", 0) == 0:
            print("[C19] NOTE: the stress detector did not complete any invocation")
    run.finish(cov, assumptions=[
        "the OS scheduler (16 cores, up to 64 threads, two helper processes at a time, seeded yield/sleep between pulls) and "
        "Miri's seeded scheduler produce the interleavings; schedules they never produce are not observed",
        "ThreadSanitizer / Miri model the memory model; FFI (mimalloc, memmap2) is not on the helper's path and not checked",
        "the generated programs use no clock / environment / input-stream filter (checked: isolated runs repeat exactly)",
        "sanitizer runs use the thread-safe value representation (feature sync); the Rc build is covered by the stress detector",
    ], broken=broken)


if __name__ == "__main__":
    main()
