"""C04 — tail-recursive definitions run in constant stack and constant memory.

Resource-slope monitor. A generator produces nests of tail-recursive definitions (self, parent,
grand-parent, earlier-sibling and nested-sibling calls through every documented tail position:
right of `|`, `,`, `//`, `as $x |`, `then` / `else`, `foreach` projection, after a local `def`;
with the counter in `.` or in a variable argument; with variable and filter arguments passed on
unchanged; run for values, for paths, under first / limit / label) plus the built-in loops.
The loop body calls the harness native `probe` in a non-tail position; every call records the
address of a local (native stack depth) and the live heap bytes of a counting global allocator.
Oracle on logical quantities: with windows W1 = iterations [N/10, N/2) and W2 = [N/2, N],
  deepest stack address in W2 is not more than 4 KiB below the deepest in W1, and
  live heap at N minus live heap at N/2 <= 16 KiB.
A broken classification shows as >= ~50 bytes x N/2 (N = 20 000: hundreds of KiB to MBs).
Then end to end: the same programs with N in {1e5, 2e5, 1e6} inside a thread with a fixed small
stack must complete (death by signal = violation; watchdog = inconclusive)."""
import os
import random
import sys

sys.path.insert(0, os.path.dirname(os.path.dirname(os.path.abspath(__file__))))
from vlib import par
from vlib.client import Jaqmon, WorkerDied, classify_death
from vlib.codec import dec, enc, show
from vlib.run import Distinct, Run, Samples

STACK_SLACK = 4096
HEAP_SLACK = 16384


def counter_forms(rng):
    """(kind, cond(N), step, recursive call text given target name, initial call)"""
    return rng.choice(["dot", "var", "var+filter", "dot+filter", "two-vars"])


def tail_wrap(rng, call, mode):
    """put `call` (a tail call, already preceded by the counter step) into a documented tail position"""
    pos = rng.choice(["pipe", "comma-right", "alt-right", "bind", "bind-arr", "bind-obj", "then", "else", "foreach-proj", "after-def",
                      "comma-out", "nested-if"])
    if mode in ("path", "first") and pos in ("comma-out",):
        pos = "pipe"
    if pos == "pipe":
        return pos, "(probe | %s)" % call
    if pos == "comma-right":
        return pos, "(empty, (probe | %s))" % call
    if pos == "alt-right":
        return pos, "(empty // (probe | %s))" % call
    if pos == "bind":
        return pos, "(probe | . as $bound | %s)" % call
    if pos == "bind-arr":       # right of a destructuring binding (`.` is unchanged by `as`)
        return pos, "(probe | [., 1] as [$bound, $one] | %s)" % call
    if pos == "bind-obj":
        return pos, "(probe | {a: ., b: [2]} as {a: $bound, b: [$two]} | %s)" % call
    if pos == "then":
        return pos, "(probe | if true then %s else . end)" % call
    if pos == "else":
        return pos, "(probe | if false then . else %s end)" % call
    if pos == "foreach-proj":
        return pos, "(probe | foreach 1 as $one (.; .; %s))" % call
    if pos == "after-def":
        return pos, "(probe | def local_def: 1; %s)" % call
    if pos == "comma-out":
        return pos, "(probe | (., %s))" % call          # yields one output per iteration as well
    return pos, "(probe | if . == \"never\" then empty elif true then %s else empty end)" % call


def gen_nest(rng, N, mode):
    """a terminating loop with exactly N iterations of `probe`; returns (program text, features)"""
    form = counter_forms(rng)
    if mode == "path":
        form = rng.choice(["var", "var+filter", "two-vars"])
    shape = rng.choice(["self", "self", "parent", "grandparent", "sibling", "nested-sibling", "mutual-via-parent",
                        "parent+selfrec", "grandparent+selfrec"])
    feats = {"form": form, "shape": shape, "mode": mode}
    # counter handling: a list of (parameter, argument of the recursive call, argument of the initial call)
    if form in ("dot", "dot+filter"):
        cond, step = ". < %d" % N, ". + 1 | "
        params = []
        init_input = "0 | "
    else:
        cond, step = "$n < %d" % N, ""
        params = [("$n", "$n + 1", "0")]
        init_input = "[1] | " if mode == "path" else "1 | "
    if form == "two-vars":
        params.append(("$m", "$m", "7"))
    if form in ("var+filter", "dot+filter"):
        # one or two filter arguments that are passed on unchanged, at any position of the parameter list
        # (before, between and after the variable arguments)
        nfilt = rng.choice([1, 1, 2])
        for name in ("g", "h")[:nfilt]:
            params.insert(rng.randint(0, len(params)), (name, name, "."))
        if rng.random() < 0.3 and params[-1][0].startswith("$") is False and form == "var+filter":
            params.append(("$m", "$m", "7"))
        feats["form"] = form + ":" + ",".join("$" if q[0].startswith("$") else "f" for q in params)
    params_def = [q[0] for q in params]
    args_next = [q[1] for q in params]
    args_init = [q[2] for q in params]
    sig = lambda name: name + ("(%s)" % "; ".join(params_def) if params_def else "")
    callto = lambda name, args: name + ("(%s)" % "; ".join(args) if args else "")
    done = "."
    filt = [q for q in params_def if not q.startswith("$")]
    if filt and rng.random() < 0.5:
        done = rng.choice(filt)          # the passed-on filter argument (`.`) is finally used once
        feats["form"] += "!"
    if shape == "self":
        pos, body_call = tail_wrap(rng, step + callto("f", args_next), mode)
        prog = "def %s: if %s then %s else %s end;; %s|||%s" % (sig("f"), cond, body_call, done, init_input, callto("f", args_init))
    elif shape == "parent":
        # f calls its local g in tail position; g calls its parent f in tail position
        pos, body_call = tail_wrap(rng, step + callto("f", args_next), mode)
        prog = "def %s: def g2: if %s then %s else %s end; g2;; %s|||%s" % (sig("f"), cond, body_call, done, init_input, callto("f", args_init))
    elif shape == "grandparent":
        pos, body_call = tail_wrap(rng, step + callto("f", args_next), mode)
        prog = "def %s: def g2: def g3: if %s then %s else %s end; g3; g2;; %s|||%s" % (sig("f"), cond, body_call, done, init_input, callto("f", args_init))
    elif shape == "parent+selfrec":
        # the local definition is itself (syntactically) tail-recursive *and* calls back into its parent
        pos, body_call = tail_wrap(rng, step + callto("f", args_next), mode)
        prog = "def %s: def g2: if . == \"never\" then g2 elif %s then %s else %s end; g2;; %s|||%s" % (sig("f"), cond, body_call, done, init_input, callto("f", args_init))
    elif shape == "grandparent+selfrec":
        pos, body_call = tail_wrap(rng, step + callto("f", args_next), mode)
        prog = "def %s: def g2: def g3: if . == \"never\" then (. | g3) elif %s then %s else %s end; g3; g2;; %s|||%s" % (sig("f"), cond, body_call, done, init_input, callto("f", args_init))
    elif shape == "sibling":
        # b is defined after a and tail-calls the earlier sibling a, which loops by itself
        pos, body_call = tail_wrap(rng, step + callto("a", args_next), mode)
        prog = "def %s: if %s then %s else %s end; def %s: %s;; %s|||%s" % (sig("a"), cond, body_call, done, sig("b"), callto("a", [p if not p.startswith("$") else p for p in params_def]),
                                                                        init_input, callto("b", args_init))
    elif shape == "nested-sibling":
        pos, body_call = tail_wrap(rng, step + callto("f", args_next), mode)
        prog = "def %s: def a2: if %s then %s else %s end; def b2: a2; b2;; %s|||%s" % (sig("f"), cond, body_call, done, init_input, callto("f", args_init))
    else:
        # f -> (local) a2 -> f ... and a second local that is never the looping one
        pos, body_call = tail_wrap(rng, step + callto("f", args_next), mode)
        prog = "def %s: def z2: 0; def a2: if %s then %s else %s end; if true then a2 else z2 end;; %s|||%s" % (
            sig("f"), cond, body_call, done, init_input, callto("f", args_init))
    feats["tail_position"] = pos
    defs, call = prog.rsplit(";; ", 1)
    pre, call = call.split("|||", 1)
    if mode == "path":
        call = "last(path(%s))" % call
    elif mode == "first":
        call = "first(%s)" % call
    elif mode == "limit":
        call = "limit(1; last(%s))" % call
    elif mode == "label":
        call = "label $out | last(%s)" % call
    prog = defs + "; " + pre + call
    return prog, feats


def builtin_loops(N):
    return [
        ("repeat", "last(limit(%d; repeat(probe)))" % N),
        ("recurse/1", "0 | last(limit(%d; recurse(probe | . + 1)))" % N),
        ("recurse/2", "0 | last(recurse(probe | . + 1; . < %d))" % N),
        ("while", "0 | last(while(. < %d; probe | . + 1))" % N),
        ("until", "0 | until(. >= %d; probe | . + 1)" % N),
        ("range/3", "last(range(0; %d; 1) | probe)" % N),
        ("range/1", "last(range(%d) | probe)" % N),
        ("..", "[limit(%d; repeat(0))] | last(.. | probe)" % (N - 1)),
        ("reduce", "reduce range(%d) as $x (0; probe | . + 1)" % N),
        ("foreach", "last(foreach range(%d) as $x (0; probe | . + 1))" % N),
        ("limit-of-infinite", "last(limit(%d; def nat: ., (. + 1 | nat); 0 | nat | probe))" % N),
        ("first-of-infinite", "first(def nat: if . >= %d then . else (probe | . + 1 | nat) end; 0 | nat)" % N),
        ("path-recurse", "0 | last(limit(%d; path(repeat(probe))))" % N),
        ("any-short", "any(range(%d) | probe; . == %d)" % (N, N - 1)),
        ("inputs-foreach", "last(foreach limit(%d; repeat(1)) as $x (0; probe | . + $x))" % N),
        ("while-def", "def w(c; u): def r: if c then ., (u | r) else empty end; r; 0 | last(w(. < %d; probe | . + 1))" % N),
        ("getpath-loop", "def f($n): if $n < %d then probe | f($n + 1) else . end; [1] | path(f(0))" % N),
    ]


def judge(pr, N, expect_probes):
    """None if constant; else (kind, detail)"""
    if "w1" not in pr:
        return ("no-probes", pr)
    if pr["count"] < expect_probes * 0.9:
        return ("too-few-iterations", {"count": pr["count"], "expected": expect_probes})
    stack_growth = pr["w1"]["min_addr"] - pr["w2"]["min_addr"]
    heap_growth = pr["live_end"] - pr["live_half"]
    if stack_growth > STACK_SLACK:
        return ("stack-grows", {"stack_growth_bytes_between_windows": stack_growth, "iterations": pr["count"]})
    if heap_growth > HEAP_SLACK:
        return ("heap-grows", {"live_heap_growth_bytes_N/2..N": heap_growth, "iterations": pr["count"]})
    return None


def task(t):
    seed, idx, count, N, profile = t
    rng = random.Random(f"c04/{seed}/{idx}")
    c = par.client(profile, stack_mb=256)
    out = {"viol": [], "inconc": {}, "evals": 0, "distinct": set(), "samples": [], "feats": {}, "controls": 0, "controls_flagged": 0,
           "calltypes": {}, "notes": []}

    def inc(d, k, m=1):
        d[k] = d.get(k, 0) + m
    progs = []
    for _ in range(count):
        mode = rng.choice(["run", "run", "run", "path", "first", "limit", "label"])
        prog, feats = gen_nest(rng, N, mode)
        progs.append((prog, feats, True))
    if idx == 0:
        for name, prog in builtin_loops(N):
            progs.append((prog, {"builtin": name}, True))
        # negative controls: not tail calls; must not be *judged*, only observed
        progs.append(("def f: if . < 2000 then probe | 1 + (. + 1 | f) else . end; 0 | f", {"control": "non-tail"}, False))
        progs.append(("def f: if . < 2000 then probe | [. + 1 | f] | .[0] else . end; 0 | f", {"control": "non-tail-array"}, False))
    for prog, feats, judged in progs:
        try:
            r = c.eval(prog, [{"input": None, "probe_cap": N + 16, "discard": True, "take": 10 ** 9}], timeout=300)
        except WorkerDied as e:
            cls = classify_death(e)
            if judged and cls == "stack-exhaustion":
                out["viol"].append(("stack-overflow:%s" % feat_key(feats), {"program": prog, "N": N, "death": str(e)[:300], "profile": profile}))
            else:
                inc(out["inconc"], cls)
                out["notes"].append({"inconclusive": cls, "program": prog, "detail": str(e)[:200]})
            continue
        if "results" not in r:
            out["viol"].append(("driver:does-not-compile", {"program": prog, "response": str(r)[:400]}))
            continue
        res = r["results"][0]
        out["evals"] += 1
        if "panic" in res:
            out["viol"].append(("panic:" + res["panic"]["loc"], {"program": prog, "panic": res["panic"]}))
            continue
        if res["end"][0] != "end":
            out["viol"].append(("driver:loop-did-not-end-normally", {"program": prog, "end": res["end"]}))
            continue
        pr = res.get("probes", {})
        verdict = judge(pr, N if judged else 2000, N if judged else 2000)
        if not judged:
            out["controls"] += 1
            if verdict and verdict[0] in ("stack-grows", "heap-grows"):
                out["controls_flagged"] += 1          # shows that the monitor can see growth
            continue
        for k, v in feats.items():
            inc(out["feats"], "%s=%s" % (k, v))
        if verdict:
            out["viol"].append(("%s:%s" % (verdict[0], feat_key(feats)), {"program": prog, "N": N, "observed": verdict[1], "profile": profile,
                                                                           "samples(iteration,stack_depth,live_bytes)": pr.get("samples", [])[:12]}))
        else:
            out["distinct"].add(feat_key(feats))
        if len(out["samples"]) < 2:
            out["samples"].append({"program": prog, "probes": pr.get("count"), "stack_growth": pr["w1"]["min_addr"] - pr["w2"]["min_addr"] if "w1" in pr else None,
                                   "live_heap_at_N/2_and_N": [pr.get("live_half"), pr.get("live_end")]})
        if rng.random() < 0.15:
            try:
                tr = c.request({"op": "terms", "prog": prog, "prelude": False}, timeout=30)
                for k in ("inline", "throw", "catch_one", "catch_all"):
                    if isinstance(tr.get(k), int):
                        inc(out["calltypes"], k, tr[k])
            except WorkerDied:
                pass
    out["distinct"] = list(out["distinct"])
    return out


def feat_key(f):
    return ",".join("%s=%s" % (k, f[k]) for k in sorted(f))


def bign_task(t):
    seed, idx, count, profile = t
    rng = random.Random(f"c04big/{seed}/{idx}")
    out = {"viol": [], "inconc": {}, "evals": 0, "distinct": set(), "samples": [], "notes": []}
    # a thread with a fixed small stack: completes for any N only if depth does not depend on N
    c = Jaqmon(profile, stack_mb=2, mem_gb=3)
    try:
        for _ in range(count):
            N = rng.choice([100000, 200000, 1000000])
            if rng.random() < 0.3:
                name, prog = rng.choice(builtin_loops(N))
                feats = {"builtin": name}
            else:
                prog, feats = gen_nest(rng, N, rng.choice(["run", "run", "path", "first", "label"]))
            try:
                r = c.eval(prog, [{"input": None, "probe_cap": 0, "discard": True, "take": 10 ** 9}], timeout=600)
            except WorkerDied as e:
                cls = classify_death(e)
                if cls in ("stack-exhaustion", "died"):
                    out["viol"].append(("fixed-stack-death:%s" % feat_key(feats), {"program": prog, "N": N, "stack_mb": 2, "death": str(e)[:300],
                                                                                   "profile": profile}))
                else:
                    out["inconc"][cls] = out["inconc"].get(cls, 0) + 1
                    out["notes"].append({"inconclusive": cls, "program": prog, "N": N})
                continue
            out["evals"] += 1
            if "results" not in r or r["results"][0].get("end", ["?"])[0] != "end":
                out["viol"].append(("big-N:did-not-complete", {"program": prog, "N": N, "response": str(r)[:300]}))
            else:
                out["distinct"].add("bigN=%d:%s" % (N, feat_key(feats)))
                if len(out["samples"]) < 1:
                    out["samples"].append({"program": prog, "N": N, "fixed_stack_mb": 2, "completed": True})
    finally:
        c.stop()
    out["distinct"] = list(out["distinct"])
    return out


def dispatch(t):
    kind, payload = t
    return kind, (task(payload) if kind == "slope" else bign_task(payload))


def main():
    run = Run("C04")
    nests = run.size(320, 16000)
    bign = run.size(24, 320)
    N = 20000
    per = 10
    tasks = [("slope", (run.seed, i, per, N, "release" if i % 4 == 0 else "verif")) for i in range(max(2, nests // per))]
    tasks += [("bign", (run.seed, i, max(1, bign // 8), "release")) for i in range(8)]
    evals = controls = flagged = 0
    feats, ct = {}, {}
    distinct = Distinct()
    samples = Samples(6, run.rng("s"))
    for kind, out in par.pmap(dispatch, tasks, run.jobs):
        for key, w in out["viol"]:
            run.violation(key, w)
        for k, m in out["inconc"].items():
            run.inconc(k, m)
        evals += out["evals"]
        for d in out["distinct"]:
            distinct.add(d)
        for s in out["samples"]:
            samples.add(s)
        for nt in out.get("notes", []):
            run.notes.append(nt)
        if kind == "slope":
            controls += out["controls"]
            flagged += out["controls_flagged"]
            for k, m in out["feats"].items():
                feats[k] = feats.get(k, 0) + m
            for k, m in out["calltypes"].items():
                ct[k] = ct.get(k, 0) + m
    broken = None
    if controls and not flagged:
        broken = "the negative controls (non-tail recursion) showed no growth: the probes do not observe stack/heap"
    run.finish({
        "evaluations": evals, "distinct_nontrivial": len(distinct),
        "rule": "one evaluation = one loop program run to completion with N probe events (N = %d for the slope oracle; 1e5..1e6 in a 2 MiB "
                "stack thread for the end-to-end runs); distinct = (call shape, counter form, tail position, mode | built-in loop | big N); "
                "non-trivial = the loop made >= 0.9 N iterations and ended normally" % N,
        "samples": samples.items, "features": feats, "call_types_in_generated_nests(sampled)": ct,
        "negative_controls_run": controls, "negative_controls_showing_growth": flagged,
        "thresholds": {"stack_bytes": STACK_SLACK, "heap_bytes": HEAP_SLACK},
    }, assumptions=[
        "stack depth is observed as the address of a local inside the probe native; heap as live bytes of a counting global allocator in the helper",
        "filter arguments are passed on *unchanged* (the property's wording); wrapping them anew at every call legitimately allocates",
    ], broken=broken)


if __name__ == "__main__":
    main()
