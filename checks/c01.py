"""C01 — compiled filters compute the jq semantics the manual defines.

Reference-model monitor: programs generated as trees `G` (scope-, arity- and loosely type-aware
grammar) are (a) evaluated by jqref, the definitional interpreter written from the manual, on
the tree itself and (b) rendered to text by the independent printer and run through the real
lexer + parser + compiler + interpreter (jaqmon eval, both build flavours); outputs are
compared position by position up to and including the first error / halt.
The manual's own `code --> outputs` examples (extracted from the current tree) calibrate the
reference, are compared with what jaq prints, and are re-run under semantics-preserving
binder wrappers (metamorphic: no reference needed, so the whole standard library is covered)."""
import os
import random
import sys

sys.path.insert(0, os.path.dirname(os.path.dirname(os.path.abspath(__file__))))
from jqref import ast as A, docs, gen as G, interp as I
from jqref.compare import compare, match, show_ref
from vlib import par, values as V
from vlib.client import WorkerDied, classify_death
from vlib.codec import Obj, S, dec, enc, show
from vlib.run import Distinct, Run, Samples

sys.setrecursionlimit(20000)


def inputs_for(tin, rng):
    if tin == "n":
        return [rng.choice([0, 1, 2, 3, 4, 7]), rng.choice([0, 1, 2, -1, 5])]
    if tin == "a":
        return [[rng.randrange(4) for _ in range(rng.randrange(0, 4))], [1, 2, 3]]
    return [Obj([(S("a"), rng.randrange(4)), (S("b"), rng.randrange(4))]), Obj([(S("b"), 1)])]


def reference(t, inp, fuel=60000):
    it = I.Interp(fuel=fuel)
    try:
        outs, end = it.main(t, inp, 200)
        return outs, end, it.steps
    except (I.Fuel, RecursionError):
        return None, "fuel", 0
    except V.Unspecified:
        return None, "unspecified", 0
    except I.CompileError as e:
        return None, "scope:" + str(e), 0


def viol_key(kind, t):
    kinds, depth = G.features(t)
    top = sorted(kinds.items(), key=lambda kv: -kv[1])[:4]
    return "%s:%s" % (kind, "+".join(k for k, _ in top))


def shrink(t, fails, budget=60):
    """greedy: replace sub-terms by their children / `.` while the disagreement persists"""
    cur = t
    improved = True
    while improved and budget > 0:
        improved = False
        for sub in list(A.subterms(cur)):
            if sub == cur or sub == A.ID:
                continue
            for rep in [A.ID] + [x for x in sub[1:] if isinstance(x, tuple) and x and isinstance(x[0], str) and x[0] not in ("s", "t", "index", "range", "pvar", "parr", "pobj")]:
                cand = replace_once(cur, sub, rep)
                if cand == cur or A.size(cand) >= A.size(cur):
                    continue
                budget -= 1
                if budget <= 0:
                    return cur
                try:
                    if fails(cand):
                        cur = cand
                        improved = True
                        break
                except Exception:
                    pass
            if improved:
                break
    return cur


def replace_once(t, old, new):
    if t == old:
        return new
    if not isinstance(t, tuple):
        return t
    done = [False]

    def go(x):
        if done[0]:
            return x
        if x == old:
            done[0] = True
            return new
        if isinstance(x, tuple):
            return tuple(go(y) for y in x)
        return x
    return go(t)


def gen_task(task):
    seed, idx, n, size, profile = task
    rng = random.Random(f"c01/{seed}/{idx}")
    c = par.client(profile)
    out = {"viol": [], "inconc": {}, "evals": 0, "nontrivial": 0, "distinct": set(), "kinds": {}, "depths": {},
           "ends": {}, "samples": [], "skipped": {}, "calltypes": {}, "stats": {}}

    def inc(d, k, n=1):
        d[k] = d.get(k, 0) + n
    for i in range(n):
        tin = rng.choice(["n", "n", "a", "o"])
        g = G.Gen(rng, max_size=size)
        t = g.program(tin)
        for k, v in g.stats.items():
            inc(out["stats"], k, v)
        t = A.normalize(t)
        ins = inputs_for(tin, rng)
        refs = [reference(t, x) for x in ins]
        keep = [(x, r) for x, r in zip(ins, refs) if r[0] is not None]
        for x, r in zip(ins, refs):
            if r[0] is None:
                inc(out["skipped"], r[1].split(":")[0])
                if r[1].startswith("scope:"):
                    out["viol"].append(("generator:ill-scoped", {"program": A.render(t), "why": r[1]}))
        if not keep:
            continue
        mode = rng.choice(["min", "min", "rand"])
        text = A.render(t, mode, random.Random(rng.random()))
        take = max(len(r[0]) for _, r in keep) + 2
        try:
            resp = c.eval(text, [{"input": enc(x)} for x, _ in keep], take=take, timeout=40)
        except WorkerDied as e:
            inc(out["inconc"], classify_death(e))
            continue
        if "compile_error" in resp or "compile_panic" in resp:
            out["viol"].append((viol_key("compile", t), {"program": text, "tree": repr(t)[:600],
                                                         "response": str(resp)[:600]}))
            continue
        kinds, depth = G.features(t)
        multi = kinds.get("comma", 0) > 0
        for (x, (outs, end, steps)), res in zip(keep, resp["results"]):
            out["evals"] += 1
            inc(out["ends"], end[0] if end[0] != "error" else ("error-user" if not end[2] else "error-builtin"))
            why = compare(outs, end, res)
            if why is not None:
                def fails(cand, x=x):
                    r = reference(cand, x)
                    if r[0] is None:
                        return False
                    rr = c.eval(A.render(cand), [{"input": enc(x)}], take=len(r[0]) + 2, timeout=20)
                    if "results" not in rr:
                        return False
                    return compare(r[0], r[1], rr["results"][0]) is not None
                small = shrink(t, fails)
                r2 = reference(small, x)
                out["viol"].append((viol_key("semantics", small), {
                    "program": text, "input": show(x), "why": why, "profile": profile,
                    "shrunk_program": A.render(small), "shrunk_expected": [show_ref(o) for o in (r2[0] or [])],
                    "shrunk_expected_end": str(r2[1]), "expected": [show_ref(o) for o in outs],
                    "expected_end": str(end), "got": str(res)[:800]}))
            nontrivial = (depth >= 1 or multi) and (len(outs) >= 1 or (end[0] == "error" and not end[2]))
            if nontrivial:
                out["nontrivial"] += 1
                out["distinct"].add(repr((sorted(kinds.items()), depth)))
        for k, v in kinds.items():
            inc(out["kinds"], k, v)
        inc(out["depths"], str(depth))
        if i % 12 == 0:
            try:
                tr = c.request({"op": "terms", "prog": text}, timeout=20)
                for k in ("inline", "throw", "catch_one", "catch_all"):
                    if isinstance(tr.get(k), int):
                        inc(out["calltypes"], k, tr[k])
            except WorkerDied:
                pass
        if len(out["samples"]) < 2 and keep[0][1][0]:
            out["samples"].append({"program": text, "input": show(keep[0][0]),
                                   "outputs": [show_ref(o) for o in keep[0][1][0]][:6], "end": str(keep[0][1][1])})
    out["distinct"] = list(out["distinct"])
    return out


WRAPPERS = [
    ("def", lambda t: ("def", (("w_f", (), t),), A.call("w_f"))),
    ("bind", lambda t: A.bind(A.num(0), ("pvar", "$w_x"), t)),
    ("label", lambda t: ("label", "$w_l", t)),
    ("arg", lambda t: ("def", (("w_g", ("w_p",), A.call("w_p")),), ("call", "w_g", (t,)))),
    ("pipe-id", lambda t: A.pipe(A.ID, A.pipe(t, A.ID))),
    ("fold", lambda t: ("fold", "foreach", A.num(0), ("pvar", "$w_i"), (A.ID, A.ID, t))),
    ("deep", lambda t: ("def", (("w_a", ("$w_v",), ("label", "$w_l", A.bind(A.var("$w_v"), ("parr", (("pvar", "$w_x"),)), ("def", (("w_b", (), t),), A.call("w_b"))))),),
                        ("call", "w_a", (("arr", A.num(1)),)))),
    ("closure", lambda t: ("def", (("w_h", ("w_p",), A.bind(A.num(1), ("pvar", "$w_y"), ("def", (("w_q", (), A.call("w_p")),), A.call("w_q")))),), ("call", "w_h", (t,)))),
]


def docs_task(task):
    seed, idx, items, profile = task
    c = par.client(profile)
    out = {"viol": [], "inconc": {}, "n": 0, "ref_checked": 0, "ref_skipped": {}, "doc_checked": 0, "wrapped": 0,
           "model_defects": [], "samples": [], "distinct": set()}

    def inc(d, k):
        d[k] = d.get(k, 0) + 1
    for (fname, code, outs_text) in items:
        try:
            pr = c.request({"op": "parse", "code": code}, timeout=20)
        except WorkerDied as e:
            inc(out["inconc"], classify_death(e))
            continue
        if "term" not in pr:
            continue      # examples that are not single filters (shell lines etc.)
        t = A.normalize(A.from_parse(pr["term"]))
        out["n"] += 1
        try:
            base = c.eval(code, [{"input": None}], take=300, timeout=40)
        except WorkerDied as e:
            inc(out["inconc"], classify_death(e))
            continue
        if "results" not in base:
            continue
        bres = base["results"][0]
        if "panic" in bres:
            out["viol"].append(("panic:" + bres["panic"]["loc"], {"program": code, "panic": bres["panic"]}))
            continue
        # documented outputs, read with jaq's own reader (XJON) and compared as model values
        if outs_text and bres["end"][0] == "end":
            try:
                rd = c.request({"op": "fmt", "dir": "read", "format": "json", "bytes": outs_text.encode().hex()}, timeout=20)
                if rd.get("error") is None:
                    exp = [dec(v) for v in rd["vals"]]
                    got = [dec(o[0]) for o in bres["outs"]]
                    out["doc_checked"] += 1
                    if not (len(exp) == len(got) and all(doc_match(a, b) for a, b in zip(exp, got))):
                        out["viol"].append(("doc-example:%s:%s" % (fname, code[:60]),
                                            {"file": fname, "program": code, "documented": outs_text,
                                             "got": [show(g) for g in got]}))
            except WorkerDied:
                pass
        # the reference on the parsed tree (calibration of the model + third opinion)
        r = reference(t, None, fuel=200000)
        if r[0] is None:
            inc(out["ref_skipped"], r[1].split(":")[0] if not r[1].startswith("scope") else "not-in-core-prelude")
        else:
            out["ref_checked"] += 1
            why = compare(r[0], r[1], bres)
            if why is not None:
                # disagreement between model and jaq on a documented example: decide by the manual
                out["model_defects"].append({"program": code, "why": why, "documented": outs_text})
        # metamorphic wrappers: same outputs under binders (needs no reference)
        for wname, w in WRAPPERS:
            wt = w(t)
            text = A.render(wt, "min")
            try:
                wr = c.eval(text, [{"input": None}], take=300, timeout=40)
            except WorkerDied as e:
                inc(out["inconc"], classify_death(e))
                continue
            if "results" not in wr:
                out["viol"].append(("wrapper-compile:%s" % wname, {"program": code, "wrapped": text, "response": str(wr)[:500]}))
                continue
            out["wrapped"] += 1
            wres = wr["results"][0]
            same = ("panic" not in wres and [o[0] for o in wres["outs"]] == [o[0] for o in bres["outs"]]
                    and wres["end"][:1] == bres["end"][:1]
                    and (wres["end"][0] != "error" or wres["end"][2] == bres["end"][2])
                    and (wres["end"][0] != "halt" or wres["end"][1] == bres["end"][1]))
            if not same:
                if uses_nondeterminism(code):
                    continue
                out["viol"].append(("wrapper:%s:%s" % (wname, code[:50]), {"program": code, "wrapped": text,
                                                                          "plain": str(bres)[:500], "under_wrapper": str(wres)[:500]}))
            else:
                out["distinct"].add(wname + ":" + code[:80])
        if len(out["samples"]) < 2:
            out["samples"].append({"doc_example": code, "documented": outs_text})
    out["distinct"] = list(out["distinct"])
    return out


def uses_nondeterminism(code):
    return any(w in code for w in ("now", "input", "$ENV", "env", "$__loc__", "localtime", "debug", "stderr", "halt"))


def doc_match(exp, got):
    """documented output vs actual: model equality (the manual prints 1.0 for floats etc.)"""
    if isinstance(exp, float) and isinstance(got, float) and exp != exp and got != got:
        return True
    try:
        if V.has_nan(exp) or V.has_nan(got):
            return show(exp) == show(got)
        return V.eq(exp, got) and V.kind(exp) == V.kind(got)
    except Exception:
        return False


def main():
    run = Run("C01")
    nprog = run.size(30000, 900000)
    size = 26 if run.tier == "quick" else 60
    per = 250
    tasks = []
    nchunks = max(2, nprog // per)
    for i in range(nchunks):
        tasks.append(("gen", (run.seed, i, per, size if i % 3 else size // 2, "verif" if i % 4 else "release")))
    exs = docs.examples()
    ex_chunks = [exs[i::16] for i in range(16)]
    for i, ch in enumerate(ex_chunks):
        tasks.append(("docs", (run.seed, i, ch, "verif")))
    agg = {"evals": 0, "nontrivial": 0, "kinds": {}, "depths": {}, "ends": {}, "skipped": {}, "calltypes": {}, "stats": {},
           "docs": 0, "ref_checked": 0, "doc_checked": 0, "wrapped": 0, "ref_skipped": {}}
    distinct = Distinct()
    samples = Samples(8, run.rng("s"))
    model_defects = []

    def merge(d, s):
        for k, v in s.items():
            d[k] = d.get(k, 0) + v
    for kind, out in par.pmap(dispatch, tasks, run.jobs):
        for key, w in out["viol"]:
            run.violation(key, w)
        for k, n in out["inconc"].items():
            run.inconc(k, n)
        for d in out["distinct"]:
            distinct.add(d)
        for s in out["samples"]:
            samples.add(s)
        if kind == "gen":
            agg["evals"] += out["evals"]
            agg["nontrivial"] += out["nontrivial"]
            for k in ("kinds", "depths", "ends", "skipped", "calltypes", "stats"):
                merge(agg[k], out[k])
        else:
            agg["docs"] += out["n"]
            agg["ref_checked"] += out["ref_checked"]
            agg["doc_checked"] += out["doc_checked"]
            agg["wrapped"] += out["wrapped"]
            merge(agg["ref_skipped"], out["ref_skipped"])
            model_defects += out["model_defects"]
    # a disagreement between jqref and jaq on a *documented* example where jaq matches the
    # documentation is a defect of the model: it makes the check unsound -> broken, not a verdict
    broken = None
    if model_defects:
        for m in model_defects[:10]:
            print("MODEL-DEFECT (jqref disagrees with jaq on a documented example):", m)
        broken = "reference model disagrees with %d documented examples" % len(model_defects)
    run.finish({
        "evaluations": agg["evals"] + agg["wrapped"] + agg["doc_checked"],
        "distinct_nontrivial": len(distinct),
        "rule": "generated core-language programs x inputs, compared with jqref up to the first error; distinct = node-kind "
                "multiset + binder depth of the program (constants abstracted); non-trivial = binder depth >= 1 or a "
                "multi-valued combination, and >= 1 output or a user error. Plus the manual's examples under 8 binder wrappers "
                "(distinct = wrapper x example).",
        "samples": samples.items,
        "generated_program_runs": agg["evals"], "nontrivial_runs": agg["nontrivial"],
        "node_kinds": agg["kinds"], "binder_depths": agg["depths"], "outcomes": agg["ends"],
        "reference_skipped": agg["skipped"], "call_types_executed(sampled)": agg["calltypes"],
        "generator_shapes": agg["stats"],
        "doc_examples": agg["docs"], "doc_examples_vs_documented_output": agg["doc_checked"],
        "doc_examples_vs_reference": agg["ref_checked"], "doc_examples_reference_skipped": agg["ref_skipped"],
        "wrapper_runs": agg["wrapped"], "profiles": ["verif", "release"],
    }, assumptions=[
        "jqref (jqref/interp.py) is a faithful reading of docs/corelang.dj, docs/advanced.dj, docs/stdlib.dj; it is calibrated "
        "on every run against the manual's own examples of the current tree",
        "programs using corners the manual leaves open (Appendix B of DESIGN.md) are skipped, not judged",
    ], broken=broken)


def dispatch(task):
    kind, payload = task
    if kind == "gen":
        return kind, gen_task(payload)
    return kind, docs_task(payload)


if __name__ == "__main__":
    from vlib.run import with_big_stack
    with_big_stack(main)
