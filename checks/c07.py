"""C07 — print-then-parse is the identity on values; JSON texts mean what RFC 8259 says.

Monitor (round trip + independent reader), three groups of observations on real executions:

 V  typed values of every representation are injected as `$v`; `$v | tojson | fromjson` is
    compared with `$v` up to the representation changes the statement allows; the text
    `tojson` produced is also read by an *independent* reader (Python `json`, `float()`)
    whenever the value lies in the RFC 8259 subset; `$v` and the value read back are printed
    under every indentation / key-sorting option by jaq's writer and must print alike.
 C  the same values go through the real `jaq` binary: printed with `-c`, default, `-S`,
    `--indent n`, `--tab`; every output is read back by `jaq -c .` (stdin and file path, i.e.
    both lexers) and must print like `jaq -c .` of the original (modulo `-S` key order).
 T  RFC 8259 *texts* from an independent generator (every escape incl. `\\/`, `\\uXXXX`,
    surrogate pairs, exponent spellings, the four whitespace characters, nested empties,
    duplicate keys, huge integers) are read by `fromjson`, by both format readers and by the
    CLI; the typed result must be the value Python's `json.loads` assigns to the text
    (integers exact, other literals character for character, strings as scalar sequences).
"""
import hashlib
import itertools
import json
import math
import os
import random
import shutil
import struct
import subprocess
import sys
sys.setrecursionlimit(20000)       # deeply nested values (family `deep`) are walked recursively
import tempfile
from collections import Counter

sys.path.insert(0, os.path.dirname(os.path.dirname(os.path.abspath(__file__))))
from vlib import build, gen, par, values as V
from vlib.client import WorkerDied, classify_death
from vlib.codec import Big, Dec, Obj, S, Str, dec, enc, freeze, show
from vlib.run import Distinct, Run, Samples

# ------------------------------------------------------------------------------------------
# value classes and the oracle

ALPHA = [b'"', b"\\", b"/", b"\x00", b"\x08", b"\x0c", b"\n", b"\r", b"\t", b"\x1f", b" ", b"\x7f",
         b"\x80", b"\xc3\xa9", "\u2028".encode(), "\uffff".encode(), "\U00010000".encode(), b"\xff"]


def rep(v):
    if v is None:
        return "null"
    if isinstance(v, bool):
        return "bool"
    if isinstance(v, Big):
        return "bigint"
    if isinstance(v, int):
        return "int" if -(2 ** 63) <= v < 2 ** 63 else "bigint"
    if isinstance(v, float):
        return "float" if math.isfinite(v) else "nonfinite"
    if isinstance(v, Dec):
        return "dec"
    if isinstance(v, Str):
        if not v.text:
            return "bytes"
        return "text" if V.is_valid_utf8(v.b) else "text-invalid-utf8"
    if isinstance(v, list):
        return "arr"
    if isinstance(v, Obj):
        return "obj" if all(isinstance(k, Str) and k.text for k, _ in v.items) else "obj-nonstring-keys"
    return "?"


def fbits(f):
    return struct.pack(">d", f)


TALLY = Counter()       # per-process tallies of oracle decisions (folded into the task counters)


def diff(o, g):
    """None if `g` is indistinguishable from the reference `o` up to the representation
    changes the statement allows (machine <-> big integer of equal value; float <-> decimal
    literal denoting exactly that float); otherwise a short class of the difference."""
    if isinstance(o, Big):
        o = o.n
    if o is None or isinstance(o, bool):
        return None if g is o else "%s->%s" % (rep(o), rep(g))
    if isinstance(o, int):
        if isinstance(g, int) and not isinstance(g, bool):
            return None if g == o else "int-value-changed"
        return "int->%s" % rep(g)
    if isinstance(o, float):
        if math.isnan(o):
            return None if isinstance(g, float) and math.isnan(g) else "nan->%s" % rep(g)
        if isinstance(g, float):
            return None if fbits(g) == fbits(o) else "float-value-changed"
        if isinstance(g, Dec):
            if math.isinf(o):
                return "inf->dec"
            TALLY["printed_floats_reread_by_python_float"] += 1
            try:
                back = float(g.text)
            except ValueError:
                return "float->unreadable-literal"
            return None if fbits(back) == fbits(o) else "float-value-changed"
        return "float->%s" % rep(g)
    if isinstance(o, Dec):
        if isinstance(g, Dec):
            return None if g.text == o.text else "literal-text-changed"
        return "dec->%s" % rep(g)
    if isinstance(o, Str):
        if not isinstance(g, Str):
            return "%s->%s" % (rep(o), rep(g))
        if g.text != o.text:
            return "text/byte-flag-changed"
        return None if g.b == o.b else "string-bytes-changed"
    if isinstance(o, list):
        if not isinstance(g, list):
            return "arr->%s" % rep(g)
        if len(g) != len(o):
            return "array-length-changed"
        for x, y in zip(o, g):
            d = diff(x, y)
            if d:
                return d
        return None
    if isinstance(o, Obj):
        if not isinstance(g, Obj):
            return "obj->%s" % rep(g)
        if len(g.items) != len(o.items):
            return "object-size-changed"
        for (k1, v1), (k2, v2) in zip(o.items, g.items):
            d = diff(k1, k2)
            if d:
                # same key set in another order?
                if any(diff(k1, kk) is None for kk, _ in g.items):
                    return "key-order-changed"
                return "key:" + d
            d = diff(v1, v2)
            if d:
                return d
        return None
    return "unknown"


RFC_NUM = __import__("re").compile(r"-?(0|[1-9][0-9]*)(\.[0-9]+)?([eE][+-]?[0-9]+)?\Z")


def in_rfc_subset(v):
    """values that have an RFC 8259 text: the independent reader applies to these"""
    if v is None or isinstance(v, (bool, int, Big)):
        return True
    if isinstance(v, float):
        return math.isfinite(v)
    if isinstance(v, Dec):
        return bool(RFC_NUM.match(v.text))
    if isinstance(v, Str):
        return v.text and V.is_valid_utf8(v.b)
    if isinstance(v, list):
        return all(in_rfc_subset(x) for x in v)
    if isinstance(v, Obj):
        return all(isinstance(k, Str) and k.text and V.is_valid_utf8(k.b) and in_rfc_subset(x) for k, x in v.items)
    return False


class Dup(Exception):
    pass


def _to_model(p, info):
    if isinstance(p, str):
        b = p.encode("utf-8", "surrogatepass")
        if len(b) != len(p) and not V.is_valid_utf8(b):
            info["lone"] = True
        return Str(b, True)
    if isinstance(p, list):
        return [_to_model(x, info) for x in p]
    if isinstance(p, _Pairs):
        items = []
        pos = {}
        for k, x in p.pairs:
            kb = _to_model(k, info).b
            x = _to_model(x, info)
            if kb in pos:           # duplicate name: the last value wins, at the first position
                info["dups"] = True
                items[pos[kb]] = (items[pos[kb]][0], x)
            else:
                pos[kb] = len(items)
                items.append((Str(kb, True), x))
        return Obj(items)
    return p


class _Pairs:
    __slots__ = ("pairs",)

    def __init__(self, pairs):
        self.pairs = pairs


def _no_const(name):
    raise ValueError("non-RFC constant " + name)


_DECODER = json.JSONDecoder(parse_int=int, parse_float=Dec, parse_constant=_no_const, object_pairs_hook=_Pairs)


def py_read(text, info=None):
    """The independent reader: Python's json with literals kept (non-integer literals stay text,
    integers exact, member order kept). Raises ValueError on anything it rejects."""
    return _to_model(_DECODER.decode(text), info if info is not None else {})


def py_read_stream(text):
    out = []
    i = 0
    n = len(text)
    ws = " \t\n\r"
    while True:
        while i < n and text[i] in ws:
            i += 1
        if i >= n:
            return out
        p, i = _DECODER.raw_decode(text, i)
        out.append(_to_model(p, {}))


# ------------------------------------------------------------------------------------------
# worker context

PP_OPTS = [
    ("compact", {"indent": None, "sort_keys": False, "sep_space": False}),
    ("indent2", {"indent": "  ", "sort_keys": False, "sep_space": True}),
    ("tab", {"indent": "\t", "sort_keys": False, "sep_space": True}),
    ("indent0", {"indent": "", "sort_keys": False, "sep_space": True}),
    ("indent7", {"indent": " " * 7, "sort_keys": False, "sep_space": True}),
    ("sorted-compact", {"indent": None, "sort_keys": True, "sep_space": False}),
    ("sorted-indent2", {"indent": "  ", "sort_keys": True, "sep_space": True}),
]

CLI_OPTS = [
    ("default", []),
    ("-S", ["-S"]),
    ("--tab", ["--tab"]),
    ("--indent0", ["--indent", "0"]),
    ("--indent1", ["--indent", "1"]),
    ("--indent7", ["--indent", "7"]),
    ("-S--tab", ["-S", "--tab"]),
    ("-c", ["-c"]),
    ("-cS", ["-c", "-S"]),
]

BIN = {}        # profile -> jaqmon path, filled by main() before the workers fork

RT_PROG = "$V[] | tojson as $t | [$t] + (try ([0] + [$t | fromjson]) catch [1, .])"
TXT_PROG = "$T[] | try ([0] + [fromjson]) catch [1, .]"


class Ctx:
    def __init__(self, profile, cli, seed_tag):
        # binaries are built once by main(); workers only start them (no build lock per worker)
        self.c = par.client(profile, path=BIN.get(profile))
        self.profile = profile
        self.cli = cli
        self.rng = random.Random(seed_tag)
        self.tmp = tempfile.mkdtemp(prefix="c07-")
        self.env = {"PATH": os.environ.get("PATH", "/usr/bin:/bin"), "HOME": self.tmp, "TZ": "UTC",
                    "NO_COLOR": "1", "LOG": "off"}
        self.n = Counter()
        self.viol = []          # (prefix, detail, witness)
        self.inconc = []
        self.not_judged = Counter()
        self.flip = 0

    def close(self):
        shutil.rmtree(self.tmp, ignore_errors=True)

    def report(self, prefix, detail, witness):
        self.viol.append((prefix, detail, witness))

    # -- jaqmon ---------------------------------------------------------------------------
    def eval1(self, prog, vars_, take):
        """one case, all outputs decoded; returns ('ok', [values]) | ('panic', info) | ('bad', res)"""
        r = self.c.eval(prog, [{"input": None}], vars=vars_, take=take, timeout=300)
        if "results" not in r:
            return ("bad", r)
        res = r["results"][0]
        if res.get("panic"):
            return ("panic", res["panic"])
        if res["end"][0] != "end":
            return ("bad", res["end"])
        return ("ok", [dec(o[0]) for o in res["outs"]])

    def write(self, val, opt):
        req = {"op": "fmt", "dir": "write", "format": "json", "val": enc(val)}
        req.update({k: v for k, v in opt.items() if v is not None})
        r = self.c.request(req, timeout=300)
        if "bytes" in r:
            return bytes.fromhex(r["bytes"])
        return ("ERR", r)

    def read(self, data, via_read):
        r = self.c.request({"op": "fmt", "dir": "read", "format": "json", "bytes": data.hex(),
                            "via_read": via_read, "limit": 1000000}, timeout=300)
        if r.get("panic"):
            return None, "panic:" + str(r["panic"].get("loc")).split("/repo/")[-1]
        return [dec(x) for x in r.get("vals", [])], r.get("error")

    # -- the real binary ------------------------------------------------------------------
    def run_cli(self, args, data, via_file=None):
        if via_file is None:
            self.flip ^= 1
            via_file = bool(self.flip)
        self.n["cli_invocations"] += 1
        try:
            if via_file:
                self.n["cli_input_via_file"] += 1
                path = os.path.join(self.tmp, "in.json")
                with open(path, "wb") as f:
                    f.write(data)
                p = subprocess.run([self.cli] + args + [".", path], stdin=subprocess.DEVNULL, stdout=subprocess.PIPE,
                                   stderr=subprocess.PIPE, env=self.env, timeout=300, cwd=self.tmp)
            else:
                self.n["cli_input_via_stdin"] += 1
                p = subprocess.run([self.cli] + args + ["."], input=data, stdout=subprocess.PIPE,
                                   stderr=subprocess.PIPE, env=self.env, timeout=300, cwd=self.tmp)
        except subprocess.TimeoutExpired:
            return None, b"", b"timeout"
        return p.returncode, p.stdout, p.stderr


def lines_of(out):
    ls = out.split(b"\n")
    if ls and ls[-1] == b"":
        ls.pop()
    return ls


# ------------------------------------------------------------------------------------------
# V: the filter route

def filter_route(ctx, vals):
    """-> list of dicts {t, status, got, info} (status: ok | rejected | count | panic | bad)"""
    st, outs = ctx.eval1(RT_PROG, [("V", enc(vals))], len(vals) + 1)
    if st != "ok" or len(outs) != len(vals):
        if len(vals) == 1:
            if st == "panic":
                return [{"t": None, "status": "panic", "got": None, "info": outs}]
            return [{"t": None, "status": "bad", "got": None, "info": str(outs)[:300]}]
        res = []
        for v in vals:
            res += filter_route(ctx, [v])
        return res
    res = []
    for o in outs:
        t = o[0].b
        if o[1] == 1:
            res.append({"t": t, "status": "rejected", "got": None, "info": show(o[2])})
        elif len(o) != 3:
            res.append({"t": t, "status": "count", "got": None, "info": "%d values" % (len(o) - 2)})
        else:
            res.append({"t": t, "status": "ok", "got": o[2], "info": None})
    return res


def judge_filter(ctx, v, r):
    """-> difference class or None for one value and its filter_route result"""
    ctx.n["roundtrip_tojson_fromjson"] += 1
    if r["status"] == "panic":
        return "panic:%s" % str(r["info"].get("loc")).split("/repo/")[-1]
    if r["status"] == "bad":
        return "evaluation-failed"
    if r["status"] == "rejected":
        return "own-output-rejected"
    if r["status"] == "count":
        return "own-output-read-as-%s" % r["info"].replace(" ", "-")
    d = diff(v, r["got"])
    if d:
        return d
    # the text itself, read by the independent reader
    if in_rfc_subset(v):
        ctx.n["tojson_text_read_by_python_json"] += 1
        try:
            p = py_read(r["t"].decode("utf-8"))
        except (ValueError, UnicodeDecodeError) as e:
            return "tojson-text-not-rfc8259"
        d = diff(v, p)
        if d:
            return "python-reads:" + d
    return None


def printed_alike(ctx, vals, gots):
    """print the originals and the values read back under every writer option; -> list of
    (index, option) that differ"""
    bad = []
    for name, opt in PP_OPTS:
        a = ctx.write(vals, opt)
        b = ctx.write(gots, opt)
        ctx.n["printed_form_comparisons"] += len(vals)
        if a == b and not isinstance(a, tuple):
            continue
        for i, (x, y) in enumerate(zip(vals, gots)):
            if ctx.write(x, opt) != ctx.write(y, opt) or isinstance(ctx.write(x, opt), tuple):
                bad.append((i, name))
                if len(bad) > 5:
                    return bad
    return bad


def filter_fails(ctx, v):
    r = filter_route(ctx, [v])[0]
    d = judge_filter(ctx, v, r)
    if d is None and r["status"] == "ok" and printed_alike(ctx, [v], [r["got"]]):
        d = "printed-form-differs"
    return d


# ------------------------------------------------------------------------------------------
# C: the CLI route

def cli_check_batch(ctx, vals, texts, optnames):
    """-> list of (index, class) ; index None = could not be localised"""
    n = len(vals)
    data = b"\n".join(texts) + b"\n"
    bad = []
    rc, out, err = ctx.run_cli(["-c"], data)
    if rc is None:
        ctx.inconc.append("cli-timeout")
        return bad
    base = lines_of(out)
    if rc != 0 or len(base) != n:
        return [(None, "cli-input")]
    ctx.n["cli_values_read_and_printed"] += n
    for i in range(n):
        if base[i] != texts[i]:
            bad.append((i, "cli-reprint-differs-from-tojson"))
    rc, out, err = ctx.run_cli(["-c", "-S"], data)
    sorted_base = lines_of(out)
    if rc != 0 or len(sorted_base) != n:
        return bad + [(None, "cli-S")]
    for name, args in CLI_OPTS:
        if name not in optnames:
            continue
        rc, out, err = ctx.run_cli(args, data)
        if rc != 0:
            bad.append((None, "cli-print:" + name))
            continue
        rc2, back, err2 = ctx.run_cli(["-c"], out)
        got = lines_of(back)
        exp = sorted_base if "S" in name else base
        ctx.n["cli_print_then_parse:" + name] += n
        if rc2 != 0 or len(got) != n:
            bad.append((None, "cli-reread:" + name))
            continue
        for i in range(n):
            if got[i] != exp[i]:
                bad.append((i, "cli-roundtrip-differs:" + name))
        # the printed stream, read by the independent reader
        idx = [i for i in range(n) if in_rfc_subset(vals[i])]
        if len(idx) == n:
            try:
                ps = py_read_stream(out.decode("utf-8"))
            except (ValueError, UnicodeDecodeError):
                ps = None
            if ps is None or len(ps) != n:
                bad.append((None, "cli-output-not-rfc8259:" + name))
            else:
                ctx.n["cli_output_read_by_python_json"] += n
                if "S" not in name:
                    for i in range(n):
                        if diff(vals[i], ps[i]):
                            bad.append((i, "python-reads-cli-output:" + name))
    return bad


def cli_fails(ctx, v, text=None, optnames=None):
    """single value through every CLI option: class or None"""
    if text is None:
        r = filter_route(ctx, [v])[0]
        text = r["t"]
        if text is None:
            return None
    names = optnames or [n for n, _ in CLI_OPTS]
    for via_file in (False, True):
        data = text + b"\n"
        rc, out, err = ctx.run_cli(["-c"], data, via_file)
        if rc is None:
            return None
        if rc != 0:
            return "cli-rejects-tojson-text(%s)" % ("file" if via_file else "stdin")
        base = lines_of(out)
        if len(base) != 1:
            return "cli-reads-%d-values" % len(base)
        if base[0] != text:
            return "cli-reprint-differs-from-tojson"
        rc, out, err = ctx.run_cli(["-c", "-S"], data, via_file)
        sorted_base = lines_of(out)
        for name, args in CLI_OPTS:
            if name not in names:
                continue
            rc, out, err = ctx.run_cli(args, data, via_file)
            if rc != 0:
                return "cli-print-fails:" + name
            rc2, back, err2 = ctx.run_cli(["-c"], out, via_file)
            if rc2 != 0:
                return "cli-rejects-own-output:" + name
            got = lines_of(back)
            if got != (sorted_base if "S" in name else base):
                return "cli-roundtrip-differs:" + name
            if in_rfc_subset(v):
                try:
                    ps = py_read_stream(out.decode("utf-8"))
                except (ValueError, UnicodeDecodeError):
                    return "cli-output-not-rfc8259:" + name
                if len(ps) != 1 or ("S" not in name and diff(v, ps[0])):
                    return "python-reads-cli-output:" + name
    return None


# ------------------------------------------------------------------------------------------
# shrinking and keys

def bisect_fail(items, bad):
    """narrow a failing list of items down to a sublist that still fails (a single item when one
    fails alone); `bad(sublist)` re-executes. O(log n) re-executions."""
    while len(items) > 1:
        h = len(items) // 2
        if bad(items[:h]):
            items = items[:h]
        elif bad(items[h:]):
            items = items[h:]
        else:
            # fails only as a stream: shrink from both ends
            lo, hi = 0, len(items)
            while hi - lo > 2 and bad(items[lo + 1:hi]):
                lo += 1
            while hi - lo > 2 and bad(items[lo:hi - 1]):
                hi -= 1
            return items[lo:hi]
    return items


def parts(v):
    if isinstance(v, list):
        for x in v:
            yield x
    elif isinstance(v, Obj):
        for k, x in v.items:
            yield k
            yield x
        if len(v.items) > 1:
            for i in range(len(v.items)):
                yield Obj(v.items[:i] + v.items[i + 1:])
    elif isinstance(v, Str):
        ch = V.utf8_chunks(v.b) if v.text else [bytes([x]) for x in v.b]
        if len(ch) > 1:
            seen = set()
            for c in ch:
                if c not in seen:
                    seen.add(c)
                    yield Str(c, v.text)
            yield Str(b"".join(ch[1:]), v.text)
            yield Str(b"".join(ch[:-1]), v.text)


def shrink(v, fails, cls, budget=80):
    """greedy descent to a part that still fails (with whatever class); -> (part, its class)"""
    cur = v
    progress = True
    while progress and budget > 0:
        progress = False
        for p in parts(cur):
            budget -= 1
            if budget <= 0:
                break
            try:
                c2 = fails(p)
            except WorkerDied:
                break
            if c2:
                cur, cls = p, c2
                progress = True
                break
    return cur, cls


def detail_of(v):
    """exact failing input for small values, its class otherwise"""
    if isinstance(v, Str):
        if len(v.b) <= 8:
            return ("text" if v.text else "bytes") + ":hex=" + v.b.hex()
        return rep(v) + ":len>8"
    if isinstance(v, (list, Obj)):
        s = show(v)
        return s if len(s) <= 40 else rep(v)
    s = show(v)
    return s if len(s) <= 48 else rep(v) + ":long"


def report_value(ctx, route, cls, v, fails, fam):
    small, cls = shrink(v, fails, cls)
    ctx.report("%s:%s:%s" % (route, cls, rep(small)), detail_of(small),
               {"kind": "value", "route": route, "class": cls, "family": fam, "value": show(small, 400),
                "wire": enc(small), "original": show(v, 400), "original_wire": enc(v),
                "tojson": safe_text(ctx, small)})


def safe_text(ctx, v):
    try:
        t = ctx.write(v, {"indent": None})
        return t.decode("utf-8", "backslashreplace") if isinstance(t, bytes) else str(t)
    except Exception as e:      # noqa
        return "?"


def check_values(ctx, vals, fam, cli_opts):
    """all observations for a batch of typed values"""
    rs = filter_route(ctx, vals)
    okv, okg, okt = [], [], []
    for v, r in zip(vals, rs):
        d = judge_filter(ctx, v, r)
        if d:
            if len([1 for p, _, _ in ctx.viol if p.startswith("filter:" + d)]) < 6:
                report_value(ctx, "filter", d, v, lambda x: filter_fails(ctx, x), fam)
            else:
                ctx.report("filter:%s:%s" % (d, rep(v)), "more", None)
        if r["status"] == "ok":
            okv.append(v)
            okg.append(r["got"])
            okt.append(r["t"])
    if okv:
        for i, name in printed_alike(ctx, okv, okg)[:3]:
            report_value(ctx, "filter", "printed-form-differs", okv[i], lambda x: filter_fails(ctx, x), fam)
    if okv and cli_opts:
        bad = cli_check_batch(ctx, okv, okt, cli_opts)
        if bad and ctx.n["cli_reports"] >= 3:
            ctx.report("cli:" + sorted(c for _, c in bad)[0], "more", None)
            return
        if bad:
            ctx.n["cli_reports"] += 1
        if any(i is None for i, _ in bad):
            # not localised: bisect the batch (each step re-runs the batch check on a sublist)
            def bad_sub(idx):
                return bool(cli_check_batch(ctx, [okv[i] for i in idx], [okt[i] for i in idx], cli_opts))
            sub = bisect_fail(list(range(len(okv))), bad_sub)
            cls = cli_fails(ctx, okv[sub[0]], okt[sub[0]]) if len(sub) == 1 else None
            if cls:
                report_value(ctx, "cli", cls, okv[sub[0]], lambda x: cli_fails(ctx, x), fam)
            else:
                ctx.report("cli:in-stream-only:" + ",".join(sorted({c for i, c in bad if i is None})),
                           "|".join(detail_of(okv[i]) for i in sub[:3]),
                           {"kind": "batch", "classes": [c for _, c in bad][:5],
                            "wires": [enc(okv[i]) for i in sub[:50]]})
        else:
            seen = set()
            for i, cls in bad:
                if cls in seen:
                    continue
                seen.add(cls)
                one = cli_fails(ctx, okv[i], okt[i])
                if one:
                    report_value(ctx, "cli", one, okv[i], lambda x: cli_fails(ctx, x), fam)
                else:
                    ctx.report("cli:in-stream-only:" + cls, detail_of(okv[i]),
                               {"kind": "value", "route": "cli", "class": cls, "value": show(okv[i], 400),
                                "wire": enc(okv[i]), "note": "differs only inside a stream of values"})


# ------------------------------------------------------------------------------------------
# T: RFC 8259 texts

def py_expected(text):
    info = {}
    return py_read(text, info), info


def diff_text(exp, got, dups):
    if dups and isinstance(exp, (list, Obj)):
        return diff_unordered(exp, got)
    return diff(exp, got)


def diff_unordered(exp, got):
    """as diff, but objects compared as maps (order not judged when a name is duplicated)"""
    if isinstance(exp, Obj) and isinstance(got, Obj):
        if len(exp.items) != len(got.items):
            return "object-size-changed"
        for k, x in exp.items:
            m = [y for kk, y in got.items if diff(k, kk) is None]
            if len(m) != 1:
                return "key-missing"
            d = diff_unordered(x, m[0])
            if d:
                return d
        return None
    if isinstance(exp, list) and isinstance(got, list) and len(exp) == len(got):
        for x, y in zip(exp, got):
            d = diff_unordered(x, y)
            if d:
                return d
        return None
    return diff(exp, got)


def text_one(ctx, text, exp, dups, routes=("filter", "parse", "read", "stdin", "file")):
    """one text through every reading route: class or None"""
    tb = text.encode("utf-8")
    for route in routes:
        if route == "filter":
            st, outs = ctx.eval1(TXT_PROG, [("T", enc([Str(tb, True)]))], 3)
            if st == "panic":
                return "panic:%s" % str(outs.get("loc")).split("/repo/")[-1], route
            if st != "ok" or len(outs) != 1:
                return "evaluation-failed", route
            o = outs[0]
            if o[0] == 1:
                return "rejected", route
            if len(o) != 2:
                return "read-as-%d-values" % (len(o) - 1), route
            d = diff_text(exp, o[1], dups)
        elif route in ("parse", "read"):
            vals, err = ctx.read(tb, route == "read")
            if vals is None:
                return err, route
            if err:
                return "rejected", route
            if len(vals) != 1:
                return "read-as-%d-values" % len(vals), route
            d = diff_text(exp, vals[0], dups)
        else:
            rc, out, err = ctx.run_cli(["-c"], tb + b"\n", route == "file")
            if rc is None:
                return None, route
            if rc != 0:
                return "rejected", route
            ls = lines_of(out)
            if len(ls) != 1:
                return "read-as-%d-values" % len(ls), route
            try:
                p = py_read(ls[0].decode("utf-8"))
            except (ValueError, UnicodeDecodeError):
                return "cli-output-not-rfc8259", route
            d = diff_text(exp, p, dups)
        if d:
            return d, route
    return None, None


def check_texts(ctx, items, fam):
    """items: list of (text, [literal texts it was built from])"""
    judged = []
    for text, lits in items:
        try:
            exp, info = py_expected(text)
        except ValueError as e:
            raise RuntimeError("generator produced a text Python's json rejects: %r (%s)" % (text, e))
        if info.get("lone"):
            ctx.not_judged["text-with-lone-surrogate"] += 1
            continue
        judged.append((text, lits, exp, bool(info.get("dups"))))
    if not judged:
        return
    n = len(judged)
    failing = {}     # index -> (class, route)

    def note(i, cls, route):
        failing.setdefault(i, (cls, route))

    # filter route
    tvals = [Str(t.encode("utf-8"), True) for t, _, _, _ in judged]
    st, outs = ctx.eval1(TXT_PROG, [("T", enc(tvals))], n + 1)
    if st != "ok" or len(outs) != n:
        for i, (t, _, exp, dups) in enumerate(judged):
            cls, route = text_one(ctx, t, exp, dups, ("filter",))
            if cls:
                note(i, cls, route)
    else:
        for i, o in enumerate(outs):
            exp, dups = judged[i][2], judged[i][3]
            if o[0] == 1:
                note(i, "rejected", "filter")
            elif len(o) != 2:
                note(i, "read-as-%d-values" % (len(o) - 1), "filter")
            else:
                d = diff_text(exp, o[1], dups)
                if d:
                    note(i, d, "filter")
    ctx.n["texts_read_by_fromjson"] += n
    # both format readers on the concatenated stream (separated by RFC whitespace characters)
    seps = [b"\n", b" ", b"\t", b"\r", b"\r\n", b" \n "]
    sep_of = [ctx.rng.choice(seps) for _ in judged]

    def stream(idx):
        return b"".join(judged[i][0].encode("utf-8") + sep_of[i] for i in idx)

    def localise(route, bad):
        """a stream was misread: find the text responsible"""
        sub = bisect_fail(list(range(n)), bad)
        if len(sub) == 1:
            i = sub[0]
            cls, r = text_one(ctx, judged[i][0], judged[i][2], judged[i][3], (route,))
            note(i, cls or "misread-with-trailing-whitespace", route)
        else:
            failing.setdefault(sub[0], ("stream-of-texts-misread", route))
            stream_note[sub[0]] = [judged[i][0] for i in sub]

    stream_note = {}
    data = stream(range(n))
    for via_read in (False, True):
        route = "read" if via_read else "parse"

        def bad_read(idx, via_read=via_read):
            vals, err = ctx.read(stream(idx), via_read)
            return vals is None or bool(err) or len(vals) != len(idx)
        vals, err = ctx.read(data, via_read)
        if vals is None or err or len(vals) != n:
            localise(route, bad_read)
        else:
            for i in range(n):
                d = diff_text(judged[i][2], vals[i], judged[i][3])
                if d:
                    note(i, d, route)
        ctx.n["texts_read_by_format_reader(%s)" % ("io" if via_read else "slice")] += n
    # the binary: stdin and file; compact and pretty output read by the independent reader
    for via_file in (False, True):
        route = "file" if via_file else "stdin"
        for args in (["-c"], []):
            def cli_read(idx, via_file=via_file, args=args):
                rc, out, err = ctx.run_cli(args, stream(idx), via_file)
                if rc is None:
                    return "timeout"
                if rc != 0:
                    return None
                try:
                    ps = py_read_stream(out.decode("utf-8"))
                except (ValueError, UnicodeDecodeError):
                    return None
                return ps if len(ps) == len(idx) else None
            ps = cli_read(range(n))
            if ps == "timeout":
                ctx.inconc.append("cli-timeout")
                continue
            if ps is None:
                localise(route, lambda idx: not isinstance(cli_read(idx), list))
            else:
                for i in range(n):
                    d = diff_text(judged[i][2], ps[i], judged[i][3])
                    if d:
                        note(i, d, route)
            ctx.n["texts_through_cli(%s,%s)" % (route, "compact" if args else "pretty")] += n
    # report (shrunk to the literal that fails alone, when there is one)
    reported = 0
    for i in sorted(failing):
        cls, route = failing[i]
        text, lits, exp, dups = judged[i]
        small = text
        for lit in lits:
            try:
                e2, info2 = py_expected(lit)
            except ValueError:
                continue
            c2, _ = text_one(ctx, lit, e2, bool(info2.get("dups")), (route,))
            if c2 == cls:
                small = lit
                break
        detail = small.strip(" \t\n\r")
        detail = "".join(c if 0x20 <= ord(c) != 0x7f else "\\x%02x" % ord(c) for c in detail)   # one-line keys
        detail = detail if len(detail) <= 60 else "text:len>60"
        ctx.report("text:%s:%s" % (route, cls), detail,
                   {"kind": "text", "route": route, "class": cls, "family": fam, "text": small,
                    "text_hex": small.encode("utf-8").hex(), "original": text, "stream": stream_note.get(i),
                    "python_reads": show(py_expected(small)[0], 300)})
        reported += 1
        if reported >= 6:
            break


# ------------------------------------------------------------------------------------------
# generators: values

def rand_float(rng):
    r = rng.random()
    if r < 0.45:
        return struct.unpack(">d", struct.pack(">Q", rng.getrandbits(64)))[0]
    if r < 0.6:       # few significant digits, any exponent
        return float("%de%d" % (rng.randrange(-999, 1000), rng.randrange(-330, 310)))
    if r < 0.7:       # integers in float form, around 2^53 and powers of ten
        return float(rng.choice([2 ** rng.randrange(0, 1024), 10 ** rng.randrange(0, 309)]) + rng.randrange(-2, 3))
    if r < 0.8:       # subnormals
        return struct.unpack(">d", struct.pack(">Q", rng.getrandbits(52) | (rng.getrandbits(1) << 63)))[0]
    if r < 0.9:       # neighbours of powers of two / ten (shortest-representation hard cases)
        x = float(rng.choice([2.0 ** rng.randrange(-1074, 1024), float("1e%d" % rng.randrange(-323, 309))]))
        for _ in range(rng.randrange(0, 3)):
            x = math.nextafter(x, rng.choice([math.inf, -math.inf]))
        return x
    return rng.uniform(-1e6, 1e6)


TORTURE_FLOATS = [
    5e-324, 2.2250738585072014e-308, 2.2250738585072009e-308, 1.7976931348623157e308, 9007199254740993.0,
    9007199254740991.0, 9007199254740992.0, 9007199254740994.0, 1e21, 1e22, 1e23, 9.999999999999999e22, 1e-7,
    1e-6, 1e-5, 123456789012345680.0, 0.1, 0.2, 0.30000000000000004, 1 / 3, 2 / 3, 1e15, 1e16, 1e17,
    4.35, 0.000001, 5e-7, 1.0000000000000002, 0.9999999999999999, 8.41e21, 2.0 ** -1074, 2.0 ** -1022,
    2.0 ** 1023, 1.2345678901234567e-300, 9.5367431640625e-07, 4.4501477170144023e-308, 1.8145860519450699e-5,
    2.9802322387695312e-8, 3.4028234663852886e38, 1.1754943508222875e-38, 6.02214076e23, 299792458.0,
    1e100, 1e-100, 17.0, 1e300 * 1e8, -1e300 * 1e8, 0.0, -0.0, 4.9406564584124654e-324, 8.5e-323,
    7.2057594037927933e16, 5.0e-324, 1.5, -1.5, 100.0, 1e2, 123e-20,
]


def nan_variants():
    return [struct.unpack(">d", bytes.fromhex(h))[0] for h in
            ("7ff8000000000000", "fff8000000000000", "7ff0000000000001", "7fffffffffffffff")]


def rand_dec(rng):
    def digits(lo, hi, nz=False):
        n = rng.randrange(lo, hi + 1)
        s = "".join(rng.choice("0123456789") for _ in range(n))
        if nz and s and s[0] == "0" and len(s) > 1:
            s = rng.choice("123456789") + s[1:]
        return s
    sign = "-" if rng.random() < 0.3 else ""
    ip = digits(1, 3, True) if rng.random() < 0.8 else digits(15, 40, True)
    r = rng.random()
    frac = ""
    exp = ""
    if r < 0.45:
        frac = "." + (digits(1, 4) if rng.random() < 0.8 else digits(15, 30))
    elif r < 0.7:
        exp = rng.choice("eE") + rng.choice(["", "+", "-"]) + digits(1, 4)
    else:
        frac = "." + digits(1, 6)
        exp = rng.choice("eE") + rng.choice(["", "+", "-"]) + digits(1, 4)
    return Dec(sign + ip + frac + exp)


FIXED_DECS = [Dec(t) for t in (
    "1.10", "1e1000", "0.1e-400", "-0.0", "0.0", "-0e0", "0e0", "0E0", "1.0", "1.00", "1e0", "1E2", "1E+2", "1e+2",
    "1e-2", "1E-2", "0.0e-0", "-0.0E+0", "100e-2", "2.50", "1.5", "3.0", "9007199254740992.0", "9007199254740993.0",
    "18446744073709551616.0", "1e400", "-1e400", "1e-400", "4.9e-324", "2.4703282292062327e-324",
    "1.7976931348623159e308", "0.1000000000000000055511151231257827", "1.0000000000000000000000000000000001",
    "123456789012345678901234567890.123456789012345678901234567890", "1e00", "1e007", "1E-007", "10e0",
    "0.10", "0.000", "-1.5e-7", "6.02214076E23", "1.0E+2")]

XJON_DECS = [Dec(t) for t in ("+7.1", "007.50", "-042.0", "+0.0", "00e0", "+1e5", "01.0")]


def ints_pool():
    out = []
    for k in range(0, 131):
        for d in (-1, 0, 1):
            for s in (1, -1):
                out.append(s * (2 ** k + d))
    out += [10 ** k + d for k in range(0, 40) for d in (-1, 0, 1)]
    out += [-(10 ** k) for k in range(0, 40)]
    seen = set()
    res = []
    for x in out:
        if x not in seen:
            seen.add(x)
            res.append(x)
    # the same values forced into the big-integer representation
    res += [Big(x) for x in res if -(2 ** 63) <= x < 2 ** 63 and (abs(x) < 300 or abs(x) > 2 ** 52)]
    return res


def str_tuples(n):
    return itertools.product(range(len(ALPHA)), repeat=n)


def strings_of_len(n, lo, hi):
    """both kinds of string for the tuples number lo..hi of length n (lexicographic)"""
    out = []
    for t in itertools.islice(str_tuples(n), lo, hi):
        b = b"".join(ALPHA[i] for i in t)
        out.append(Str(b, True))
        out.append(Str(b, False))
    return out


def bytes_family():
    out = []
    for x in range(256):
        b = bytes([x])
        for t in (True, False):
            out.append(Str(b, t))
            out.append(Str(b"a" + b + b"b", t))
            out.append(Str(b"\xc3\xa9" + b + b"\xc3", t))
    # every two-byte lead with every class of continuation; overlong, surrogate, > U+10FFFF
    for b in (b"\xc0\x80", b"\xc1\xbf", b"\xe0\x80\x80", b"\xed\xa0\x80", b"\xed\xbf\xbf", b"\xf4\x90\x80\x80",
              b"\xf0\x80\x80\x80", b"\xf8\x88\x80\x80\x80", b"\xe2\x82", b"\xf0\x9f\x98", b"\xef\xbf\xbe",
              b"\xef\xbb\xbf", b"\xf4\x8f\xbf\xbf", b"\xdf\xbf", b"\xe0\xa0\x80", b"\xf0\x90\x80\x80"):
        for t in (True, False):
            out.append(Str(b, t))
            out.append(Str(b'"' + b + b"\\", t))
    return out


TREE_ATOMS = [None, False, 2 ** 64, 1.5, Dec("1e1000"), S(""), S("é\n"), Str(b"\x00\xff", False)]
TREE_KEYS = [S("a"), 1, None, [S("b")], Str(b"\xfek", False)]

KEY_POOL = [S("a"), S("b"), S(""), S("a\u0000"), S("é"), Str(b"\xff", True), Str(b"\xfe", False), 0, -1, 2 ** 70,
            1.5, Dec("1e1000"), Dec("1.10"), None, True, False, [], [S("a")], Obj([]), Obj([(S("x"), 1)]),
            float("-inf"), -0.5]


def keys_family(rng, limit):
    out = []
    ks = KEY_POOL
    for n in (1, 2, 3):
        perms = list(itertools.permutations(range(len(ks)), n))
        if n == 3 and len(perms) > limit:
            perms = rng.sample(perms, limit)
        for p in perms:
            out.append(Obj([(ks[i], j) for j, i in enumerate(p)]))
    for _ in range(limit // 4):
        p = rng.sample(range(len(ks)), rng.randrange(4, 9))
        out.append(Obj([(ks[i], rng.choice([j, S("v"), [j], Obj([(ks[i], None)])])) for j, i in enumerate(p)]))
    return out


def rand_string(rng):
    r = rng.random()
    n = rng.choice([0, 1, 2, 3, 4, 5, 8, 13, 40]) if r < 0.9 else rng.randrange(100, 400)
    parts_ = []
    for _ in range(n):
        q = rng.random()
        if q < 0.45:
            parts_.append(rng.choice(ALPHA))
        elif q < 0.65:
            parts_.append(bytes([rng.randrange(256)]))
        elif q < 0.85:
            parts_.append(chr(rng.choice([rng.randrange(0x20, 0x7f), rng.randrange(0x80, 0x800),
                                          rng.randrange(0x800, 0xd800), rng.randrange(0xe000, 0x10000),
                                          rng.randrange(0x10000, 0x110000)])).encode("utf-8"))
        else:
            parts_.append(rng.choice([b"a", b"Z", b"0", b"u", b"x", b"b", b"n", b"{", b"}", b"[", b":", b",", b"#"]))
    return Str(b"".join(parts_), rng.random() < 0.7)


def rand_scalar(rng):
    r = rng.random()
    if r < 0.08:
        return rng.choice([None, True, False])
    if r < 0.25:
        x = rng.choice([rng.randrange(-10, 10), rng.randrange(-2 ** 63, 2 ** 63), rng.getrandbits(rng.randrange(1, 200)),
                        -rng.getrandbits(rng.randrange(60, 140))])
        return Big(x) if (-(2 ** 63) <= x < 2 ** 63 and rng.random() < 0.2) else x
    if r < 0.4:
        return rand_float(rng) if rng.random() < 0.93 else rng.choice([math.nan, math.inf, -math.inf])
    if r < 0.52:
        return rand_dec(rng) if rng.random() < 0.8 else rng.choice(FIXED_DECS)
    return rand_string(rng)


def rand_tree(rng, depth, width):
    if depth <= 0 or rng.random() < 0.3:
        return rand_scalar(rng)
    if rng.random() < 0.45:
        return [rand_tree(rng, depth - 1, width) for _ in range(rng.randrange(width + 1))]
    items = []
    used = []
    for _ in range(rng.randrange(width + 1)):
        r = rng.random()
        if r < 0.55:
            k = rand_string(rng)
        elif r < 0.8:
            k = rand_scalar(rng)
        else:
            k = rand_tree(rng, depth - 1, 2)
        if V.has_nan(k):
            continue
        try:
            if any(V.eq(k, u) for u in used) or not all(V.cmp_in_domain(k, u) for u in used):
                continue
        except Exception:       # noqa  (model cannot decide equality: not a key we generate)
            continue
        used.append(k)
        items.append((k, rand_tree(rng, depth - 1, width)))
    return Obj(items)


# ------------------------------------------------------------------------------------------
# generators: RFC 8259 texts (independent of jaq's and of Python's writer)

WS = [" ", "\t", "\n", "\r"]
RAW_CHARS = ["a", "Z", "0", " ", "/", "'", "<", "&", "{", "[", ":", ",", "#", "}", "]", "u", "\x7f", "\x80", "\xe9",
             "\u07ff", "\u0800", "\u2028", "\u2029", "\ud7ff", "\ue000", "\ufeff", "\ufffd", "\uffff",
             "\U00010000", "\U0001d11e", "\U0010ffff"]
SIMPLE_ESC = ['\\"', "\\\\", "\\/", "\\b", "\\f", "\\n", "\\r", "\\t"]
ESC_CPS = [0x0000, 0x0001, 0x0008, 0x001f, 0x0020, 0x0022, 0x002f, 0x005c, 0x007f, 0x0080, 0x00e9, 0x07ff, 0x0800,
           0x2028, 0xd7ff, 0xe000, 0xfeff, 0xfffd, 0xfffe, 0xffff, 0x10000, 0x1d11e, 0x10ffff, 0xffff + 1 + 0x3ff,
           0x10fc00]

FIXED_NUMS = ["0", "-0", "1", "-1", "10", "1E+2", "1e2", "1E2", "1e+2", "1e-2", "0.0e-0", "-0.0", "0.0", "-0e0",
              "-0E-0", "1.10", "1.0", "1e1000", "-1e1000", "0.1e-400", "1E400", "9007199254740993",
              "18446744073709551616", "-9223372036854775808", "-9223372036854775809", "9223372036854775807",
              "9223372036854775808", "123456789012345678901234567890123456789012345678901234567890",
              "1.7976931348623157e308", "5e-324", "4.9E-324", "0.1", "0.30000000000000004", "100e-2",
              "1.000000000000000000000000001", "0e0", "0E+0", "1e00", "1E-0", "12345678901234567890.5",
              "340282366920938463463374607431768211456", "-340282366920938463463374607431768211457",
              "1361129467683753853853498429727072845824", "2E0", "2e+00", "20e-1", "0.5E1"]


def hex4(x, rng):
    return "".join(rng.choice([c, c.upper()]) for c in "%04x" % x)


def esc_cp(cp, rng):
    if cp < 0x10000:
        return "\\u" + hex4(cp, rng)
    cp -= 0x10000
    return "\\u" + hex4(0xd800 + (cp >> 10), rng) + "\\u" + hex4(0xdc00 + (cp & 0x3ff), rng)


def gen_ws(rng):
    if rng.random() < 0.6:
        return ""
    return "".join(rng.choice(WS) for _ in range(rng.randrange(1, 4)))


def gen_string(rng, lone=False):
    n = rng.choice([0, 1, 1, 2, 3, 5, 9])
    out = []
    for _ in range(n):
        r = rng.random()
        if r < 0.4:
            out.append(rng.choice(RAW_CHARS))
        elif r < 0.6:
            out.append(rng.choice(SIMPLE_ESC))
        elif r < 0.8:
            out.append(esc_cp(rng.choice(ESC_CPS), rng))
        elif r < 0.9:
            cp = rng.choice([rng.randrange(0, 0xd800), rng.randrange(0xe000, 0x110000)])
            out.append(esc_cp(cp, rng))
        else:
            cp = rng.choice([rng.randrange(0x20, 0xd800), rng.randrange(0xe000, 0x110000)])
            c = chr(cp)
            out.append(c if c not in '"\\' else "\\" + c)
    if lone:
        out.insert(rng.randrange(len(out) + 1), "\\u" + hex4(rng.choice([0xd800, 0xdbff, 0xdc00, 0xdfff]), rng))
    return '"' + "".join(out) + '"'


def gen_number(rng):
    if rng.random() < 0.3:
        return rng.choice(FIXED_NUMS)

    def digits(lo, hi):
        return "".join(rng.choice("0123456789") for _ in range(rng.randrange(lo, hi + 1)))
    sign = "-" if rng.random() < 0.3 else ""
    r = rng.random()
    if r < 0.15:
        ip = "0"
    elif r < 0.85:
        ip = rng.choice("123456789") + digits(0, 3)
    else:
        ip = rng.choice("123456789") + digits(17, 45)
    frac = ""
    exp = ""
    r = rng.random()
    if r < 0.35:
        pass
    elif r < 0.6:
        frac = "." + digits(1, 5)
    elif r < 0.8:
        exp = rng.choice("eE") + rng.choice(["", "+", "-"]) + digits(1, 4)
    else:
        frac = "." + digits(1, 22)
        exp = rng.choice("eE") + rng.choice(["", "+", "-"]) + digits(1, 3)
    return sign + ip + frac + exp


KEY_SPELLINGS = ['"a"', '"\\u0061"', '"b"', '""', '"é"', '"\\u00e9"', '"\\u00E9"', '"\\n"', '"k\\/"', '"k/"',
                 '"\\ud834\\udd1e"', '"\U0001d11e"', '"1"', '"null"']


def gen_value(rng, depth, lits):
    r = rng.random()
    if depth <= 0 or r < 0.45:
        q = rng.random()
        if q < 0.12:
            t = rng.choice(["null", "true", "false"])
        elif q < 0.55:
            t = gen_number(rng)
        else:
            t = gen_string(rng, lone=rng.random() < 0.01)
        lits.append(t)
        return t
    if r < 0.72:
        n = rng.choice([0, 0, 1, 2, 3])
        body = ""
        for i in range(n):
            if i:
                body += gen_ws(rng) + "," + gen_ws(rng)
            body += gen_value(rng, depth - 1, lits)
        return "[" + gen_ws(rng) + body + gen_ws(rng) + "]"
    n = rng.choice([0, 0, 1, 2, 3, 4])
    body = ""
    for i in range(n):
        if i:
            body += gen_ws(rng) + "," + gen_ws(rng)
        k = rng.choice(KEY_SPELLINGS) if rng.random() < 0.6 else gen_string(rng)
        lits.append(k)
        body += k + gen_ws(rng) + ":" + gen_ws(rng) + gen_value(rng, depth - 1, lits)
    return "{" + gen_ws(rng) + body + gen_ws(rng) + "}"


def gen_text(rng):
    lits = []
    t = gen_ws(rng) + gen_value(rng, rng.choice([0, 1, 2, 3]), lits) + gen_ws(rng)
    return t, lits


def fixed_texts():
    out = []
    for nmb in FIXED_NUMS:
        out += [nmb, "[" + nmb + "]", '{"n":' + nmb + "}", " " + nmb + "\t", "[" + nmb + "," + nmb + "]"]
    for e in SIMPLE_ESC:
        out += ['"' + e + '"', '"a' + e + 'b"', '{"' + e + '":"' + e + '"}']
    for w in WS:
        out += [w + "[" + w + "1" + w + "," + w + "{" + w + '"a"' + w + ":" + w + "null" + w + "}" + w + "]" + w,
                "[" + w + "]", "{" + w + "}", w + "true" + w, w + '" "' + w]
    out += ["[]", "{}", "[[]]", "[{}]", '{"":{}}', '{"":[]}', "[[],[]]", "[[[[[[[[[[]]]]]]]]]]", '{"a":{"a":{"a":{}}}}',
            '{"a":1,"a":2}', '{"a":1,"b":2,"a":3}', '{"a":1,"\\u0061":2}', '{"b":0,"a":1,"b":2,"a":3}',
            '{"a":{"x":1},"a":{"y":2}}', '{"":1,"":2}', '"\\ud834\\udd1e"', '"\\uD834\\uDD1E"', '"\\ud800\\udc00"',
            '"\\udbff\\udfff"', '"\\u0000"', '"\\u001f"', '"\\u007f"', '"\\u2028\\u2029"', '"\\"\\\\\\/\\b\\f\\n\\r\\t"',
            '"/"', '"\\/"', '"\x7f"', '" "', '"\U00010000￿"', "null", "true", "false",
            '["\\u00e9","é"]', '{"é":"\\u00e9"}']
    # nesting far beyond hand-written documents (RFC 8259 sets no limit; a reader with a depth bound would
    # reject what the writer prints). As texts only: the helper's *request* parser has a nesting limit.
    for depth in (100, 255, 256, 257, 300):
        out.append("[" * depth + "1" + "]" * depth)
        out.append('{"k":[' * (depth // 2) + "null" + "]}" * (depth // 2))
    return [(t, [t]) for t in out]


def uescape_texts(lo, hi):
    """every \\uXXXX escape lo <= XXXX < hi (surrogate halves as pairs with the boundary partners)"""
    out = []
    for x in range(lo, hi):
        if 0xd800 <= x < 0xdc00:
            for y in (0xdc00, 0xdfff):
                out.append('"\\u%04x\\u%04X"' % (x, y))
        elif 0xdc00 <= x < 0xe000:
            for y in (0xd800, 0xdbff):
                out.append('"\\u%04X\\u%04x"' % (y, x))
        else:
            out.append('"\\u%04x"' % x if x % 2 else '"\\u%04X"' % x)
    return [(t, [t]) for t in out]


# ------------------------------------------------------------------------------------------
# tasks

def family_values(fam, arg, rng, tier):
    if fam == "str":
        n, lo, hi = arg
        return strings_of_len(n, lo, hi)
    if fam == "bytes":
        return bytes_family()
    if fam == "ints":
        return ints_pool()
    if fam == "floats-fixed":
        fs = list(gen.FLOATS) + TORTURE_FLOATS + nan_variants()
        fs += [-x for x in TORTURE_FLOATS]
        return fs + [[x] for x in fs[:40]] + [Obj([(S("k"), x)]) for x in fs[:40]]
    if fam == "floats":
        return [rand_float(rng) for _ in range(arg)]
    if fam == "decs-fixed":
        ds = FIXED_DECS + list(gen.DECS) + XJON_DECS
        return ds + [[d, d] for d in ds] + [Obj([(d, d)]) for d in ds]
    if fam == "decs":
        return [rand_dec(rng) for _ in range(arg)]
    if fam == "trees":
        max_nodes, lo, hi = arg
        keys = TREE_KEYS if max_nodes <= 3 else TREE_KEYS[:4]
        return gen.small_trees(TREE_ATOMS, keys, max_nodes)[lo:hi]
    if fam == "keys":
        return keys_family(rng, arg)
    if fam == "deep":
        # nesting well beyond what hand-written documents have (a reader with a depth bound must still read
        # what the writer prints); alternating arrays and objects, a scalar at the bottom
        out = []
        for depth in arg:
            v = 1
            for i in range(depth):
                v = [v] if i % 2 == 0 else Obj([(S("k"), v)])
            out.append(v)
            out.append([0, v, Obj([(S("a"), v)])])
        return out
    if fam == "rand":
        n, depth, width = arg
        return [rand_tree(rng, depth, width) for _ in range(n)]
    raise ValueError(fam)


def value_digest(v):
    return hashlib.md5(repr(freeze(v)).encode("utf-8", "surrogatepass")).digest()[:8]


def nontrivial(v):
    return not (v is None or isinstance(v, bool))


def task(t):
    fam, arg, idx, seed, tier, profile, cli, batch = t
    ctx = Ctx(profile, cli, f"c07/{seed}/{fam}/{arg}/{idx}")
    TALLY.clear()
    out = {"fam": fam, "values": 0, "texts": 0, "digests": set(), "sample": None}
    try:
        if fam in ("rfc", "rfc-fixed", "rfc-u"):
            if fam == "rfc":
                items = [gen_text(ctx.rng) for _ in range(arg)]
            elif fam == "rfc-fixed":
                items = fixed_texts()
            else:
                items = uescape_texts(*arg)
            for i in range(0, len(items), batch):
                check_texts(ctx, items[i:i + batch], fam)
            out["texts"] = len(items)
            out["digests"] = {hashlib.md5(t.encode("utf-8", "surrogatepass")).digest()[:8] for t, _ in items
                              if t.strip(" \t\n\r") not in ("null", "true", "false")}
            t0 = items[ctx.rng.randrange(len(items))][0]
            out["sample"] = {"family": fam, "text": t0, "python_reads": show(py_expected(t0)[0], 200)}
        else:
            vals = family_values(fam, arg, ctx.rng, tier)
            names = [n for n, _ in CLI_OPTS]
            for i in range(0, len(vals), batch):
                # five option sets per batch: the three fixed ones and two of the others
                opts = ["default", "-S", "--tab"] + ctx.rng.sample(names[3:], 2)
                check_values(ctx, vals[i:i + batch], fam, opts)
            out["values"] = len(vals)
            out["digests"] = {value_digest(v) for v in vals if nontrivial(v)}
            if vals:
                v0 = vals[ctx.rng.randrange(len(vals))]
                out["sample"] = {"family": fam, "value": show(v0, 160), "tojson": safe_text(ctx, v0)[:200]}
    except WorkerDied as e:
        ctx.inconc.append(classify_death(e))
    finally:
        ctx.close()
    ctx.n.update(TALLY)
    out["n"] = dict(ctx.n)
    out["viol"] = ctx.viol
    out["inconc"] = ctx.inconc
    out["not_judged"] = dict(ctx.not_judged)
    return out


def chunks(total, size):
    return [(lo, min(total, lo + size)) for lo in range(0, total, size)]


def build_tasks(run, cli):
    T = run.tier == "thorough"
    tasks = []

    def add(fam, arg, idx=0, profile="verif", batch=500):
        tasks.append((fam, arg, idx, run.seed, run.tier, profile, cli, batch))

    def prof(i, every=3):
        return "release" if i % every == 0 else "verif"
    for n in (0, 1, 2, 3):
        for j, (lo, hi) in enumerate(chunks(len(ALPHA) ** n, 1000)):
            add("str", (n, lo, hi), 0, prof(j + 1, 2))
    if T:
        for j, (lo, hi) in enumerate(chunks(len(ALPHA) ** 4, 4000)):
            add("str", (4, lo, hi), 0, prof(j, 4), 1000)
    add("bytes", None)
    add("bytes", None, 1, "release")
    add("ints", None)
    add("ints", None, 1, "release")
    add("floats-fixed", None)
    add("floats-fixed", None, 1, "release")
    add("decs-fixed", None)
    add("decs-fixed", None, 1, "release")
    for i in range(run.size(12, 200)):
        add("floats", 1000, i, prof(i), 1000)
    for i in range(run.size(8, 100)):
        add("decs", 1000, i, prof(i, 4), 1000)
    if T:
        total = len(gen.small_trees(TREE_ATOMS, TREE_KEYS[:4], 4))
        for j, (lo, hi) in enumerate(chunks(total, 3000)):
            add("trees", (4, lo, hi), 0, prof(j, 4))
    total3 = len(gen.small_trees(TREE_ATOMS, TREE_KEYS, 3))
    for j, (lo, hi) in enumerate(chunks(total3, 1500)):
        add("trees", (3, lo, hi), 0, prof(j, 2))
    add("keys", run.size(2500, 9000))
    for i in range(run.size(24, 300)):
        depth, width = [(2, 3), (3, 4), (4, 3), (1, 6)][i % 4]
        add("rand", (1000, depth, width), i, prof(i, 4))
    add("rfc-fixed", None, 0, "verif", 200)
    add("rfc-fixed", None, 1, "release", 200)
    for i in range(run.size(24, 300)):
        add("rfc", 1500, i, prof(i, 4), 500)
    if T:
        for lo, hi in chunks(0x10000, 4096):
            add("rfc-u", (lo, hi), 0, "verif", 1024)
    else:
        r = run.rng("rfc-u")
        for lo in sorted(set(r.sample(range(0, 0x10000, 256), 12) + [0xd800, 0xdb00, 0xdc00, 0xdf00, 0x0000, 0xff00])):
            add("rfc-u", (lo, lo + 256), 0, "verif", 256)
    return tasks


# ------------------------------------------------------------------------------------------

def replay(run, cli):
    w = json.load(open(run.replay))["witness"]
    ctx = Ctx("verif", cli, "replay")
    try:
        if w.get("kind") == "text":
            text = bytes.fromhex(w["text_hex"]).decode("utf-8", "surrogatepass")
            check_texts(ctx, [(text, [text])], "replay")
            n = 1
        elif w.get("kind") == "batch":
            vals = [dec(x) for x in w["wires"]]
            check_values(ctx, vals, "replay", [n for n, _ in CLI_OPTS])
            n = len(vals)
        else:
            v = dec(w["wire"])
            check_values(ctx, [v], "replay", [n for n, _ in CLI_OPTS])
            n = 1
    finally:
        ctx.close()
    for prefix, detail, wit in ctx.viol:
        run.violation(prefix + ":" + detail, wit)
    run.finish({"evaluations": n, "distinct_nontrivial": n, "rule": "replay of one stored witness",
                "samples": [w], "observations": dict(ctx.n)})


def main():
    run = Run("C07")
    cli = build.cli()
    BIN["verif"] = build.jaqmon("verif")
    BIN["release"] = build.jaqmon("release")
    if run.replay:
        return replay(run, cli)
    tasks = build_tasks(run, cli)
    rng = run.rng("order")
    rng.shuffle(tasks)
    # long tasks first would be better for balance; the families are of similar size
    counts = Counter()
    fam_values = Counter()
    distinct = Distinct(cap=6_000_000)
    samples = Samples(10, run.rng("samples"))
    not_judged = Counter()
    found = {}
    for out in par.pmap(task, tasks, run.jobs):
        counts.update(out["n"])
        fam_values[out["fam"]] += out["values"] + out["texts"]
        not_judged.update(out["not_judged"])
        for d in out["digests"]:
            distinct.add(d)
        if out["sample"]:
            samples.add(out["sample"])
        for cls in out["inconc"]:
            run.inconc(cls)
        for prefix, detail, wit in out["viol"]:
            found.setdefault(prefix, {}).setdefault(detail, wit)
    for prefix in sorted(found):
        details = sorted(d for d in found[prefix] if d != "more")
        for d in details[:5]:
            run.violation(prefix + ":" + d, found[prefix][d])
        if not details:
            run.violation(prefix + ":more", {"note": "only seen after the per-class report limit"})
    values = sum(v for f, v in fam_values.items() if not f.startswith("rfc"))
    texts = sum(v for f, v in fam_values.items() if f.startswith("rfc"))
    evaluations = (counts["roundtrip_tojson_fromjson"] + counts["cli_values_read_and_printed"]
                   + sum(v for k, v in counts.items() if k.startswith("cli_print_then_parse:"))
                   + sum(v for k, v in counts.items() if k.startswith("texts_")))
    broken = None
    for need in ("roundtrip_tojson_fromjson", "tojson_text_read_by_python_json", "cli_values_read_and_printed",
                 "cli_output_read_by_python_json", "texts_read_by_fromjson", "cli_input_via_file",
                 "cli_input_via_stdin", "printed_form_comparisons"):
        if counts[need] == 0:
            broken = "observation kind never exercised: " + need
    run.finish({
        "evaluations": evaluations,
        "distinct_nontrivial": len(distinct),
        "rule": "typed values (every representation; exhaustive strings of length <= 3"
                + (" and 4" if run.tier == "thorough" else "")
                + " over 18 structurally significant byte sequences as text and byte strings, all 256 single "
                "bytes in three contexts, integers around every power of two up to 2^130 and of ten up to 10^39, "
                "edge/torture/random floats, fixed and random decimal literals, all small trees, objects with "
                "arbitrary keys in every order, random trees) and RFC 8259 texts from an independent grammar-based "
                "generator; evaluations = (value or text) x route observations; distinct = distinct typed values "
                "(representation-exact) or distinct texts; non-trivial = not null/true/false",
        "samples": samples.items,
        "exhaustive": False,
        "values": values, "texts": texts, "by_family": dict(fam_values),
        "observations": dict(counts),
        "consumers_exercised": {
            "python json.loads on tojson text": counts["tojson_text_read_by_python_json"],
            "python json raw_decode on CLI output (every option)": counts["cli_output_read_by_python_json"],
            "python json.loads as reference reader of generated RFC 8259 texts": texts,
            "python float() on printed floats": counts["printed_floats_reread_by_python_float"],
            "jaq -c . as reader of jaq's own output": sum(v for k, v in counts.items() if k.startswith("cli_print_then_parse:")),
        },
        "cli_option_sets": [n for n, _ in CLI_OPTS], "writer_option_sets": [n for n, _ in PP_OPTS],
        "observed_not_judged": dict(not_judged),
        "profiles": ["verif", "release"], "tasks": len(tasks),
    }, assumptions=[
        "Python's json module (parse_int=int, parse_float kept as text, object_pairs_hook) is a correct RFC 8259 reader",
        "Python's float() is correctly rounded (used to decide that a printed float denotes exactly the float)",
        "typed injection/extraction through jaqmon's codec is faithful (it does not use jaq's JSON reader or writer)",
        "for duplicate names the value is the last one (Python's choice); member order is not judged for such texts",
    ], broken=broken)


if __name__ == "__main__":
    main()
