"""C14 — every supported data format round-trips values on its documented domain.

Monitor (round-trip + independent readers). For each format F in yaml, cbor, toml, csv, tsv:
values of F's documented domain (string atoms drawn from F's reserved words, indicators and
number-like spellings, every atom in value / element / key position) and values just outside
it are written by the real writer and read back by the real reader

  * through the filters        `toF | fromF`                      (jaqmon op eval),
  * through the library entry  jaq_fmts::write::write / read::parse (jaqmon op fmt; this is what
    `--to` / `--from` call), compact and indented,
  * for a sample through the real CLI (`jaq --to F | jaq --from F`), which must agree with the
    filters.

"Equals the original" is judged by `same`: the manual's equality (vlib.values.eq) plus the
representation facts the property names (text vs byte string, NaN, key order for YAML/CBOR).
What jaq wrote is additionally handed to an independent reader (tomllib, csv, an RFC 8949
decoder written here, xml.dom.minidom, json for the CLI's output) whose result is compared
with the original value. YAML has no independent reader in this sandbox.

XML: for well-formed documents (small document generator, single-operator mutations of
/repo/examples/*.xhtml; well-formedness decided by expat) `fromxml | toxml | fromxml` must
equal `fromxml`, and expat's DOM of the rewritten document must equal the DOM of the original.

Every failure is minimised against the real implementation (sub-values, then characters) and
reported under a canonical key that contains the minimal failing input."""
import csv
import hashlib
import io
import json
import math
import os
import re
import shutil
import struct
import subprocess
import sys
import tempfile
import tomllib
import xml.dom.minidom
import xml.parsers.expat

sys.path.insert(0, os.path.dirname(os.path.dirname(os.path.abspath(__file__))))
from vlib import build, gen, par, values as V
from vlib.client import WorkerDied, classify_death
from vlib.codec import Big, Dec, Obj, S, Str, dec, enc, freeze, show
from vlib.run import Distinct, Run, Samples

VALUE_FORMATS = ["yaml", "cbor", "toml", "csv", "tsv"]
I64_MIN, I64_MAX = -(2 ** 63), 2 ** 63 - 1


# =========================================================================================
# judged equality

def _isnan(v):
    if isinstance(v, float):
        return math.isnan(v)
    if isinstance(v, Dec):
        return math.isnan(V.dec_to_float(v.text))
    return False


def same(a, b):
    """the property's "equals the original": manual equality + text/byte kind + NaN is NaN"""
    a, b = V.norm(a), V.norm(b)
    ka, kb = V.kind(a), V.kind(b)
    if ka != kb:
        return False
    if ka == "number":
        na, nb = _isnan(a), _isnan(b)
        if na or nb:
            return na and nb
        return V.eq(a, b)
    if ka == "string":
        return a.text == b.text and a.b == b.b
    if ka == "array":
        return len(a) == len(b) and all(same(x, y) for x, y in zip(a, b))
    if ka == "object":
        if len(a.items) != len(b.items):
            return False
        # fast path: same order
        if all(same(k1, k2) and same(v1, v2) for (k1, v1), (k2, v2) in zip(a.items, b.items)):
            return True
        for k, v in a.items:
            for k2, v2 in b.items:
                if same(k, k2):
                    if not same(v, v2):
                        return False
                    break
            else:
                return False
        return True
    return a == b


def same_order(a, b):
    """given same(a, b): do objects list their keys in the same order?"""
    a, b = V.norm(a), V.norm(b)
    if isinstance(a, list) and isinstance(b, list):
        return all(same_order(x, y) for x, y in zip(a, b))
    if isinstance(a, Obj) and isinstance(b, Obj):
        return all(same(k1, k2) and same_order(k1, k2) and same_order(v1, v2)
                   for (k1, v1), (k2, v2) in zip(a.items, b.items))
    return True


def walk(v):
    """all nodes, keys included"""
    yield v
    if isinstance(v, list):
        for x in v:
            yield from walk(x)
    elif isinstance(v, Obj):
        for k, x in v.items:
            yield from walk(k)
            yield from walk(x)


def rep(v):
    if v is None:
        return "null"
    if isinstance(v, bool):
        return "bool"
    if isinstance(v, Big):
        return "bigint"
    if isinstance(v, int):
        return "int" if I64_MIN <= v <= I64_MAX else "bigint"
    if isinstance(v, float):
        return "float" if v == v and abs(v) != math.inf else "special-float"
    if isinstance(v, Dec):
        return "dec"
    if isinstance(v, Str):
        return "string" if v.text else "bytes"
    if isinstance(v, list):
        return "array"
    return "object"


def valid_text(s):
    return V.is_valid_utf8(s.b)


def lossy(v):
    """invalid UTF-8 in text strings replaced by U+FFFD (documented for CBOR and TOML)"""
    if isinstance(v, Str) and v.text:
        return Str(v.b.decode("utf-8", "replace").encode("utf-8"), True)
    if isinstance(v, list):
        return [lossy(x) for x in v]
    if isinstance(v, Obj):
        return Obj([(lossy(k), lossy(x)) for k, x in v.items])
    return v


# =========================================================================================
# documented domains (docs/formats.dj + the property text)

NUMLIKE = re.compile(r"\s*[+-]?(\d[\d_]*\.?\d*|\.\d+)([eE][+-]?\d*)?\s*|\s*[+-]?(nan|inf|infinity)\s*|\s*0[xob][0-9a-f_]*\s*",
                     re.I | re.S)


def tsv_plain_string(s):
    """a TSV field of the documented domain: non-empty string that does not spell a number or
    boolean (liberal notion of 'spells a number': anything number-like is left unjudged)"""
    if not (isinstance(s, Str) and s.text) or not s.b:
        return False
    try:
        t = s.b.decode("utf-8")
    except UnicodeDecodeError:
        return True
    if t.strip() in ("true", "false", "null") or NUMLIKE.fullmatch(t):
        return False
    return True


def classify(F, v):
    """-> (cls, reason): 'in' (must round-trip), 'reject' (must be refused by the writer),
    'loose' (documented exception: observed, outcome constrained only as noted)"""
    nodes = list(walk(v))
    if F in ("yaml", "cbor"):
        if any(isinstance(x, Str) and x.text and not valid_text(x) for x in nodes):
            return "loose", "invalid-utf8-text"
        return "in", ""
    if F == "toml":
        if not isinstance(v, Obj):
            return "reject", "root"
        for x in nodes:
            if x is None:
                return "reject", "null"
            if isinstance(x, Str) and not x.text:
                return "reject", "bytes"
            if isinstance(x, Obj) and any(not (isinstance(k, Str) and k.text) for k, _ in x.items):
                return "reject", "non-string-key"
        for x in nodes:
            if isinstance(x, Str) and not valid_text(x):
                return "loose", "invalid-utf8-text"
            if V.is_int(x) and not isinstance(x, bool) and not (I64_MIN <= V.ival(x) <= I64_MAX):
                return "loose", "bigint"
            if isinstance(x, Dec) and math.isinf(V.dec_to_float(x.text)):
                return "loose", "decimal-literal-beyond-f64"
        return "in", ""
    # csv / tsv
    if not isinstance(v, list):
        return "reject", "non-array-row"
    for x in v:
        if isinstance(x, (list, Obj)):
            return "reject", "nested-field"
        if isinstance(x, Str) and not x.text:
            return "reject", "bytes"
    if F == "csv":
        if len(v) == 0 or (len(v) == 1 and v[0] is None):
            return "loose", "[]-vs-[null]"
        return "in", ""
    if len(v) > 0 and all(tsv_plain_string(x) for x in v):
        return "in", ""
    return "loose", "tsv-field-outside-domain"


# =========================================================================================
# independent readers

class Malformed(Exception):
    pass


def cbor_decode(b):
    """RFC 8949 decoder (written from the RFC): -> (model value, facts). Refuses trailing
    bytes, invalid UTF-8 in text strings, reserved additional information, unknown tags and
    simple values other than false/true/null (jaq has no value for them)."""
    facts = {"indefinite": 0, "bignum": 0, "f16": 0, "f32": 0, "f64": 0}

    def need(i, n):
        if i + n > len(b):
            raise Malformed("truncated")

    def head(i):
        need(i, 1)
        ib = b[i]
        mt, ai = ib >> 5, ib & 31
        i += 1
        if ai < 24:
            return mt, ai, ai, i
        if ai in (24, 25, 26, 27):
            n = 1 << (ai - 24)
            need(i, n)
            return mt, ai, int.from_bytes(b[i:i + n], "big"), i + n
        if ai == 31:
            return mt, ai, None, i
        raise Malformed("reserved additional information %d" % ai)

    def chunks(i, mt):
        out = b""
        while True:
            need(i, 1)
            if b[i] == 0xFF:
                return out, i + 1
            m, ai, arg, i = head(i)
            if m != mt or arg is None:
                raise Malformed("bad chunk in indefinite string")
            need(i, arg)
            out += b[i:i + arg]
            i += arg

    def item(i):
        mt, ai, arg, i = head(i)
        if mt == 0:
            return arg, i
        if mt == 1:
            return -1 - arg, i
        if mt in (2, 3):
            if arg is None:
                facts["indefinite"] += 1
                data, i = chunks(i, mt)
            else:
                need(i, arg)
                data, i = b[i:i + arg], i + arg
            if mt == 3:
                try:
                    data.decode("utf-8")
                except UnicodeDecodeError:
                    raise Malformed("text string is not valid UTF-8")
            return Str(data, mt == 3), i
        if mt == 4:
            out = []
            if arg is None:
                facts["indefinite"] += 1
                while True:
                    need(i, 1)
                    if b[i] == 0xFF:
                        return out, i + 1
                    x, i = item(i)
                    out.append(x)
            for _ in range(arg):
                x, i = item(i)
                out.append(x)
            return out, i
        if mt == 5:
            out = []
            n = arg
            if arg is None:
                facts["indefinite"] += 1
            while n is None or n > 0:
                if n is None:
                    need(i, 1)
                    if b[i] == 0xFF:
                        i += 1
                        break
                else:
                    n -= 1
                k, i = item(i)
                x, i = item(i)
                out.append((k, x))
            return Obj(out), i
        if mt == 6:
            if arg in (2, 3):
                x, i = item(i)
                if not (isinstance(x, Str) and not x.text):
                    raise Malformed("bignum tag on a non-byte-string")
                facts["bignum"] += 1
                n = int.from_bytes(x.b, "big")
                return (n if arg == 2 else -1 - n), i
            raise Malformed("tag %d" % arg)
        # major type 7
        if ai == 20:
            return False, i
        if ai == 21:
            return True, i
        if ai == 22:
            return None, i
        if ai == 25:
            facts["f16"] += 1
            return struct.unpack(">e", arg.to_bytes(2, "big"))[0], i
        if ai == 26:
            facts["f32"] += 1
            return struct.unpack(">f", arg.to_bytes(4, "big"))[0], i
        if ai == 27:
            facts["f64"] += 1
            return struct.unpack(">d", arg.to_bytes(8, "big"))[0], i
        raise Malformed("simple value / break (ai=%d)" % ai)

    try:
        v, i = item(0)
    except RecursionError:
        raise Malformed("too deep")
    if i != len(b):
        raise Malformed("trailing bytes")
    return v, facts


def from_py(x):
    """tomllib / json result -> model value"""
    if x is None or isinstance(x, (bool, int, float)):
        return x
    if isinstance(x, str):
        return S(x)
    if isinstance(x, list):
        return [from_py(y) for y in x]
    if isinstance(x, dict):
        return Obj([(S(k), from_py(y)) for k, y in x.items()])
    raise Malformed("unexpected %r" % type(x))


def toml_read(b):
    try:
        return from_py(tomllib.loads(b.decode("utf-8")))
    except (tomllib.TOMLDecodeError, UnicodeDecodeError, RecursionError) as e:
        raise Malformed(str(e)[:200])


def _surr(b):
    return b.decode("utf-8", "surrogateescape")


def csv_read(b):
    try:
        return [[f.encode("utf-8", "surrogateescape") for f in row]
                for row in csv.reader(io.StringIO(_surr(b), newline=""), strict=True)]
    except csv.Error as e:
        raise Malformed(str(e))


TSV_ESC = {ord("n"): b"\n", ord("t"): b"\t", ord("r"): b"\r", ord("0"): b"\0", ord("\\"): b"\\"}


def tsv_read(b):
    """linear TSV: rows end at LF, fields at TAB, \\n \\t \\r \\0 \\\\ escapes; Python's csv
    module (no quoting) does the splitting"""
    csv.field_size_limit(1 << 30)
    try:
        rows = list(csv.reader(io.StringIO(_surr(b), newline=""), delimiter="\t", quoting=csv.QUOTE_NONE,
                               lineterminator="\n", strict=True))
    except csv.Error as e:
        raise Malformed(str(e))
    out = []
    for row in rows:
        fs = []
        for f in row:
            f = f.encode("utf-8", "surrogateescape")
            if b"\r" in f or b"\n" in f:
                raise Malformed("raw line break inside a field")
            o, i = b"", 0
            while i < len(f):
                if f[i] == 0x5C and i + 1 < len(f) and f[i + 1] in TSV_ESC:
                    o += TSV_ESC[f[i + 1]]
                    i += 2
                else:
                    o += f[i:i + 1]
                    i += 1
            fs.append(o)
        out.append(fs)
    return out


def field_matches(v, f):
    """does the text of a CSV/TSV field (bytes, unquoted/unescaped by the independent reader)
    denote the scalar v?"""
    v = V.norm(v)
    if v is None:
        return f == b""
    if v is True:
        return f == b"true"
    if v is False:
        return f == b"false"
    if isinstance(v, Str):
        return f == v.b
    try:
        t = f.decode("ascii")
    except UnicodeDecodeError:
        return False
    if isinstance(v, Dec):
        return t == v.text
    if isinstance(v, int):
        return re.fullmatch(r"-?\d+", t) is not None and int(t) == v
    if math.isnan(v):
        return t == "NaN"
    if math.isinf(v):
        return t == ("Infinity" if v > 0 else "-Infinity")
    try:
        return float(t) == v
    except ValueError:
        return False


CBOR_FACTS = {}      # what the RFC 8949 decoder met in jaq's output (per worker process; summed by main)


def independent(F, v, cls, written):
    """hand what jaq wrote to the independent reader of F; -> (consumer, issue or None)"""
    if F == "yaml":
        return None, None
    try:
        if F == "cbor":
            got, facts = cbor_decode(written)
            for k, n in facts.items():
                CBOR_FACTS[k] = CBOR_FACTS.get(k, 0) + n
            exp = v if cls == "in" else lossy(v)
            if cls == "in" or len(list(walk(got))) == len(list(walk(exp))):
                if not same(exp, got):
                    return "rfc8949-decoder", ("reader-differs", show(got, 300))
                if not same_order(exp, got):
                    return "rfc8949-decoder", ("reader-key-order", show(got, 300))
            return "rfc8949-decoder", None
        if F == "toml":
            got = toml_read(written)
            if cls == "in" and not same(v, got):
                return "tomllib", ("reader-differs", show(got, 300))
            return "tomllib", None
        rows = csv_read(written) if F == "csv" else tsv_read(written)
        name = "csv" if F == "csv" else "csv(tab,no quoting)+unescape"
        if len(v) == 0 or (len(v) == 1 and (v[0] is None or (isinstance(v[0], Str) and not v[0].b))):
            return name, None      # an empty line: no row for either reader
        if len(rows) != 1 or len(rows[0]) != len(v):
            return name, ("reader-differs", repr(rows)[:300])
        for x, f in zip(v, rows[0]):
            if not field_matches(x, f):
                return name, ("reader-differs", repr(rows)[:300])
        return name, None
    except Malformed as e:
        return {"cbor": "rfc8949-decoder", "toml": "tomllib", "csv": "csv"}.get(F, "csv(tab,no quoting)+unescape"), \
            ("reader-rejects:" + err_class(e), str(e))


# =========================================================================================
# atoms

YAML_WORDS = """null Null NULL nULL ~ true True TRUE tRUE false False FALSE yes Yes YES no No NO on On ON off Off OFF y Y n N
.inf .Inf .INF .iNF -.inf -.Inf -.INF +.inf +.Inf +.INF .nan .NaN .NAN .Nan +.nan -.nan inf nan Infinity NaN -Infinity
0 1 -1 +1 -0 +0 00 01 -01 +01 0. 1. +1. -1. .5 +.5 -.5 .0 5. 1.0 +1.0 -1.0 1e3 1E3 +1e3 -1e3 1e+3 1e-3 +1e-3 .5e1 +.5e1 1.e1 +1.e1 1e e1
+e1 .e1 +.e1 1_000 +1_000 0x1F 0X1F +0x1F -0x1F 0x 0o7 +0o7 -0o7 0o8 +0o8 0b1 +0b1 -0b1 0b2 +0b2 0xg +0xg 07 08 +07 1:30 +1:30
12:30:45 2001-12-14 2001-12-14t21:59:43.10-05:00 1,000 0.0.0 1..2 +. -. . .. + - -- ++ +- +a -a .a +1a +.5a 1e400 +1e400 -1e400
+123456789012345678901234567890 -123456789012345678901234567890 +9223372036854775808 -9223372036854775809 +0x10000000000000000
--- ... ---a ...a -... .... - ? : # & * ! | > ' " % @ ` , [ ] { } [] {} [a] {a} a:b :a a: a# #a -a ?a &a *a !a !!str |a >a |- >+ 'a' "a"
a'b a"b %a %YAML @a `a a,b a] a} a[ a{ << = =a <a> a&b a*b a!b a|b a>b a%b a@b a`b \\ a\\b \\n \\x41 \\u0041 a/b ~a a~ null~ ~null
nulla anull truea atrue .infa a.inf .nana""".split()
YAML_PHRASES = ["", " ", "  ", "\t", "a b", "a  b", "a\tb", "a: b", "a : b", "a :b", "a:  b", "a #b", "a # b", "a# b", "a  #b",
                "- a", "-  a", "-\ta", "? a", ": a", "a: ", "a:", "# a", "& a", "* a", "! a", "!!str a", "!!binary YQ==",
                "!!int 1", "!!null null", "&a b", "*a b", "| a", "> a", "a, b", "[a, b]", "{a: b}", "{a: b", "a: b}", "[ a",
                "a ]", "a, ", ", a", "' a'", "\" a\"", "'a' b", "\"a\" b", "a 'b'", "% a", "@ a", "` a", "<< : a", "--- a", "... a",
                "a ---", "a ...", "---\na", "a\n---", "a\n...\nb", "a\nb", "a\n", "\na", "a\n\nb", "a\n b", "a \nb", "a\r\nb",
                "a\rb", "\n", "\r", "a\n#b", "a\n- b", "a\nb: c", "\u0085", "a\u0085b", "a\u0085", "\u0085a", " ", "a b",
                " ", "a b", "﻿", "﻿a", "a﻿", "a﻿b", " ", " a", "a ", "\u0080", "a\u009fb",
                "￾", "￿", "�", "\x7f", "a\x7fb", "\x00", "a\x00b", "\x1b", "\x08", "\x0c", "é", "é ",
                " é", "\U0001d11e", "\U0001d11e ", "\U0010ffff", "퟿", "a" * 100, "a b " * 40 + "c", "k" * 1100,
                "1 2", "1 a", "a 1", "+1 a", "null a", "a null", "true false", "null null", "~ ~", ".inf .inf", "1, 2", "1: 2",
                "1 :2", "+1: 2", "null: a", "null :a", "0x1F 0x1F", "yes: no", "- 1", "-1 -1", "+1 +1", "1\n", "+1\n", "\n1",
                "null\n", "\nnull", "+1\t", "\t+1", " +1", "+1 ", " null", "null ", "null\t", "\tnull", " ~", "~ ", " true", "true ",
                ".inf ", " .inf", ".nan ", "--- ", " ---", "... ", " ...", "---\t", "...\t", "- ", " -", "? ", ": ", "# ", " #", "a  ",
                " a", "a ", " a ", "a\t", "\ta", "\ta\t", "a \t", "a\t ", " a", "a ", "　a", "a　"]
YAML_PREFIX = ["", " ", "\t", "+", "-", "x ", "- ", "\n"]
YAML_SUFFIX = ["", " ", "\t", "\n", " x", ":", ": ", " #", ","]

TOML_KEYS = ["", "a", "A", "a_b", "a-b", "_", "-", "0", "1", "01", "1e3", "1.5", "-1", "+1", "a.b", "a.b.c", ".", "a.", ".a", "..",
             "a b", " a", "a ", " ", "\t", "a\tb", "a\nb", "\n", "a\"b", "\"", "'", "a'b", "\\", "a\\b", "\\n", "a=b", "=", "a#b",
             "#", "[a]", "[[a]]", "[", "]", "{a}", "a,b", ",", "true", "false", "inf", "nan", "-inf", "+inf", "1979-05-27",
             "1979-05-27T07:32:00Z", "07:32:00", "é", "élé", "\U0001d11e", "µ", "\x00", "\x1f", "\x7f",
             "\u0080", "\u0085", " ", "﻿", "�", "￿", "\U0010ffff", "k" * 300, "a.b c", "\"a\"", "'a'", "a:b", "$",
             "a+b", "a/b", "½", "١", "K"]
TOML_STRS = TOML_KEYS + ["\"\"\"", "'''", "a\"\"\"b", "a'''b", "\\u0041", "\\U00000041", "\\x41", "\\e", "\\", "\\\\", "a\r\nb",
                         "\r", "a\rb", "\x08", "\x0c", "\x1b", "1979-05-27 07:32:00", "inf", "+nan", "0x1F", "0o7", "0b1",
                         "1_000", "[1, 2]", "{a = 1}", "a = 1", "a = 1\nb = 2", "# c", "a # c", "[t]\na = 1", "\n[t]\n", "\t\t",
                         "a" * 100, "é" * 50]

TAB_STRS = ["", "a", "ab", "a b", " a", "a ", " ", "  ", "\"", "\"\"", "a\"b", "\"a\"", "\"a", "a\"", "a\"\"b", "'", "'a'", ",",
            "a,b", ",a", "a,", ",,", "\t", "a\tb", "\ta", "a\t", "\t\t", "\n", "a\nb", "\na", "a\n", "\n\n", "\r", "a\rb", "\ra",
            "a\r", "\r\n", "a\r\nb", "\r\na", "a\r\n", "\n\r", "\\", "a\\b", "\\a", "a\\", "\\\\", "\\n", "\\t", "\\r", "\\0",
            "\\\\n", "a\\nb", "\\\n", "\\\t", "\\\"", "\x00", "a\x00b", "\\x", "\\u0041", "\\N", "\x7f", "\x1f", "\x0b", "\x0c",
            "null", "NULL", "true", "false", "True", "TRUE", "true ", " true", "truea", "0", "1", "-1", "+1", "1.5", "1e3",
            "1E3", "+1.5", ".5", "5.", "1.", "1e", "-", "+", "--1", "01", "007", "1_000", "0x1F", "1,5", "1 2", " 1", "1 ", "1\t",
            "\t1", "1\n", "NaN", "nan", "Infinity", "-Infinity", "+Infinity", "infinity", "inf", "-inf", "Inf", "1a", "a1",
            "12:30", "2001-12-14", "é", "éè", "\U0001d11e", "﻿", "﻿a", " ", "\u0085", " ",
            "=1", "@a", "-a", "+a", "#", "# a", "a;b", ";", "a|b", "a" * 100, "a,b\n\"c\"\t\\d", "\",\"", "\"\n\"", "\\\t\\"]

BYTES_ATOMS = [b"", b"a", b"\x00", b"\xff", b"\xff\xfe", b"a\xffb", b"\x00\x01\x02", b"hello", b"\xc3", b"\xc3\xa9",
               b"\n", b" ", b"YQ==", bytes(range(256)), b"a" * 57, b"ab" * 40]
INVALID_TEXT = [b"\xff", b"a\xffb", b"\xc3", b"\xed\xa0\x80", b"\xf4\x90\x80\x80", b"\xe2\x82", b"\xc0\xaf", b"a\x80",
                b"\xf0\x9f\x98", b"+1\xff"]
# spellings only XJON has and jaq's own reader produces as decimal literals (checked by hand)
XJON_DECS = [Dec("007.5"), Dec("+7.1"), Dec("+1e2"), Dec("+0.0")]
EXTRA_FLOATS = [1e-5, 1e-6, 123456.789, 1e100, 2.0 ** 70, -2.0 ** 70, 65504.0, 65536.0, 5.960464477539063e-08, 6.103515625e-05,
                3.4028234663852886e38, 1.401298464324817e-45, 0.1 + 0.2, 1 / 3, 100000.0, 16777216.0, 16777217.0]
EXTRA_INTS = [23, 24, 25, -24, -25, -26, 65535, 65536, -256, -257, -65536, -65537, 2 ** 32 - 1, -(2 ** 32), -(2 ** 32) - 1,
              2 ** 64 - 2, -(2 ** 64) + 1, -(2 ** 64) - 1, 2 ** 128, -(2 ** 128), 10 ** 18, 10 ** 19, 10 ** 40, -(10 ** 40),
              1000, 1000000, 123456789]


def numbers(xjon=False):
    out = list(gen.INTS) + EXTRA_INTS + [Big(0), Big(1), Big(-1), Big(2 ** 53), Big(-(2 ** 63))] + list(gen.FLOATS) + \
        EXTRA_FLOATS + [math.nan] + list(gen.DECS)
    if xjon:
        out += XJON_DECS
    return out


YAML_CORE = """null Null ~ true True no on .inf .Inf -.inf +.inf .nan 0 1 -1 +1 .5 +.5 1. 1e3 +1e3 0x1F +0x1F 0o7 +0o7 1_000 12:30:45
2001-12-14 --- ... - ? : # & * ! | > ' " % @ ` , [ ] { } a a:b a# << = \\""".split()


def yaml_strings():
    """every word alone, with each prefix and with each suffix; the core words with every
    prefix x suffix combination; the phrases"""
    out = []
    seen = set()

    def add(s):
        if s not in seen:
            seen.add(s)
            out.append(s)
    for w in YAML_WORDS:
        for p in YAML_PREFIX:
            add(p + w)
        for q in YAML_SUFFIX:
            add(w + q)
    for w in YAML_CORE:
        for p in YAML_PREFIX:
            for q in YAML_SUFFIX:
                add(p + w + q)
    for s in YAML_PHRASES:
        add(s)
    return out


def rand_string(rng, words, seps):
    n = rng.choice((1, 1, 2, 2, 3, 4))
    parts = []
    for i in range(n):
        parts.append(rng.choice(words))
        if i + 1 < n or rng.random() < 0.3:
            parts.append(rng.choice(seps))
    if rng.random() < 0.2:
        parts.insert(0, rng.choice(seps))
    return "".join(parts)


YAML_SEPS = [" ", " ", "\t", "\n", ":", ": ", " #", "#", ",", ", ", "-", "+", ".", "0", "1", "e", "x", "_", "'", "\"", "\\",
             "é", " ", "\u0085", "  ", " - ", "? ", "[", "]", "{", "}", "&", "*", "!", "|", ">", "%", "@", "`", "~", "="]
TAB_SEPS = [",", "\t", "\n", "\r", "\r\n", "\"", "\"\"", "\\", "\\n", "\\t", "\\\\", " ", "a", "1", ".", "-", "e", "\x00", "é"]
TOML_SEPS = [".", " ", "-", "_", "\"", "'", "\\", "\n", "\t", "=", "#", "[", "]", "a", "1", "é", "\x7f", "\x00"]


# =========================================================================================
# value generators: each returns a list of (value, tag)

def key_ok(k, used):
    return not V.has_nan(k) and not any(V.eq(k, u) for u in used)


def ctx_values(F, x):
    """an atom in value / element / key position"""
    if F in ("yaml", "cbor"):
        return [x, [x], Obj([(x, 0)]), Obj([(S("k"), x)])]
    if F == "toml":
        out = [Obj([(S("k"), x)]), Obj([(S("k"), [x])]), Obj([(S("t"), Obj([(S("k"), x)]))])]
        if isinstance(x, Str) and x.text:
            out += [Obj([(x, 0)]), Obj([(x, Obj([(x, 1)]))]), Obj([(x, [Obj([(x, 1)])])])]
        return out
    return [[x], [S("a"), x], [x, S("a")], [x, x]]


def pool_values(F, rng):
    """the exhaustive part: every atom of F's pool in every position; -> [(value, tag, group)]
    (a group = the positions of one atom; groups are the unit of work splitting)"""
    out = []
    g = [0]

    def atoms(xs, tag):
        for a in xs:
            g[0] += 1
            for v in ctx_values(F, a):
                out.append((v, tag, g[0]))

    def shapes(vs):
        for v in vs:
            g[0] += 1
            out.append((v, "shape", g[0]))
    if F == "yaml":
        atoms([S(s) for s in yaml_strings()], "string-atom")
        atoms(numbers(True) + [None, True, False, [], Obj([])] + [Str(b, False) for b in BYTES_ATOMS] +
              [Str(b, True) for b in INVALID_TEXT], "scalar-atom")
        shapes([list(range(n)) for n in (1024, 1025, 3000)] + [Obj([(S("k%d" % i), i) for i in range(1025)])])
    elif F == "cbor":
        atoms(numbers(True) + [None, True, False, [], Obj([])] + [Str(b, False) for b in BYTES_ATOMS] +
              [Str(b, True) for b in INVALID_TEXT] +
              [S(s) for s in YAML_PHRASES + ["a" * 23, "a" * 24, "a" * 255, "a" * 256, "a" * 65535, "a" * 65536]] +
              [[0] * n for n in (23, 24, 255, 256)] + [Obj([(i, i) for i in range(n)]) for n in (23, 24, 256)], "atom")
        # container sizes around the reader's pre-allocation cap and the 16-bit length head
        shapes([list(range(n)) for n in (1023, 1024, 1025, 3000)] +
               [Obj([(i, i) for i in range(n)]) for n in (1024, 1025, 2500)] +
               [[1, list(range(2000)), Obj([(S("k"), list(range(1025)))])]])
    elif F == "toml":
        atoms([S(s) for s in TOML_STRS], "string-atom")
        atoms(numbers(True) + [True, False, [], Obj([]), None, Str(b"a", False), Str(b"\xff", True)], "scalar-atom")
        ka, kb = S("a"), S("b")
        shapes([
            Obj([]), Obj([(ka, Obj([]))]), Obj([(ka, [])]), Obj([(ka, [[]])]), Obj([(ka, [Obj([])])]),
            Obj([(ka, [Obj([]), Obj([])])]), Obj([(ka, [Obj([(kb, 1)]), 1])]), Obj([(ka, [1, Obj([(kb, 1)])])]),
            Obj([(ka, [[Obj([(kb, 1)])]])]), Obj([(ka, Obj([(kb, 1)])), (kb, 2)]),
            Obj([(ka, [Obj([(kb, 1)])]), (kb, 2)]), Obj([(ka, Obj([(kb, Obj([(ka, 1)]))])), (kb, Obj([(ka, 1)]))]),
            Obj([(ka, [Obj([(kb, [Obj([(ka, 1)])])]), Obj([(kb, [Obj([(ka, 2)]), Obj([])])])])]),
            Obj([(ka, [Obj([(kb, Obj([(ka, 1)]))]), Obj([(ka, Obj([(kb, 1)]))])])]),
            Obj([(S("a.b"), Obj([(S("c"), 1)])), (ka, Obj([(kb, Obj([(S("c"), 2)]))]))]),
            Obj([(ka, [1, [2, [3, Obj([(kb, [])])]]])]), Obj([(ka, 1), (kb, Obj([(ka, 1)])), (S("c"), 2)]),
            Obj([(ka, [Obj([(ka, 1)])]), (kb, 1), (S("c"), [Obj([(ka, 1)])])]),
            0, [], S("a"), None, True, [Obj([(ka, 1)])], Obj([(1, 2)]), Obj([(ka, Obj([(None, 1)]))]),
            Obj([(ka, [None])]), Obj([(ka, [Obj([(kb, None)])])]), Obj([(Str(b"a", False), 1)]), Obj([([], 1)]),
            Obj([(ka, [Str(b"", False)])]), Obj([(True, 1)]), Obj([(ka, Obj([(1.5, 1)]))]),
        ])
    else:
        atoms([S(s) for s in TAB_STRS], "string-atom")
        atoms(numbers(True) + [None, True, False] + [Str(b, True) for b in INVALID_TEXT[:4]], "scalar-atom")
        shapes([
            [], [None], [None, None], [S("")], [S(""), S("")], [None, S("")], [S(""), None], [None, S("a"), None],
            0, None, S("a"), Obj([]), Obj([(S("a"), 1)]), [[]], [[1]], [Obj([])], [S("a"), [S("b")]], [Str(b"a", False)],
            [S("a"), Str(b"", False)], [1, Obj([(S("a"), 1)])], True,
        ])
    return out


def rand_values(F, rng, n):
    out = []
    if F == "yaml":
        words = YAML_WORDS + ["a", "b", "k", "x y"]
        strs = yaml_strings()

        def atom():
            r = rng.random()
            if r < 0.35:
                return S(rand_string(rng, words, YAML_SEPS))
            if r < 0.6:
                return S(rng.choice(strs))
            if r < 0.9:
                return rng.choice(SCALARS)
            return Str(rng.choice(BYTES_ATOMS), False)
        for _ in range(n):
            out.append((rand_tree(rng, atom, 3, True), "random"))
    elif F == "cbor":
        def atom():
            r = rng.random()
            if r < 0.15:
                return rng.randrange(-(2 ** 70), 2 ** 70) >> rng.randrange(0, 70)
            if r < 0.25:
                return struct.unpack(">d", struct.pack(">Q", rng.getrandbits(64)))[0]
            if r < 0.35:
                return float(struct.unpack(">f", struct.pack(">I", rng.getrandbits(32)))[0])
            if r < 0.4:
                return float(struct.unpack(">e", struct.pack(">H", rng.getrandbits(16)))[0])
            if r < 0.55:
                return S(rand_string(rng, YAML_WORDS, YAML_SEPS))
            if r < 0.65:
                return Str(bytes(rng.getrandbits(8) for _ in range(rng.randrange(0, 30))), False)
            if r < 0.7:
                return Str(rng.choice(INVALID_TEXT), True)
            return rng.choice(SCALARS)
        for _ in range(n):
            out.append((rand_tree(rng, atom, 3, True), "random"))
    elif F == "toml":
        def key():
            r = rng.random()
            if r < 0.4:
                return S(rng.choice(["a", "b", "c", "k", "x-y", "a_1"]))
            if r < 0.7:
                return S(rng.choice(TOML_KEYS))
            return S(rand_string(rng, TOML_KEYS, TOML_SEPS))

        def atom():
            r = rng.random()
            if r < 0.3:
                return S(rng.choice(TOML_STRS)) if rng.random() < 0.6 else S(rand_string(rng, TOML_STRS, TOML_SEPS))
            if r < 0.33:
                return rng.choice([None, Str(b"a", False), Str(b"\xff", True), 2 ** 63, -(2 ** 63) - 1, 10 ** 30])
            return rng.choice(TOML_SCALARS)
        for _ in range(n):
            v = rand_tree(rng, atom, 4, False, key)
            if not isinstance(v, Obj) and rng.random() < 0.97:
                v = Obj([(key(), v)])
            out.append((v, "random"))
    else:
        seps = TAB_SEPS
        for _ in range(n):
            row = []
            for _ in range(rng.choice((1, 1, 2, 2, 3, 4, 6))):
                r = rng.random()
                if F == "tsv":
                    r = r * 0.75 if rng.random() < 0.85 else r
                if r < 0.45:
                    row.append(S(rand_string(rng, TAB_STRS, seps)))
                elif r < 0.75:
                    row.append(S(rng.choice(TAB_STRS)))
                elif r < 0.98:
                    row.append(rng.choice(TAB_SCALARS))
                else:
                    row.append(rng.choice([[], Obj([]), Str(b"a", False), [1]]))
            out.append((row, "random"))
    return out


SCALARS = [None, True, False] + numbers(True)
TOML_SCALARS = [True, False] + [x for x in numbers(False) if not (V.is_int(x) and not (I64_MIN <= V.ival(x) <= I64_MAX))]
TAB_SCALARS = [None, True, False] + numbers(True)


def rand_tree(rng, atom, depth, any_keys, key=None):
    if depth <= 0 or rng.random() < 0.4:
        return atom()
    if rng.random() < 0.5:
        return [rand_tree(rng, atom, depth - 1, any_keys, key) for _ in range(rng.randrange(0, 4))]
    items, used = [], []
    for _ in range(rng.randrange(0, 4)):
        if key is not None:
            k = key()
        elif any_keys and rng.random() < 0.35:
            k = rand_tree(rng, atom, depth - 2, any_keys, key)
        else:
            k = atom()
            if not (isinstance(k, Str) and k.text):
                k = S(rng.choice(["a", "b", "k", ""]))
        if not key_ok(k, used) or (isinstance(k, Str) and k.text and not valid_text(k)):
            continue
        used.append(k)
        items.append((k, rand_tree(rng, atom, depth - 1, any_keys, key)))
    return Obj(items)


# =========================================================================================
# the three paths through the real implementation

FILTER_PROG = {F: "$V[] | try (to%s | . as $s | try [0, $s, [from%s]] catch [1, $s, .]) catch [2, .]" % (F, F)
               for F in VALUE_FORMATS}
MODES = {
    "yaml": [("-c", None, False), ("default", "  ", False), ("-j --indent 1", " ", True), ("-j --indent 4", "    ", True),
             ("-c -j", None, True)],
    "cbor": [("default", None, False)], "toml": [("default", None, False)],
    "csv": [("default", None, False)], "tsv": [("default", None, False)], "xml": [("default", None, False)],
}


JAQMON = None      # path of the helper, built once by main() before the workers fork


def cl():
    return par.client("verif", path=JAQMON) if JAQMON else par.client("verif")


def short(msg, n=420):
    """error messages echo their input: keep head and tail (the reason is at the end)"""
    msg = msg if isinstance(msg, str) else show(msg, 1 << 30)
    return msg if len(msg) <= n else msg[:140] + " ... " + msg[-(n - 150):]


def _outcome(o):
    o = dec(o)
    if o[0] == 0:
        return ("ok", o[1].b, o[2])
    if o[0] == 1:
        return ("rerr", o[1].b, short(o[2]))
    return ("werr", None, short(o[1]))


def via_filter(c, F, vals):
    """-> list of outcomes ("ok", written, [values]) | ("rerr", written, msg) | ("werr", None, msg) | ("panic", None, info)"""
    r = c.eval(FILTER_PROG[F], [{"input": None}], vars=[("V", enc(vals))], take=len(vals) + 1, timeout=300)
    if "results" not in r:
        raise SystemExit("HARNESS: %r" % (r,))
    res = r["results"][0]
    if res.get("panic") or res["end"][0] != "end" or len(res["outs"]) != len(vals):
        if len(vals) == 1:
            return [("panic", None, res.get("panic") or res["end"])]
        h = len(vals) // 2
        return via_filter(c, F, vals[:h]) + via_filter(c, F, vals[h:])
    return [_outcome(o[0]) for o in res["outs"]]


def via_fmt(c, F, v, mode):
    _name, indent, join = mode
    r = c.request({"op": "fmt", "dir": "write", "format": F, "val": enc(v), "indent": indent,
                   "sep_space": indent is not None or F == "yaml", "join": join}, 120)
    if r.get("panic"):
        return ("panic", None, r["panic"])
    if "harness_error" in r:
        raise SystemExit("HARNESS: %r" % (r,))
    if r.get("error") is not None:
        return ("werr", bytes.fromhex(r.get("partial", "")), short(r["error"]))
    w = bytes.fromhex(r["bytes"])
    r2 = c.request({"op": "fmt", "dir": "read", "format": F, "bytes": r["bytes"]}, 120)
    if r2.get("panic"):
        return ("panic", w, r2["panic"])
    if r2.get("error") is not None:
        return ("rerr", w, short(r2["error"]))
    return ("ok", w, [dec(x) for x in r2["vals"]])


ERR_TAIL = re.compile(r" as (?:YAML|TOML|CBOR|XML|CSV|TSV): ")


def err_class(msg):
    """the reason of an error message without the echoed input, positions and numbers (so that a
    failure keeps its class while its input is being minimised, and across the three paths)"""
    m = str(msg)
    hits = list(ERR_TAIL.finditer(m))
    if hits:
        m = m[hits[-1].end():]
    m = re.sub(r"\\u0022.*?\\u0022|\"[^\"]*\"|'[^']*'", "", m)
    m = re.sub(r"[^A-Za-z ]+", " ", m)
    return " ".join(m.split()[:3])


def judge(F, v, cls, reason, outcome):
    """-> None or (code, detail). code is the failure class used while minimising."""
    kind, written, x = outcome
    if kind == "panic":
        return ("panic", str(x)[:300])
    if cls == "reject":
        if kind != "werr":
            return ("outside-written", "%s: %r" % (reason, (written or b"")[:200]))
        return None
    if cls == "in":
        if kind == "werr":
            return ("write-error:" + err_class(x), x)
        if kind == "rerr":
            return ("read-error:" + err_class(x), x)
        if len(x) != 1:
            return ("count-%d" % len(x), show(x, 300))
        if not same(v, x[0]):
            return ("differs-" + diff_kind(v, x[0]), show(x[0], 300))
        if F in ("yaml", "cbor") and not same_order(v, x[0]):
            return ("key-order", show(x[0], 300))
        return None
    # loose: documented exceptions
    if kind == "ok":
        if reason == "bigint" and not (len(x) == 1 and same(v, x[0])):
            return ("bigint-wrong-value", show(x, 300))
        if F == "yaml" and not (len(x) == 1 and same(v, x[0])):
            return ("invalid-utf8-differs", show(x, 300))
    return None


def diff_kind(a, b):
    """kind of the first node of b that differs from a (for the failure class)"""
    a, b = V.norm(a), V.norm(b)
    if V.kind(a) != V.kind(b):
        return V.kind(b)
    if isinstance(a, list) and len(a) == len(b):
        for x, y in zip(a, b):
            if not same(x, y):
                return diff_kind(x, y)
    if isinstance(a, Obj) and len(a.items) == len(b.items):
        for (k1, v1), (k2, v2) in zip(a.items, b.items):
            if not same(k1, k2):
                return diff_kind(k1, k2)
            if not same(v1, v2):
                return diff_kind(v1, v2)
    return V.kind(b)


# =========================================================================================
# minimisation against the real implementation -> canonical keys

def _rank(ch):
    if ch in b"1 ":
        return 0
    if ch == 0x61:
        return 1
    return 2 if (48 <= ch < 58 or 65 <= ch < 91 or 97 <= ch < 123) else 3


def measure(v):
    n = 0
    s = 0
    rank = 0
    for x in walk(v):
        n += 1
        if isinstance(x, Str):
            s += len(x.b)
            rank += 1 + sum(_rank(ch) for ch in x.b)
        elif isinstance(x, (int, Big)) and not isinstance(x, bool):
            i = V.ival(x)
            rank += 4 * abs(i).bit_length() + (2 if i < 0 else 0) + (1 if isinstance(x, Big) else 0)
        elif not isinstance(x, (list, Obj)):
            rank += 10 if (isinstance(x, float) and x in (0.0, 0.5, 1.0, -1.0)) or x is None or isinstance(x, bool) else 11
    return (n, s, rank)


def str_candidates(s):
    """delete chunks (halves, quarters, ... single characters); replace a character by '1',
    by 'a', a tab by a blank (long strings: all characters at once)"""
    try:
        t = s.b.decode("utf-8")
    except UnicodeDecodeError:
        return
    n = len(t)
    c = n // 2
    while c > 1:
        starts = list(range(0, n, c))
        if len(starts) > 8:
            starts = starts[:4] + starts[-4:]
        for i in starts:
            yield S(t[:i] + t[i + c:])
        c //= 2
    for i in range(n):
        yield S(t[:i] + t[i + 1:])
    if n > 64:
        yield S("1" * n)
        yield S("a" * n)
        return
    for i, ch in enumerate(t):
        if ch == "\t":
            yield S(t[:i] + " " + t[i + 1:])
        elif ch not in "1 ":
            yield S(t[:i] + "1" + t[i + 1:])
            if ch != "a":
                yield S(t[:i] + "a" + t[i + 1:])


LONG = 48


def sub_candidates(F, v):
    """strictly smaller values, most aggressive first"""
    wrap = {"yaml": lambda x: [[x]], "cbor": lambda x: [[x]], "toml": lambda x: [Obj([(S("k"), x)])],
            "csv": lambda x: [[x]], "tsv": lambda x: [[x]]}[F]
    if isinstance(v, (list, Obj)) and len(v if isinstance(v, list) else v.items) > LONG:
        # long containers: remove aligned blocks (halves, quarters, ...) instead of single elements,
        # so that a round stays linear in the size of the value
        items = v if isinstance(v, list) else v.items
        mk = (lambda xs: xs) if isinstance(v, list) else Obj
        n = len(items)
        for x in items[:4]:
            yield x if isinstance(v, list) else x[1]
        size = n // 2
        while size >= max(1, n // 64):
            for lo in range(0, n, size):
                yield mk(items[:lo] + items[lo + size:])
            size //= 2
        yield mk(items[:n - 1])
        yield mk(items[1:])
        return
    if isinstance(v, list):
        for x in v:
            yield x
            yield from wrap(x)
        for i in range(len(v)):
            yield v[:i] + v[i + 1:]
        for i, x in enumerate(v):
            if not isinstance(x, (list, Obj)):
                yield v[:i] + [0] + v[i + 1:]
            for y in sub_candidates(F, x):
                yield v[:i] + [y] + v[i + 1:]
    elif isinstance(v, Obj):
        for k, x in v.items:
            yield x
            yield from wrap(x)
            yield k
            yield Obj([(k, 0)])
        for i in range(len(v.items)):
            yield Obj(v.items[:i] + v.items[i + 1:])
        for i, (k, x) in enumerate(v.items):
            if not isinstance(x, (list, Obj)):
                yield Obj(v.items[:i] + [(k, 0)] + v.items[i + 1:])
            for y in sub_candidates(F, x):
                yield Obj(v.items[:i] + [(k, y)] + v.items[i + 1:])
            for y in sub_candidates(F, k):
                if key_ok(y, [kk for j, (kk, _) in enumerate(v.items) if j != i]):
                    yield Obj(v.items[:i] + [(y, x)] + v.items[i + 1:])
    elif isinstance(v, Str) and v.text:
        yield from str_candidates(v)
    elif isinstance(v, Str):
        for i in range(len(v.b)):
            yield Str(v.b[:i] + v.b[i + 1:], False)
    elif isinstance(v, (int, Big)) and not isinstance(v, bool):
        i = V.ival(v)
        for y in (0, 1, -1, int(i / 2) if abs(i) < 2 ** 53 else (abs(i) >> 1) * (1 if i > 0 else -1), -i if i < 0 else None):
            if y is not None and y != i:
                yield y
    elif isinstance(v, float) and v == v and v not in (0.0, 1.0, -1.0, 0.5):
        yield from (0.5, 1.0, -1.0)


def minimise(F, v, first_failing, budget=2500):
    """greedy descent; first_failing(candidates) re-executes the real implementation on a batch
    and returns the index of the first candidate that still fails in the same way (or None)"""
    cur = v
    m = measure(cur)
    seen = set()
    steps = 0
    while steps < budget:
        cands = []
        dup = set()
        for cand in sub_candidates(F, cur):
            mc = measure(cand)
            if not mc < m:
                continue
            fz = freeze(cand)
            if fz in seen or fz in dup:
                continue
            dup.add(fz)
            cands.append((cand, mc, fz))
        hit = None
        for lo in range(0, len(cands), 24):
            chunk = cands[lo:lo + 24]
            steps += len(chunk)
            i = first_failing([x for x, _m, _f in chunk])
            seen.update(fz for _x, _m, fz in (chunk if i is None else chunk[:i]))      # known not to fail
            if i is not None:
                hit = chunk[i]
                break
        if hit is None:
            break
        cur, m = hit[0], hit[1]
    return cur


def compact(x):
    """rendering of an atom for a key: long strings as "c"*N or prefix + length + digest"""
    if isinstance(x, Str) and x.text and valid_text(x):
        t = x.b.decode("utf-8")
        if len(t) > 48:
            if len(set(t)) == 1:
                return "%s*%d" % (json.dumps(t[0]), len(t))
            return "%s...(%d chars, md5 %s)" % (json.dumps(t[:16]), len(t), hashlib.md5(x.b).hexdigest()[:8])
        return json.dumps(t)
    return show(x, 60)


def canonical(F, what, v):
    """key for a minimised failing value: the single interesting atom if there is one"""
    leaves = [x for x in walk(v) if not isinstance(x, (list, Obj))]
    interesting = [x for x in leaves if not (x == 0 and not isinstance(x, bool) and not isinstance(x, float))
                   and x != S("k") and x != S("a") and x != S("1")] or leaves
    uniq = []
    for x in interesting:
        if not any(freeze(x) == freeze(y) for y in uniq):
            uniq.append(x)
    if len(uniq) > 1 and any(x != S("") for x in uniq):
        uniq = [x for x in uniq if x != S("")]      # an empty string next to the culprit is a placeholder too
    if len(uniq) == 1:
        x = uniq[0]
        if isinstance(x, Str) and x.text and valid_text(x):
            return "%s:%s:string:%s" % (F, what, compact(x))
        return "%s:%s:%s:%s" % (F, what, rep(x), show(x, 120))
    if len(uniq) <= 4:
        return "%s:%s:atoms:%s" % (F, what, ",".join(compact(x) for x in uniq))
    return "%s:%s:value(%d nodes):%s" % (F, what, measure(v)[0], show(v, 120))


# =========================================================================================
# worker tasks

def digest(F, v):
    return hashlib.md5((F + repr(freeze(v))).encode("utf-8", "surrogateescape")).digest()[:8]


def nontrivial(F, v):
    for x in walk(v):
        if isinstance(x, Str) and (x.b or not x.text):
            return True
        if isinstance(x, (float, Dec, Big)) or (isinstance(x, int) and not isinstance(x, bool) and abs(x) > 2 ** 53):
            return True
        if isinstance(x, Obj) and any(not isinstance(k, Str) for k, _ in x.items):
            return True
    return False


def run_one(c, F, v, path):
    """one round trip through one path; path = 'filter' or a mode name of MODES[F]"""
    if path == "filter":
        return via_filter(c, F, [v])[0]
    mode = [m for m in MODES[F] if m[0] == path][0]
    return via_fmt(c, F, v, mode)


def value_task(t):
    F, part, idx, seed, n, nparts = t
    import random
    rng = random.Random(f"c14/{seed}/{F}/{part}/{idx}")
    c = cl()
    if part == "pool":
        vals = [(v, tag) for v, tag, g in pool_values(F, rng) if g % nparts == idx]
    else:
        vals = rand_values(F, rng, n)
    st = {"format": F, "values": 0, "roundtrips": 0, "cls": {}, "paths": {}, "consumers": {}, "rejected_ok": 0,
          "loose_outcomes": {}, "failures": [], "inconc": [], "digests": set(), "samples": [], "cbor_facts": {},
          "cli_pick": []}
    fails = st["failures"]
    try:
        classes = [classify(F, v) for v, _ in vals]
        B = 250
        for lo in range(0, len(vals), B):
            chunk = vals[lo:lo + B]
            outs = via_filter(c, F, [v for v, _ in chunk])
            for j, ((v, tag), out) in enumerate(zip(chunk, outs)):
                cls, reason = classes[lo + j]
                st["values"] += 1
                st["cls"][cls] = st["cls"].get(cls, 0) + 1
                if nontrivial(F, v):
                    st["digests"].add(digest(F, v))
                results = [("filter", out)]
                modes = MODES[F]
                if len(modes) > 3:      # always -c and default; the -j variants in rotation
                    modes = modes[:2] + [modes[2 + (lo + j) % (len(modes) - 2)]]
                for mode in modes:
                    results.append((mode[0], via_fmt(c, F, v, mode)))
                for path, o in results:
                    st["roundtrips"] += 1
                    st["paths"][path] = st["paths"].get(path, 0) + 1
                    bad, consumer = verdict(F, v, cls, reason, path, o)
                    if consumer:
                        st["consumers"][consumer] = st["consumers"].get(consumer, 0) + 1
                    if bad:
                        fails.append({"format": F, "path": path, "code": bad[0], "detail": bad[1], "value": enc(v),
                                      "cls": cls, "reason": reason, "part": part, "size": measure(v)})
                    elif cls == "reject":
                        st["rejected_ok"] += 1
                    elif cls == "loose":
                        k = "%s:%s" % (reason, o[0])
                        st["loose_outcomes"][k] = st["loose_outcomes"].get(k, 0) + 1
                if len(st["samples"]) < 3 and rng.random() < 0.02 and out[0] == "ok":
                    st["samples"].append({"format": F, "value": show(v, 160), "class": cls,
                                          "written_by_filter": out[1][:160].decode("utf-8", "replace") if F != "cbor" else out[1][:80].hex(),
                                          "read_back": show(out[2], 160)})
    except WorkerDied as e:
        st["inconc"].append(classify_death(e))
    if part != "pool":
        # random trees: per failure class keep the 12 smallest and 12 random witnesses of this task
        by = {}
        for f in fails:
            by.setdefault(f["code"], []).append(f)
        keep = []
        for code in sorted(by):
            fs = sorted(by[code], key=lambda f: (f["size"], 0 if f["path"] != "filter" else 1))
            rest = fs[12:]
            rng.shuffle(rest)
            keep += fs[:12] + rest[:12]
            st["failures_dropped"] = st.get("failures_dropped", 0) + max(0, len(rest) - 12)
        st["failures"] = keep
    st["digests"] = list(st["digests"])
    if F == "cbor":
        st["cbor_facts"] = dict(CBOR_FACTS)
        CBOR_FACTS.clear()
    return st


def strip_row_end(F, path, w):
    return w[:-1] if F in ("csv", "tsv") and path != "filter" and w.endswith(b"\n") else w


def verdict(F, v, cls, reason, path, o):
    """round-trip verdict, then (only if the round trip is fine) the independent reader's;
    -> (issue or None, consumer or None)"""
    bad = judge(F, v, cls, reason, o)
    if bad or o[0] != "ok" or o[1] is None or cls == "reject" or (F == "toml" and cls != "in"):
        return bad, None
    consumer, issue = independent(F, v, cls, strip_row_end(F, path, o[1]))
    return issue, consumer


def fail_pred(c, F, path, code, want_cls, want_reason=None):
    """for the minimiser: index of the first candidate that is in the same class of the domain
    and fails through the same path with the same failure class"""
    def first_failing(cands):
        todo = []
        for i, x in enumerate(cands):
            cls, reason = classify(F, x)
            if cls == want_cls and (want_reason is None or reason == want_reason):
                todo.append((i, x, cls, reason))
        if not todo:
            return None
        try:
            if path == "filter":
                outs = via_filter(c, F, [x for _i, x, _c, _r in todo])
            for j, (i, x, cls, reason) in enumerate(todo):
                o = outs[j] if path == "filter" else run_one(c, F, x, path)
                bad, _consumer = verdict(F, x, cls, reason, path, o)
                if bad and bad[0] == code:
                    return i
        except WorkerDied:
            return None
        return None
    return first_failing


def shrink_task(f):
    """minimise one failure; -> (key, witness, unstable?)"""
    c = cl()
    F, path, code = f["format"], f["path"], f["code"]
    v = dec(f["value"])
    want = f["cls"]
    pred = fail_pred(c, F, path, code, want, f["reason"] if want == "reject" else None)
    if pred([v]) is None:
        return ("%s:unstable:%s" % (F, code), dict(f, note="failure did not reproduce in isolation"), True)
    m = minimise(F, v, pred)
    if want == "in" and not f.get("derived"):
        # several atoms left (typically two keys that collide after the round trip): if one of them
        # fails on its own, report that atom - it is the cause, the collision its consequence
        atoms = []
        for x in walk(m):
            if isinstance(x, Str) and x.text and valid_text(x) and x not in (S("k"), S("a"), S("1"), S("")) and x not in atoms:
                atoms.append(x)
        if len([x for x in walk(m) if not isinstance(x, (list, Obj))]) > 1 and len(atoms) >= 1 and freeze(m) not in [freeze(y) for x in atoms for y in ctx_values(F, x)]:
            for x in atoms:
                alone = ctx_values(F, x)[0]
                if classify(F, alone)[0] != "in":
                    continue
                bad, _consumer = verdict(F, alone, "in", "", path, run_one(c, F, alone, path))
                if bad:
                    return shrink_task(dict(f, value=enc(alone), code=bad[0], detail=bad[1], derived=True,
                                            seen_as=show(m, 300)))
    if want == "reject":
        key = "%s:outside:%s" % (F, f["reason"])
    else:
        what = "reader" if code.startswith("reader-") else "panic" if code == "panic" else \
            "key-order" if code == "key-order" else "roundtrip"
        key = canonical(F, what, m)
    o = run_one(c, F, m, path)
    wit = {"format": F, "path": path, "failure": code, "minimal_value": show(m, 400), "minimal_value_wire": enc(m),
           "written": (o[1] or b"").decode("utf-8", "replace") if F != "cbor" else (o[1] or b"").hex(),
           "outcome": o[0], "read_back_or_error": show(o[2], 300) if o[0] == "ok" else str(o[2])[:300],
           "first_seen_in": f.get("seen_as") or show(v, 300), "first_detail": f["detail"], "domain_class": f["cls"],
           "class_reason": f["reason"]}
    return (key, wit, False)


# =========================================================================================
# XML: document generator, mutations, expat as independent reader

XML_TEXT = ["x", " ", "\n  ", "a b", "&amp;", "&lt;", "&gt;", "&quot;", "&apos;", "&#65;", "&#x41;", "]]", "]", ">", "'", "\"",
            "é", "\U0001d11e", "\t", "a&amp;b", "  x  ", "Tom &amp; Jerry", "\n", "1", "null", "{\"t\":\"a\"}", "&#10;", "a\r\nb"]
XML_COMMENT = [" c ", "", "a-b", "<a>", "&amp;", "&", "x\ny", " - ", "é", "]]>", "<!-", "?>"]
XML_CDATA = ["", "x", "<a>&</a>", "]]", "]", " ", "a\nb", "&amp;", "Hello & goodbye!", "]>", "é", "<![CDATA["]
XML_PI = [None, "x", "a=\"b\"", "href='c'", "? >", "x  ", "<a>", "&amp;", "é"]
XML_ATTR = ["", "v", "a b", "&amp;", "&lt;", "&quot;", "&apos;", "&#10;", "&#x9;", ">", "a\nb", "\t", "é", " x ", "1", "/", "="]
XML_NAMES = ["a", "b", "c", "d", "p:a", "p:b", "q:c", "_x", "a-b", "a.b", "é", "x1", "A"]
XML_ATTR_NAMES = ["b", "c", "id", "p:b", "q:c", "xml:lang", "xml:space", "_", "a-b", "é"]
XML_WS = [" ", "  ", "\n", "\n  ", "\t"]
XML_INT = ["", " ", "<!ENTITY e \"v\">", "<!ENTITY e 'v'>", "\n<!ELEMENT a ANY>\n", "<!ATTLIST a b CDATA #IMPLIED>", "<!-- c -->",
           "<?pi x?>", "<!ENTITY e \"a&amp;b\">", "\n  <!ENTITY e \"v\">\n  <!ENTITY f 'w'>\n"]


XML_FIXED = [
    "<a/>", "<a></a>", "<a b=\"c\"/>", "<a b='c'/>", "<a b='\"'/>", "<a b=\"'\"/>", "<a b='\">'></a>", "<a b=\"&quot;\"/>",
    "<a b='&apos;'/>", "<a b=\"x&#10;y\"/>", "<a  b = \"c\"  />", "<a b=\"c\" d=\"e\"/>", "<a>text</a>", "<a> </a>",
    "<a>&amp;&lt;&gt;</a>", "<a><![CDATA[<&>]]></a>", "<a><![CDATA[]]></a>", "<a><!-- c --></a>", "<a><?pi x?></a>",
    "<a><?pi?></a>", "<?xml version=\"1.0\"?><a/>", "<?xml version='1.0'?><a/>", "<?xml version=\"1.0\" encoding=\"UTF-8\"?><a/>",
    "<?xml version=\"1.0\" standalone=\"yes\"?><a/>", "<!DOCTYPE a><a/>", "<!DOCTYPE a SYSTEM \"s\"><a/>",
    "<!DOCTYPE a [<!ENTITY e \"v\">]><a>&e;</a>", "<!DOCTYPE a []><a/>", "<p:a xmlns:p=\"urn:p\"><p:b p:c=\"d\"/></p:a>",
    "<a xmlns=\"urn:x\"/>", "<a><b/><c></c>t<d>u</d></a>", "<!-- c --><a/><!-- d -->", "<?pi x?><a/><?pi y?>",
    "<a>\u00e9\U0001d11e</a>", "<\u00e9/>", "<a>\n  <b/>\n</a>\n", "\n<a/>", "<a\n/>", "<a></a >",
]


def gen_doc(rng):
    ent = None

    def misc():
        r = rng.random()
        if r < 0.4:
            return ("w", rng.choice(XML_WS))
        if r < 0.7:
            return ("c", rng.choice(XML_COMMENT[:9]))
        return ("p", rng.choice(["pi", "xml-stylesheet", "p-i"]), rng.choice(XML_PI))
    d = {"decl": None, "pre": [], "doctype": None, "mid": [], "post": []}
    if rng.random() < 0.5:
        d["decl"] = {"version": rng.choice(["1.0", "1.0", "1.1"]), "encoding": rng.choice([None, None, "UTF-8", "utf-8"]),
                     "standalone": rng.choice([None, None, None, "yes", "no"]), "q": rng.choice("\"'"),
                     "sp": rng.choice(["", "", " "])}
    d["pre"] = [misc() for _ in range(rng.choice((0, 0, 1, 2)))]
    d["mid"] = [misc() for _ in range(rng.choice((0, 0, 1)))]
    d["post"] = [misc() for _ in range(rng.choice((0, 0, 1, 2)))]
    rootname = rng.choice(XML_NAMES)
    if rng.random() < 0.45:
        ext = None
        r = rng.random()
        if r < 0.25:
            ext = ("SYSTEM", rng.choice(["a.dtd", "http://x/y.dtd", ""]), rng.choice("\"'"))
        elif r < 0.4:
            ext = ("PUBLIC", rng.choice(["-//W3C//DTD XHTML 1.0 Strict//EN", "x"]),
                   rng.choice(["http://www.w3.org/TR/xhtml1/DTD/xhtml1-strict.dtd", "a.dtd"]), rng.choice("\"'"))
        internal = rng.choice(XML_INT) if rng.random() < 0.5 else None
        if internal and "ENTITY e" in internal:
            ent = "&e;"
        d["doctype"] = {"name": rootname, "ext": ext, "int": internal, "sp": rng.choice(["", "", " "])}

    def text():
        pool = XML_TEXT + ([ent] * 4 if ent else [])
        return "".join(rng.choice(pool) for _ in range(rng.choice((1, 1, 2, 3))))

    def elem(depth, name=None):
        e = {"n": name or rng.choice(XML_NAMES), "attrs": [], "kids": None, "endsp": rng.choice(["", "", "", " ", "\n"]),
             "closesp": rng.choice(["", "", "", " "])}
        used = set()
        for _ in range(rng.choice((0, 0, 1, 1, 2, 3))):
            n = rng.choice(XML_ATTR_NAMES)
            if n in used:
                continue
            used.add(n)
            q = rng.choice("\"'")
            v = "".join(rng.choice(XML_ATTR + ([ent] if ent else []) + ["'" if q == '"' else '"'] * 2)
                        for _ in range(rng.choice((1, 1, 2))))
            e["attrs"].append({"n": n, "v": v, "q": q, "pre": rng.choice([" ", " ", " ", "  ", "\n  ", "\t"]),
                               "eq": rng.choice(["=", "=", "=", " = ", "= ", " ="])})
        if rng.random() < 0.75:
            kids = []
            for _ in range(rng.choice((0, 1, 1, 2, 3, 4)) if depth > 0 else rng.choice((0, 1))):
                r = rng.random()
                if r < 0.35:
                    if kids and not isinstance(kids[-1], dict) and kids[-1][0] == "t":
                        continue
                    kids.append(("t", text()))
                elif r < 0.6 and depth > 0:
                    kids.append(elem(depth - 1))
                elif r < 0.75:
                    kids.append(("c", rng.choice(XML_COMMENT[:9])))
                elif r < 0.9:
                    kids.append(("d", rng.choice(XML_CDATA[:11])))
                else:
                    kids.append(("p", rng.choice(["pi", "php", "x-y"]), rng.choice(XML_PI)))
            e["kids"] = kids
        return e
    root = elem(3, rootname)
    # namespace declarations for every prefix in use
    decl = []
    if rng.random() < 0.3:
        decl.append({"n": "xmlns", "v": "http://www.w3.org/1999/xhtml", "q": rng.choice("\"'"), "pre": " ", "eq": "="})
    for p in ("p", "q"):
        decl.append({"n": "xmlns:" + p, "v": "urn:" + p, "q": rng.choice("\"'"), "pre": " ", "eq": "="})
    root["attrs"] = decl + root["attrs"]
    d["root"] = root
    return d


def render(d):
    out = []

    def misc(m):
        if m[0] == "w":
            out.append(m[1])
        elif m[0] == "c":
            out.append("<!--" + m[1] + "-->")
        elif m[0] == "t":
            out.append(m[1])
        elif m[0] == "d":
            out.append("<![CDATA[" + m[1] + "]]>")
        else:
            out.append("<?" + m[1] + ("" if m[2] is None else " " + m[2]) + "?>")

    def elem(e):
        out.append("<" + e["n"])
        for a in e["attrs"]:
            out.append(a["pre"] + a["n"] + a["eq"] + a["q"] + a["v"] + a["q"])
        out.append(e["endsp"])
        if e["kids"] is None:
            out.append("/>")
            return
        out.append(">")
        for k in e["kids"]:
            if isinstance(k, dict):
                elem(k)
            else:
                misc(k)
        out.append("</" + e["n"] + e["closesp"] + ">")
    x = d["decl"]
    if x:
        q = x["q"]
        out.append("<?xml version=" + q + x["version"] + q)
        if x["encoding"]:
            out.append(" encoding=" + q + x["encoding"] + q)
        if x["standalone"]:
            out.append(" standalone=" + q + x["standalone"] + q)
        out.append(x["sp"] + "?>")
    for m in d["pre"]:
        misc(m)
    x = d["doctype"]
    if x:
        out.append("<!DOCTYPE " + x["name"])
        if x["ext"]:
            e = x["ext"]
            q = e[-1]
            if e[0] == "SYSTEM":
                out.append(" SYSTEM " + q + e[1] + q)
            else:
                out.append(" PUBLIC " + q + e[1] + q + " " + q + e[2] + q)
        if x["int"] is not None:
            out.append(" [" + x["int"] + "]")
        out.append(x["sp"] + ">")
    for m in d["mid"]:
        misc(m)
    elem(d["root"])
    for m in d["post"]:
        misc(m)
    return "".join(out)


def _strdel(s):
    for i in range(len(s)):
        yield s[:i] + s[i + 1:]


def elem_reductions(e):
    kids = e["kids"]
    if kids is not None:
        for i in range(len(kids)):
            yield dict(e, kids=kids[:i] + kids[i + 1:])
        if not kids:
            yield dict(e, kids=None)
    for i in range(len(e["attrs"])):
        yield dict(e, attrs=e["attrs"][:i] + e["attrs"][i + 1:])
    if e["n"] != "a":
        yield dict(e, n="a")
    if e["endsp"]:
        yield dict(e, endsp="")
    if e["closesp"]:
        yield dict(e, closesp="")
    for i, a in enumerate(e["attrs"]):
        def put(b):
            return dict(e, attrs=e["attrs"][:i] + [b] + e["attrs"][i + 1:])
        if a["n"] != "b" and not a["n"].startswith("xmlns"):
            yield put(dict(a, n="b"))
        if a["q"] != '"':
            yield put(dict(a, q='"'))
        if a["pre"] != " ":
            yield put(dict(a, pre=" "))
        if a["eq"] != "=":
            yield put(dict(a, eq="="))
        for v in _strdel(a["v"]):
            yield put(dict(a, v=v))
    if kids:
        for i, k in enumerate(kids):
            def putk(b):
                return dict(e, kids=kids[:i] + [b] + kids[i + 1:])
            if isinstance(k, dict):
                if k["kids"]:
                    yield dict(e, kids=kids[:i] + k["kids"] + kids[i + 1:])
                for r in elem_reductions(k):
                    yield putk(r)
            elif k[0] == "p":
                if k[2] is not None:
                    yield putk(("p", k[1], None))
                    for v in _strdel(k[2]):
                        yield putk(("p", k[1], v))
            else:
                for v in _strdel(k[1]):
                    yield putk((k[0], v))


def doc_reductions(d):
    if d["decl"]:
        yield dict(d, decl=None)
        x = d["decl"]
        for f in ("encoding", "standalone"):
            if x[f]:
                yield dict(d, decl=dict(x, **{f: None}))
        if x["q"] != '"':
            yield dict(d, decl=dict(x, q='"'))
        if x["sp"]:
            yield dict(d, decl=dict(x, sp=""))
        if x["version"] != "1.0":
            yield dict(d, decl=dict(x, version="1.0"))
        if x["standalone"] == "no":
            yield dict(d, decl=dict(x, standalone="yes"))
    for part in ("pre", "mid", "post"):
        for i in range(len(d[part])):
            yield dict(d, **{part: d[part][:i] + d[part][i + 1:]})
    if d["doctype"]:
        yield dict(d, doctype=None)
        x = d["doctype"]
        if x["ext"]:
            yield dict(d, doctype=dict(x, ext=None))
            if x["ext"][0] == "PUBLIC":
                yield dict(d, doctype=dict(x, ext=("SYSTEM", x["ext"][2], x["ext"][3])))
            if x["ext"][-1] != '"':
                yield dict(d, doctype=dict(x, ext=x["ext"][:-1] + ('"',)))
            if x["ext"][0] == "SYSTEM" and x["ext"][1] != "s":
                yield dict(d, doctype=dict(x, ext=("SYSTEM", "s", x["ext"][2])))
        if x["int"] is not None:
            yield dict(d, doctype=dict(x, int=None))
            if x["int"]:
                yield dict(d, doctype=dict(x, int=""))
        if x["sp"]:
            yield dict(d, doctype=dict(x, sp=""))
    root = d["root"]
    if root["kids"]:
        for k in root["kids"]:
            if isinstance(k, dict):
                attrs = [a for a in root["attrs"] if a["n"].startswith("xmlns")] + k["attrs"]
                nd = dict(d, root=dict(k, attrs=attrs))
                if nd["doctype"]:
                    nd["doctype"] = dict(nd["doctype"], name=k["n"])
                yield nd
    for r in elem_reductions(root):
        nd = dict(d, root=r)
        if nd["doctype"] and nd["doctype"]["name"] != r["n"]:
            nd["doctype"] = dict(nd["doctype"], name=r["n"])
        yield nd


def dom_canon(text_bytes):
    """expat (via minidom) as the independent reader: canonical serialisation of the DOM, or
    Malformed"""
    try:
        doc = xml.dom.minidom.parseString(text_bytes)
    except (xml.parsers.expat.ExpatError, ValueError, RecursionError, LookupError) as e:
        raise Malformed(str(e))
    try:
        dt = doc.doctype
        head = None if dt is None else (dt.name, dt.publicId, dt.systemId, dt.internalSubset)
        return (head, doc.toxml())
    finally:
        doc.unlink()


XML_PROG = ("$D[] | try ([fromxml] | . as $a | try (toxml | . as $w | try [0, $a, $w, [fromxml]] catch [1, $a, $w, .])"
            " catch [2, $a, .]) catch [3, .]")


def xml_filter(c, docs):
    r = c.eval(XML_PROG, [{"input": None}], vars=[("D", enc([Str(d, True) for d in docs]))], take=len(docs) + 1,
               timeout=300)
    res = r["results"][0]
    if res.get("panic") or res["end"][0] != "end" or len(res["outs"]) != len(docs):
        if len(docs) == 1:
            return [("panic", res.get("panic") or res["end"])]
        h = len(docs) // 2
        return xml_filter(c, docs[:h]) + xml_filter(c, docs[h:])
    out = []
    for o in res["outs"]:
        o = dec(o[0])
        out.append({0: lambda: ("ok", o[1], o[2].b, o[3]), 1: lambda: ("reread-error", o[1], o[2].b, short(o[3])),
                    2: lambda: ("toxml-error", o[1], None, short(o[2])), 3: lambda: ("rejected", None, None, short(o[1]))}[o[0]]())
    return out


def xml_library(c, doc):
    """what `jaq --from xml --to xml .` does: read::parse, write::write per root value"""
    r = c.request({"op": "fmt", "dir": "read", "format": "xml", "bytes": doc.hex()}, 120)
    if r.get("panic"):
        return ("panic", r["panic"])
    if r.get("error") is not None:
        return ("rejected", None, None, short(r["error"]))
    a = [dec(x) for x in r["vals"]]
    w = b""
    for x in r["vals"]:
        r2 = c.request({"op": "fmt", "dir": "write", "format": "xml", "val": x, "indent": "  ", "sep_space": True}, 120)
        if r2.get("panic"):
            return ("panic", r2["panic"])
        if r2.get("error") is not None:
            return ("toxml-error", a, None, short(r2["error"]))
        w += bytes.fromhex(r2["bytes"])
    r3 = c.request({"op": "fmt", "dir": "read", "format": "xml", "bytes": w.hex()}, 120)
    if r3.get("panic"):
        return ("panic", r3["panic"])
    if r3.get("error") is not None:
        return ("reread-error", a, w, short(r3["error"]))
    return ("ok", a, w, [dec(x) for x in r3["vals"]])


def xml_judge(doc, o, canon0):
    """-> None or (code, detail); doc is well-formed for expat (canon0 is its DOM)"""
    if o[0] == "panic":
        return ("panic", str(o[1])[:300])
    if o[0] == "rejected":
        return None      # counted, not judged: the equation has no value on either side
    if o[0] in ("toxml-error", "reread-error"):
        return (o[0] + ":" + err_class(o[3]), o[3])
    _k, a, w, b = o
    if not (same(a, b) and same_order(a, b)):
        return ("differs", show(b, 300))
    try:
        canon1 = dom_canon(w)
    except Malformed as e:
        return ("reader-rejects:" + err_class(e), str(e))
    if canon1 != canon0:
        return ("reader-differs", canon1[1][:300])
    return None


def xml_run(c, doc, path):
    return xml_filter(c, [doc])[0] if path == "filter" else xml_library(c, doc)


def xml_features(text):
    fs = []
    for name, pat in (("decl", "<?xml "), ("standalone", "standalone="), ("doctype", "<!DOCTYPE"), ("system-id", " SYSTEM "),
                      ("public-id", " PUBLIC "), ("internal-subset", " ["), ("entity-ref", "&e;"), ("cdata", "<![CDATA["),
                      ("comment", "<!--"), ("pi", "<?p"), ("single-quoted-attr", "='"), ("namespace-prefix", "<p:"),
                      ("char-ref", "&#"), ("self-closing", "/>")):
        if pat in text:
            fs.append(name)
    return fs


MUTATORS = ["attr-to-single-quotes", "attr-single-quoted-with-double-quote", "attr-with-apos", "attr-newline",
            "attr-entity", "prepend-decl", "prepend-decl-encoding", "prepend-decl-standalone", "insert-doctype",
            "insert-doctype-system", "insert-doctype-public", "insert-doctype-internal-subset", "insert-comment",
            "insert-cdata", "insert-pi", "insert-pi-no-content", "insert-entity-ref", "insert-char-ref",
            "space-in-start-tag", "space-in-end-tag", "self-closing-to-pair", "empty-pair-to-self-closing",
            "delete-text", "insert-unicode-text", "add-attr", "trailing-comment", "trailing-whitespace",
            "leading-whitespace-after-decl", "crlf-line-ends", "tabs-for-spaces"]


def mutate(text, op, rng):
    """one mutation of an XHTML text; None if the operator finds no site"""
    def pick(pat):
        ms = list(re.finditer(pat, text))
        return rng.choice(ms) if ms else None
    has_decl = text.startswith("<?xml")
    m_root = re.search(r"<[A-Za-z]", text)
    root_at = m_root.start() if m_root else 0
    has_doctype = "<!DOCTYPE" in text
    rootname = re.match(r"<([\w:.-]+)", text[root_at:]).group(1)
    inner = [m.end() for m in re.finditer(r">", text) if root_at < m.end() < text.rfind("</")
             and text.rfind("<!--", 0, m.end()) <= text.rfind("-->", 0, m.end())
             and text.rfind("<![CDATA[", 0, m.end()) <= text.rfind("]]>", 0, m.end())]

    def ins(s):
        if not inner:
            return None
        i = rng.choice(inner)
        return text[:i] + s + text[i:]

    def sub(m, s):
        return text[:m.start()] + s + text[m.end():]
    attr = r"(\s[\w:.-]+)=\"([^\"<&']*)\""
    if op == "attr-to-single-quotes":
        m = pick(attr)
        return m and sub(m, m.group(1) + "='" + m.group(2) + "'")
    if op == "attr-single-quoted-with-double-quote":
        m = pick(attr)
        return m and sub(m, m.group(1) + "='" + m.group(2) + "\"q\"'")
    if op == "attr-with-apos":
        m = pick(attr)
        return m and sub(m, m.group(1) + "=\"" + m.group(2) + "'\"")
    if op == "attr-newline":
        m = pick(attr)
        return m and sub(m, m.group(1) + "=\"" + m.group(2) + "\n x\"")
    if op == "attr-entity":
        m = pick(attr)
        return m and sub(m, m.group(1) + "=\"" + m.group(2) + "&amp;&quot;&#10;\"")
    if op.startswith("prepend-decl"):
        if has_decl:
            return None
        extra = {"prepend-decl": "", "prepend-decl-encoding": " encoding=\"UTF-8\"",
                 "prepend-decl-standalone": " standalone=\"yes\""}[op]
        return "<?xml version=\"1.0\"" + extra + "?>\n" + text
    if op.startswith("insert-doctype"):
        if has_doctype:
            return None
        dt = {"insert-doctype": "<!DOCTYPE %s>", "insert-doctype-system": "<!DOCTYPE %s SYSTEM \"a.dtd\">",
              "insert-doctype-public": "<!DOCTYPE %s PUBLIC \"-//W3C//DTD XHTML 1.0 Strict//EN\" "
                                       "\"http://www.w3.org/TR/xhtml1/DTD/xhtml1-strict.dtd\">",
              "insert-doctype-internal-subset": "<!DOCTYPE %s [<!ENTITY e \"v\">]>"}[op] % rootname
        return text[:root_at] + dt + "\n" + text[root_at:]
    if op == "insert-comment":
        return ins("<!-- c & <d> -->")
    if op == "insert-cdata":
        return ins("<![CDATA[<x> & ]] ]]>")
    if op == "insert-pi":
        return ins("<?pi a=\"b\" ?>")
    if op == "insert-pi-no-content":
        return ins("<?pi?>")
    if op == "insert-entity-ref":
        return ins("&amp;&lt;&gt;&quot;&apos;")
    if op == "insert-char-ref":
        return ins("&#65;&#x1D11E;")
    if op == "space-in-start-tag":
        m = pick(r"<[A-Za-z][\w:.-]*(\s[^<>]*?)?(?=/?>)")
        return m and text[:m.end()] + " \n " + text[m.end():]
    if op == "space-in-end-tag":
        m = pick(r"</[\w:.-]+(?=>)")
        return m and text[:m.end()] + " " + text[m.end():]
    if op == "self-closing-to-pair":
        m = pick(r"<([A-Za-z][\w:.-]*)((?:\s[^<>]*?)?)/>")
        return m and sub(m, "<" + m.group(1) + m.group(2) + "></" + m.group(1) + ">")
    if op == "empty-pair-to-self-closing":
        m = pick(r"<([A-Za-z][\w:.-]*)((?:\s[^<>]*?)?)></\1>")
        return m and sub(m, "<" + m.group(1) + m.group(2) + "/>")
    if op == "delete-text":
        m = pick(r"(?<=>)[^<>]+(?=<)")
        return m and sub(m, "")
    if op == "insert-unicode-text":
        return ins("é\U0001d11e  ")
    if op == "add-attr":
        m = pick(r"<[A-Za-z][\w:.-]*(?=[\s/>])")
        return m and text[:m.end()] + " data-x = 'y'" + text[m.end():]
    if op == "trailing-comment":
        return text.rstrip() + "\n<!-- end -->\n"
    if op == "trailing-whitespace":
        return text + "\n\n  "
    if op == "leading-whitespace-after-decl":
        return text[:root_at] + "\n\n" + text[root_at:] if root_at else None
    if op == "crlf-line-ends":
        return text.replace("\n", "\r\n") if "\n" in text else None
    if op == "tabs-for-spaces":
        return text.replace("  ", "\t") if "  " in text else None
    raise KeyError(op)


def xml_task(t):
    _x, part, idx, seed, n, _np = t
    import random
    rng = random.Random(f"c14/{seed}/xml/{part}/{idx}")
    c = cl()
    st = {"format": "xml", "values": 0, "roundtrips": 0, "cls": {}, "paths": {}, "consumers": {}, "rejected_ok": 0,
          "loose_outcomes": {}, "failures": [], "inconc": [], "digests": set(), "samples": [], "cbor_facts": {},
          "cli_pick": [], "xml": {"generator_not_wellformed": 0, "jaq_rejects_wellformed": 0, "mutants_not_wellformed": 0,
                                  "mutants_no_site": 0, "features": {}, "mutators": {}, "rejected_samples": []}}
    docs = []      # (bytes, origin, spec-or-None)
    if part == "gen":
        if idx == 0:
            docs += [(t.encode("utf-8"), "fixed", None) for t in XML_FIXED]
        for _ in range(n):
            d = gen_doc(rng)
            docs.append((render(d).encode("utf-8"), "generated", d))
    else:
        ex = sorted(os.path.join(build.REPO, "examples", f) for f in os.listdir(os.path.join(build.REPO, "examples"))
                    if f.endswith(".xhtml"))
        texts = [(os.path.basename(p), open(p, encoding="utf-8").read()) for p in ex]
        if idx == 0:
            for name, text in texts:
                docs.append((text.encode("utf-8"), "example:" + name, None))
        for i in range(n):
            name, text = texts[i % len(texts)] if rng.random() < 0.7 else texts[-1]
            op = MUTATORS[(i + idx) % len(MUTATORS)]
            m = mutate(text, op, rng)
            if not m:
                st["xml"]["mutants_no_site"] += 1
                continue
            if rng.random() < 0.3:
                op2 = rng.choice(MUTATORS)
                m2 = mutate(m, op2, rng)
                if m2:
                    m, op = m2, op + "+" + op2
            docs.append((m.encode("utf-8"), "mutation:%s:%s" % (name, op), None))
    try:
        good = []
        for doc, origin, spec in docs:
            try:
                canon0 = dom_canon(doc)
            except Malformed:
                st["xml"]["generator_not_wellformed" if origin in ("generated", "fixed") else "mutants_not_wellformed"] += 1
                continue
            good.append((doc, origin, spec, canon0))
            st["consumers"]["xml.dom.minidom(expat)"] = st["consumers"].get("xml.dom.minidom(expat)", 0) + 1
        B = 40
        for lo in range(0, len(good), B):
            chunk = good[lo:lo + B]
            outs = xml_filter(c, [g[0] for g in chunk])
            for (doc, origin, spec, canon0), out in zip(chunk, outs):
                st["values"] += 1
                st["cls"]["in"] = st["cls"].get("in", 0) + 1
                st["digests"].add(hashlib.md5(doc).digest()[:8])
                for f in xml_features(doc.decode("utf-8")):
                    st["xml"]["features"][f] = st["xml"]["features"].get(f, 0) + 1
                if origin.startswith("mutation"):
                    for op in origin.split(":", 2)[2].split("+"):
                        st["xml"]["mutators"][op] = st["xml"]["mutators"].get(op, 0) + 1
                for path, o in (("filter", out), ("default", xml_library(c, doc))):
                    st["roundtrips"] += 1
                    st["paths"][path] = st["paths"].get(path, 0) + 1
                    if o[0] == "rejected":
                        st["xml"]["jaq_rejects_wellformed"] += 1
                        if len(st["xml"]["rejected_samples"]) < 3:
                            st["xml"]["rejected_samples"].append({"doc": doc[:200].decode("utf-8", "replace"), "error": o[3]})
                    bad = xml_judge(doc, o, canon0)
                    if bad:
                        st["failures"].append({"format": "xml", "path": path, "code": bad[0], "detail": bad[1],
                                               "doc": doc.hex(), "origin": origin, "spec": spec, "cls": "in", "reason": ""})
                    elif o[0] == "ok":
                        st["consumers"]["xml.dom.minidom(expat)"] += 1
                if len(st["samples"]) < 2 and rng.random() < 0.05 and out[0] == "ok":
                    st["samples"].append({"format": "xml", "origin": origin, "document": doc[:300].decode("utf-8", "replace"),
                                          "fromxml": show(out[1], 300), "toxml": out[2][:300].decode("utf-8", "replace")})
    except WorkerDied as e:
        st["inconc"].append(classify_death(e))
    st["digests"] = list(st["digests"])
    return st


def xml_shrink_task(f):
    c = cl()
    path, code = f["path"], f["code"]
    doc = bytes.fromhex(f["doc"])

    def first_failing(docs):
        todo = []
        for i, b in enumerate(docs):
            try:
                todo.append((i, b, dom_canon(b)))
            except Malformed:
                pass
        if not todo:
            return None
        try:
            outs = xml_filter(c, [b for _i, b, _k in todo]) if path == "filter" else None
            for j, (i, b, canon0) in enumerate(todo):
                bad = xml_judge(b, outs[j] if outs else xml_library(c, b), canon0)
                if bad and bad[0] == code:
                    return i
        except WorkerDied:
            return None
        return None

    def fails(b):
        return first_failing([b]) is not None
    if not fails(doc):
        return ("xml:unstable:%s" % code, dict(f, spec=None, note="failure did not reproduce in isolation"), True)
    origin = f["origin"]
    if f.get("spec"):
        cur = f["spec"]
        steps = 0
        seen = set()
        while steps < 3000:
            cands = []
            dup = set()
            for cand in doc_reductions(cur):
                r = render(cand)
                if r not in seen and r not in dup:
                    dup.add(r)
                    cands.append((cand, r))
            hit = None
            for lo in range(0, len(cands), 16):
                chunk = cands[lo:lo + 16]
                steps += len(chunk)
                i = first_failing([r.encode("utf-8") for _c, r in chunk])
                seen.update(r for _c, r in (chunk if i is None else chunk[:i]))
                if i is not None:
                    hit = chunk[i][0]
                    break
            if hit is None:
                break
            cur = hit
        m = render(cur)
        key = "xml:roundtrip:doc:" + json.dumps(m)
        mdoc = m.encode("utf-8")
    elif origin == "fixed":
        key, mdoc = "xml:roundtrip:doc:" + json.dumps(doc.decode("utf-8")), doc
    elif origin.startswith("example:"):
        key, mdoc = "xml:roundtrip:" + origin, doc
    else:
        # a mutated example: which single operator is responsible?
        _m, name, ops = origin.split(":", 2)
        key, mdoc = "xml:roundtrip:mutation:" + ops, doc
        text = open(os.path.join(build.REPO, "examples", name), encoding="utf-8").read()
        import random
        if fails(text.encode("utf-8")):      # not the mutation: the example itself fails in this way
            key, mdoc, ops = "xml:roundtrip:example:" + name, text.encode("utf-8"), ""
        if "+" in ops:
            for op in ops.split("+"):
                for k in range(8):
                    m1 = mutate(text, op, random.Random(k))
                    if m1 and fails(m1.encode("utf-8")):
                        key, mdoc = "xml:roundtrip:mutation:" + op, m1.encode("utf-8")
                        break
                else:
                    continue
                break
    o = xml_run(c, mdoc, path)
    wit = {"format": "xml", "path": path, "failure": code, "document": mdoc[:2000].decode("utf-8", "replace"),
           "doc_hex": mdoc.hex() if len(mdoc) < 40000 else None, "fromxml": show(o[1], 600) if len(o) > 1 and o[1] is not None else None,
           "toxml": o[2][:600].decode("utf-8", "replace") if len(o) > 2 and o[2] is not None else None,
           "outcome": o[0], "detail": (o[3] if isinstance(o[3], str) else show(o[3], 600)) if len(o) > 3 else str(o[1]),
           "origin": origin, "first_seen_in": doc[:600].decode("utf-8", "replace")}
    return (key, wit, False)


# =========================================================================================
# the real CLI

def cli_env(home):
    return {"PATH": os.environ.get("PATH", "/usr/bin:/bin"), "HOME": home, "TZ": "UTC", "NO_COLOR": "1", "LOG": "off"}


def run_cli(jaq, args, home, data=None):
    p = subprocess.run([jaq] + args, input=data, stdout=subprocess.PIPE, stderr=subprocess.PIPE, env=cli_env(home),
                       cwd=home, timeout=120)
    return p.returncode, p.stdout, p.stderr


def read_xjon(c, b):
    r = c.request({"op": "fmt", "dir": "read", "format": "json", "bytes": b.hex()}, 120)
    if r.get("error") is not None or r.get("panic"):
        return None
    return [dec(x) for x in r["vals"]]


def strict_json(b):
    def bad(_x):
        raise ValueError
    try:
        t = b.decode("utf-8")
        if re.search(r"[.eE]", re.sub(r'"(\\.|[^"\\])*"', "", t)):
            return None      # decimal literals: spelling is jaq's business, not json's
        return from_py(json.loads(t, parse_constant=bad))
    except (ValueError, Malformed, RecursionError):
        return None


def cli_task(t):
    F, items, jaq = t
    c = cl()
    home = tempfile.mkdtemp(prefix="c14-cli-")
    st = {"format": F, "cli_values": 0, "cli_spawns": 0, "agree_library": 0, "agree_filter": 0,
          "disagree_filter_explained": 0, "reject_confirmed": 0, "json_reader": 0, "failures": [], "inconc": [], "sample": None}

    def fail(code, v_show, wit):
        st["failures"].append(("%s:cli:%s" % (F, code), dict(wit, format=F, value=v_show)))
    try:
        if F == "xml":
            for dochex, _cls, origin in items:
                doc = bytes.fromhex(dochex)
                st["cli_values"] += 1
                inp = os.path.join(home, "in.xml")
                open(inp, "wb").write(doc)
                rc, out, err = run_cli(jaq, ["--from", "xml", "--to", "xml", ".", inp], home)
                rc1, j1, _e = run_cli(jaq, ["--from", "xml", "-c", ".", inp], home)
                rc2, j2, _e = run_cli(jaq, ["--from", "xml", "-c", "."], home, out)
                st["cli_spawns"] += 3
                lib = xml_library(c, doc)
                flt = xml_filter(c, [doc])[0]
                if lib[0] == "ok":
                    if rc != 0 or out != lib[2]:
                        fail("write-differs-from-library", doc[:200].decode("utf-8", "replace"),
                             {"cli_rc": rc, "cli_out": out[:300].decode("utf-8", "replace"),
                              "library": lib[2][:300].decode("utf-8", "replace"), "stderr": err[-300:].decode("utf-8", "replace")})
                        continue
                    a, b = read_xjon(c, j1), read_xjon(c, j2)
                    if rc1 != 0 or rc2 != 0 or a is None or b is None or not same(a, lib[1]) or not same(b, lib[3]):
                        fail("read-differs-from-library", doc[:200].decode("utf-8", "replace"),
                             {"cli_from": j1[:300].decode("utf-8", "replace"), "library": show(lib[1], 300)})
                        continue
                    st["agree_library"] += 1
                    if flt[0] == "ok" and same(flt[1], a) and same(flt[3], b):
                        st["agree_filter"] += 1
                    elif flt[0] == "ok":
                        fail("filter-differs-from-cli", doc[:200].decode("utf-8", "replace"),
                             {"filter": show(flt[3], 300), "cli": show(b, 300)})
                    if st["sample"] is None:
                        st["sample"] = {"format": "xml", "cmd": "jaq --from xml --to xml . in.xml",
                                        "in": doc[:200].decode("utf-8", "replace"), "out": out[:200].decode("utf-8", "replace")}
                else:
                    # the library path fails: the CLI must fail in the same phase
                    ok = (rc != 0) if lib[0] in ("rejected", "toxml-error") else (rc == 0 and rc2 != 0)
                    if ok:
                        st["agree_library"] += 1
                    else:
                        fail("outcome-differs-from-library", doc[:200].decode("utf-8", "replace"),
                             {"library": lib[0], "cli_rc": rc, "cli_reread_rc": rc2})
            return st
        vals = [dec(w) for w, _c, _r in items]
        r = c.eval("$V[] | tojson", [{"input": None}], vars=[("V", enc(vals))], take=len(vals) + 1, timeout=120)
        texts = [dec(o[0]).b for o in r["results"][0]["outs"]]
        flt = via_filter(c, F, vals)
        for (w, cls, reason), v, text, fo in zip(items, vals, texts, flt):
            st["cli_values"] += 1
            inp = os.path.join(home, "in.json")
            open(inp, "wb").write(text + b"\n")
            for mode in MODES[F][:2] if F == "yaml" else MODES[F][:1]:
                args = ["--to", F] + (mode[0].split() if mode[0] != "default" else [])
                rc, out, err = run_cli(jaq, args + [".", inp], home)
                st["cli_spawns"] += 1
                lib = via_fmt(c, F, v, mode)
                vs = show(v, 200)
                if lib[0] == "werr":
                    if rc == 0:
                        fail("write-error-missing", vs, {"library_error": lib[2], "cli_out": out[:200].hex()})
                    else:
                        st["agree_library"] += 1
                        if cls == "reject":
                            st["reject_confirmed"] += 1
                    continue
                if lib[0] == "panic":
                    continue
                if rc != 0 or out != lib[1]:
                    fail("write-differs-from-library", vs, {"cli_rc": rc, "cli_out": out[:300].hex(), "library": lib[1][:300].hex(),
                                                             "stderr": err[-300:].decode("utf-8", "replace")})
                    continue
                rc2, out2, err2 = run_cli(jaq, ["--from", F, "-c", "."], home, out)
                st["cli_spawns"] += 1
                if lib[0] == "rerr":
                    if rc2 == 0:
                        fail("read-error-missing", vs, {"library_error": lib[2], "cli_out": out2[:200].decode("utf-8", "replace")})
                    else:
                        st["agree_library"] += 1
                    continue
                back = read_xjon(c, out2)
                if rc2 != 0 or back is None or len(back) != len(lib[2]) or not all(same(x, y) and same_order(x, y)
                                                                                  for x, y in zip(back, lib[2])):
                    fail("read-differs-from-library", vs, {"cli_rc": rc2, "cli": out2[:300].decode("utf-8", "replace"),
                                                            "library": show(lib[2], 300), "stderr": err2[-300:].decode("utf-8", "replace")})
                    continue
                st["agree_library"] += 1
                # filters vs command line, on the values
                if fo[0] == "ok" and len(fo[2]) == len(back) and all(same(x, y) for x, y in zip(fo[2], back)):
                    st["agree_filter"] += 1
                elif cls == "in":
                    jf = judge(F, v, cls, reason, fo)
                    jc = judge(F, v, cls, reason, ("ok", out, back))
                    if jf or jc:
                        st["disagree_filter_explained"] += 1     # one side is a round-trip failure reported elsewhere
                    else:
                        fail("filter-differs-from-cli", vs, {"filter": show(fo[2], 300) if fo[0] == "ok" else fo[0],
                                                              "cli": show(back, 300)})
                # python's json as a further reader of the CLI's output
                if cls == "in" and len(back) == 1:
                    pj = strict_json(out2)
                    if pj is not None:
                        st["json_reader"] += 1
                        if not same(pj, back[0]):
                            fail("json-reader-differs", vs, {"cli": out2[:300].decode("utf-8", "replace"), "json": show(pj, 300)})
                if st["sample"] is None and cls == "in":
                    st["sample"] = {"format": F, "cmd": "jaq %s . in.json | jaq --from %s -c ." % (" ".join(args), F),
                                    "in": text[:160].decode("utf-8", "replace"),
                                    "written": out[:160].decode("utf-8", "replace") if F != "cbor" else out[:80].hex(),
                                    "out": out2[:160].decode("utf-8", "replace")}
    except WorkerDied as e:
        st["inconc"].append(classify_death(e))
    except subprocess.TimeoutExpired:
        st["inconc"].append("cli-timeout")
    finally:
        shutil.rmtree(home, ignore_errors=True)
    return st


OPTION_PROBES = [("--tab", ["--tab"]), ("--indent 0", ["--indent", "0"]), ("--indent 1", ["--indent", "1"]),
                 ("--indent 3", ["--indent", "3"]), ("--indent 7", ["--indent", "7"])]
OPTION_VALUE = b'[1,{"a":[2,{"b":"x y"}],"c":{"d":[]}},[[3],"+1 "]]\n'


def option_probes(jaq, c):
    """`--to yaml` under the other indentation options of the CLI: what is written must be read
    back as the same value"""
    home = tempfile.mkdtemp(prefix="c14-opt-")
    out = []
    try:
        v = read_xjon(c, OPTION_VALUE)
        for name, args in OPTION_PROBES:
            rc, w, err = run_cli(jaq, ["--to", "yaml"] + args + ["."], home, OPTION_VALUE)
            rc2, back, err2 = run_cli(jaq, ["--from", "yaml", "-c", "."], home, w)
            got = read_xjon(c, back) if rc2 == 0 else None
            # the string "+1 " is quoted or not depending on a separate defect; compare up to it
            ok = rc == 0 and rc2 == 0 and got is not None and len(got) == 1 and \
                same(got[0][:2], v[0][:2]) and same(got[0][2][0], v[0][2][0])
            out.append((name, ok, {"cmd": "jaq --to yaml %s ." % " ".join(args), "input": OPTION_VALUE.decode(),
                                   "written": w.decode("utf-8", "replace"), "reader_rc": rc2,
                                   "reader_stderr": err2[-300:].decode("utf-8", "replace"),
                                   "read_back": back.decode("utf-8", "replace")}))
    finally:
        shutil.rmtree(home, ignore_errors=True)
    return out


# =========================================================================================
# main

def dispatch(t):
    kind = t[0]
    if kind == "xml":
        return xml_task(t)
    if kind == "shrink":
        return xml_shrink_task(t[1]) if t[1]["format"] == "xml" else shrink_task(t[1])
    if kind == "cli":
        return cli_task(t[1:])
    return value_task(t)


def group_failures(fails, rng):
    """representatives to minimise. Pool values: one per (format, failure class, set of atoms) -
    the smallest, library path first. Random trees: the same, but per failure class at most the
    150 smallest and 150 seeded-random groups. Generated XML documents: per failure class the 8
    smallest and 8 seeded-random ones. The rest fails in an already minimised class: counted."""
    groups = {}
    xml_classes = {}
    for f in fails:
        if f["format"] == "xml":
            size = (len(f["doc"]), 1 if f["path"] == "filter" else 0)
            if f["origin"] == "generated":
                cur = xml_classes.setdefault(f["code"], {}).get(f["doc"])
                if cur is None or size < cur[0]:
                    xml_classes[f["code"]][f["doc"]] = (size, f)
                continue
            k = ("xml", f["code"], f["origin"] + (f["doc"] if f["origin"] == "fixed" else ""))
        else:
            v = dec(f["value"])
            leaves = sorted({repr(freeze(x)) for x in walk(v) if not isinstance(x, (list, Obj)) and x != 0 and x != S("k") and x != S("a")})
            k = (f["format"], f["code"], f["reason"], tuple(leaves))
            size = tuple(f["size"]) + (1 if f["path"] == "filter" else 0,)
        if k not in groups or size < groups[k][0]:
            groups[k] = (size, f)
    reps = []
    skipped = 0
    rand_classes = {}
    for k, (size, f) in groups.items():
        if f.get("part") == "rand":
            rand_classes.setdefault((f["format"], f["code"]), []).append((size, json.dumps(f["value"]), f))
        else:
            reps.append(f)
    for k in sorted(rand_classes):
        items = sorted(rand_classes[k], key=lambda t: t[:2])
        rest = items[150:]
        rng.shuffle(rest)
        reps += [f for _s, _j, f in items[:150] + rest[:150]]
        skipped += max(0, len(rest) - 150)
    for code, docs in sorted(xml_classes.items()):
        items = sorted(docs.values(), key=lambda sf: (sf[0], sf[1]["doc"]))
        rest = items[8:]
        rng.shuffle(rest)
        reps += [f for _s, f in items[:8] + rest[:8]]
        skipped += max(0, len(rest) - 8)
    return reps, skipped


def replay(run):
    w = json.load(open(run.replay))
    key, wit = w["key"], w["witness"]
    global JAQMON
    jaq = build.cli()
    JAQMON = build.jaqmon("verif")
    c = cl()
    n = 0
    if key.startswith("yaml:option:"):
        for name, ok, pw in option_probes(jaq, c):
            n += 1
            if not ok and "yaml:option:" + name == key:
                run.violation(key, pw)
    elif wit.get("format") == "xml" and wit.get("doc_hex"):
        doc = bytes.fromhex(wit["doc_hex"])
        canon0 = dom_canon(doc)
        for path in ("filter", "default"):
            n += 1
            bad = xml_judge(doc, xml_run(c, doc, path), canon0)
            if bad:
                run.violation(key, dict(wit, failure=bad[0], detail=bad[1], path=path))
    elif "minimal_value_wire" in wit:
        F = wit["format"]
        v = dec(wit["minimal_value_wire"])
        cls, reason = classify(F, v)
        for path in ["filter"] + [m[0] for m in MODES[F]]:
            n += 1
            o = run_one(c, F, v, path)
            bad, _consumer = verdict(F, v, cls, reason, path, o)
            if bad:
                run.violation(key, dict(wit, failure=bad[0], detail=bad[1], path=path))
    else:
        print("replay: this witness kind (CLI comparison) is re-checked by a full run only")
    run.finish({"evaluations": n, "distinct_nontrivial": n, "rule": "replay of one stored witness", "samples": [wit]})


def main():
    run = Run("C14")
    if run.replay:
        return replay(run)
    global JAQMON
    jaq = build.cli()
    JAQMON = build.jaqmon("verif")
    quick = run.tier == "quick"
    tasks = []
    nparts = {"yaml": 32, "cbor": 4, "toml": 4, "csv": 4, "tsv": 4}
    nrand = {"yaml": run.size(8000, 300000), "cbor": run.size(8000, 300000), "toml": run.size(6000, 200000),
             "csv": run.size(5000, 150000), "tsv": run.size(5000, 150000)}
    for F in VALUE_FORMATS:
        for i in range(nparts[F]):
            tasks.append((F, "pool", i, run.seed, 0, nparts[F]))
        chunk = 1000 if quick else 5000
        for i in range((nrand[F] + chunk - 1) // chunk):
            tasks.append((F, "rand", i, run.seed, chunk, 0))
    nxml = run.size(2000, 40000)
    for i in range((nxml + 249) // 250):
        tasks.append(("xml", "gen", i, run.seed, 250, 0))
    nmut = run.size(300, 3000)
    for i in range((nmut + 59) // 60):
        tasks.append(("xml", "mut", i, run.seed, 60, 0))
    # ---- the real CLI on a seeded sample (same pools and generators), in the same parallel pass
    rng = run.rng("cli")
    ncli = {"yaml": run.size(80, 800), "cbor": run.size(50, 500), "toml": run.size(50, 500), "csv": run.size(50, 500),
            "tsv": run.size(50, 500), "xml": run.size(40, 300)}
    for F in VALUE_FORMATS:
        pv = [v for v, _t, _g in pool_values(F, rng)]
        rej = [v for v in pv if classify(F, v)[0] == "reject"]
        rng.shuffle(rej)
        pick = rej[:max(6, ncli[F] // 10)] + rng.sample(pv, min(len(pv), ncli[F] * 2 // 3)) + \
            [v for v, _t in rand_values(F, rng, ncli[F] // 3)]
        items = [(enc(v),) + classify(F, v) for v in pick]
        for lo in range(0, len(items), 10):
            tasks.append(("cli", F, items[lo:lo + 10], jaq))
    xdocs = [render(gen_doc(rng)).encode("utf-8") for _ in range(ncli["xml"])]
    for lo in range(0, len(xdocs), 10):
        tasks.append(("cli", "xml", [(d.hex(), "in", "generated") for d in xdocs[lo:lo + 10]], jaq))
    # big pool parts first
    tasks.sort(key=lambda t: 0 if t[1] == "pool" and t[0] == "yaml" else 1)
    # spread the process-spawning CLI tasks between the computing ones
    ctasks = [t for t in tasks if t[0] == "cli"]
    others = [t for t in tasks if t[0] != "cli"]
    step = max(1, len(others) // max(1, len(ctasks)))
    tasks = []
    for i, t in enumerate(others):
        tasks.append(t)
        if i % step == step - 1 and ctasks:
            tasks.append(ctasks.pop())
    tasks += ctasks

    import time
    phases = {}
    t_phase = time.time()
    per = {}
    fails = []
    dropped = 0
    distinct = Distinct()
    samples = Samples(10, run.rng("samples"))
    xml_obs = {}
    cli = {}
    cbor_facts = {}
    for st in par.pmap(dispatch, tasks, run.jobs):
        F = st["format"]
        if "cli_values" in st:
            d = cli.setdefault(F, {"values": 0, "process_spawns": 0, "agree_with_library_path": 0,
                                   "agree_with_filters": 0, "differ_from_filters_because_of_reported_failure": 0,
                                   "outside_domain_rejected": 0, "json_reader_checked": 0})
            d["values"] += st["cli_values"]
            d["process_spawns"] += st["cli_spawns"]
            d["agree_with_library_path"] += st["agree_library"]
            d["agree_with_filters"] += st["agree_filter"]
            d["differ_from_filters_because_of_reported_failure"] += st["disagree_filter_explained"]
            d["outside_domain_rejected"] += st["reject_confirmed"]
            d["json_reader_checked"] += st["json_reader"]
            for key, wit in st["failures"]:
                run.violation(key + ":" + hashlib.md5(wit["value"].encode()).hexdigest()[:8], wit)
            for cls in st["inconc"]:
                run.inconc(cls)
            if st["sample"]:
                samples.add(st["sample"])
            continue
        p = per.setdefault(F, {"values": 0, "roundtrips": 0, "domain_classes": {}, "paths": {}, "independent_readers": {},
                               "outside_domain_rejected": 0, "documented_exceptions_observed": {}})
        p["values"] += st["values"]
        p["roundtrips"] += st["roundtrips"]
        p["outside_domain_rejected"] += st["rejected_ok"]
        for src, dst in ((st["cls"], p["domain_classes"]), (st["paths"], p["paths"]), (st["consumers"], p["independent_readers"]),
                         (st["loose_outcomes"], p["documented_exceptions_observed"])):
            for k, n in src.items():
                dst[k] = dst.get(k, 0) + n
        if "xml" in st:
            for k, x in st["xml"].items():
                if isinstance(x, int):
                    xml_obs[k] = xml_obs.get(k, 0) + x
                elif isinstance(x, dict):
                    d = xml_obs.setdefault(k, {})
                    for kk, n in x.items():
                        d[kk] = d.get(kk, 0) + n
                else:
                    xml_obs.setdefault(k, [])
                    xml_obs[k] = (xml_obs[k] + x)[:3]
        fails += st["failures"]
        for k, n in st.get("cbor_facts", {}).items():
            cbor_facts[k] = cbor_facts.get(k, 0) + n
        dropped += st.get("failures_dropped", 0)
        for cls in st["inconc"]:
            run.inconc(cls)
        distinct.update(st["digests"])
        for s in st["samples"]:
            samples.add(s)

    phases["round_trips_and_cli"] = round(time.time() - t_phase, 1)
    t_phase = time.time()
    # ---- minimise failures, report under canonical keys
    reps, not_minimised = group_failures(fails, run.rng("groups"))
    shrunk = 0
    for key, wit, unstable in par.pmap(dispatch, [("shrink", f) for f in reps], run.jobs):
        shrunk += 1
        if unstable:
            run.inconc("unstable-failure")
            run.notes.append({"unstable": key, "witness": str(wit)[:400]})
        else:
            run.violation(key, wit)

    phases["minimise"] = round(time.time() - t_phase, 1)
    t_phase = time.time()
    opt = []
    for name, ok, wit in option_probes(jaq, cl()):
        opt.append({"option": name, "reads_back": ok})
        if not ok:
            run.violation("yaml:option:" + name, wit)

    phases["option_probes"] = round(time.time() - t_phase, 1)
    evaluations = sum(p["roundtrips"] for p in per.values()) + sum(d["values"] for d in cli.values())
    consumers = {"filters(toF|fromF)": sum(p["paths"].get("filter", 0) for p in per.values()),
                 "library(write::write/read::parse)": sum(n for p in per.values() for k, n in p["paths"].items() if k != "filter"),
                 "cli(--to/--from)": sum(d["values"] for d in cli.values()),
                 "json(python)": sum(d["json_reader_checked"] for d in cli.values())}
    for p in per.values():
        for k, n in p["independent_readers"].items():
            consumers[k] = consumers.get(k, 0) + n
    broken = None
    need = ["filters(toF|fromF)", "library(write::write/read::parse)", "cli(--to/--from)", "tomllib", "csv",
            "rfc8949-decoder", "xml.dom.minidom(expat)", "json(python)"]
    missing = [k for k in need if not consumers.get(k)] + [F for F in VALUE_FORMATS + ["xml"] if not per.get(F, {}).get("values")]
    if missing and not run.inconclusive:
        broken = "consumers / formats never exercised: %s" % missing
    run.finish({
        "evaluations": evaluations,
        "distinct_nontrivial": len(distinct),
        "rule": "per format: every atom of the format's pool of reserved words / indicators / number-like spellings (with "
                "blank, sign, separator affixes) as root, element, key and member value, boundary numbers, byte strings, "
                "non-string keys, shapes just outside the domain, plus seeded random trees over the same atoms; XML: generated "
                "documents and single-operator mutations of examples/*.xhtml that expat accepts. evaluations = round trips "
                "executed (value x path) + values sent through the CLI. distinct = distinct (format, value) resp. documents by "
                "structural hash; non-trivial = the value contains a non-empty string, byte string, non-integer or big number "
                "or non-string key (something the format has to spell unambiguously); every XML document counts",
        "samples": samples.items,
        "per_format": per,
        "xml_observations": xml_obs,
        "cbor_items_met_by_the_rfc8949_decoder": cbor_facts,
        "cli": cli,
        "yaml_indentation_options": opt,
        "consumers_exercised": consumers,
        "phase_wall_s": phases,
        "failures_seen_before_grouping": len(fails),
        "failure_groups_minimised": shrunk,
        "failing_cases_not_minimised_because_their_failure_class_already_was": not_minimised + dropped,
        "yaml_independent_reader": "none available in this sandbox (no PyYAML/ruamel): well-formedness of jaq's YAML is judged "
                                   "only by jaq's own reader",
    }, assumptions=[
        "vlib.values.eq is a faithful reading of the manual's equality; 'equals the original' additionally demands the same "
        "string kind (text/bytes), NaN for NaN and, for YAML and CBOR, the same key order",
        "domains are read off docs/formats.dj and the property: TSV strings that look number-like under a liberal pattern, CSV "
        "[] / [null], invalid UTF-8 in text (YAML: read error, CBOR/TOML: U+FFFD) and TOML integers beyond 64 bits are observed, not judged",
        "expat (xml.dom.minidom) decides which generated / mutated documents are well-formed; tomllib implements TOML 1.0",
        "typed injection through jaqmon's codec builds the intended representation",
    ], broken=broken)


if __name__ == "__main__":
    main()
