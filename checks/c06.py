"""C06 - filters and data cannot make jaq touch files, network or other processes.

Monitor: a system-call trace policy automaton. Every native filter and prelude definition of the
current tree is executed with path-like / URL-like / command-like values as input and as each
argument, every decoder is fed adversarial and mutated documents, the manual's examples and a set
of ordinary programs are run - (a) inside `jaqmon phase` (marker syscalls cut the strace log into
per-(program, input) execution phases; thousands of phases per traced process) and (b) through the
real `jaq` binary (whole-run policy: the only files opened are the runtime's own, learned from
control runs of `.`, and the files named on the command line / by import directives, all of them
before the first input is read). During a phase: no open for writing/creating, no read-only open
outside the allow-list (time-zone database only for programs containing a local-time / zone-name
filter), no rename/link/unlink/mkdir/chmod/..., no socket call, no process creation, no write to
a descriptor other than stdout/stderr. Canary files (content, mtime, inode, atime) and directory
listings are a second, independent observation. `repl` and `--in-place` are the documented
exceptions: `repl` is excluded by name and used as a positive control of the monitor, `-i` is
checked to touch only a `jaq*` temp file and the input file, in the input file's directory."""
import json
import os
import re
import shutil
import sys

sys.path.insert(0, os.path.dirname(os.path.dirname(os.path.abspath(__file__))))
from vlib import build, par
from vlib import c06_run as R
from vlib import c06_trace as T
from vlib import c06_work as W
from vlib.codec import S, enc
from vlib.run import Distinct, Run, Samples

SELFTEST = r'''
import os, socket, sys
d = sys.argv[1]
def m(s):
    try: os.stat(s)
    except OSError: pass
m("/VERIF/EXEC-PHASE/0"); m("/VERIF/CASE/0/0")
open(d + "/selftest-r", "rb").read()
f = open(d + "/selftest-w", "w"); f.write("x"); f.close()
os.rename(d + "/selftest-w", d + "/selftest-w2"); os.unlink(d + "/selftest-w2")
s = socket.socket(); s.settimeout(0.2)
try: s.connect(("127.0.0.1", 9))
except OSError: pass
s.close()
pid = os.fork()
if pid == 0:
    os.execv("/bin/true", ["true"])
os.waitpid(pid, 0)
m("/VERIF/EXEC-DONE/0"); m("/VERIF/ALL-DONE")
'''
SELFTEST_CLASSES = {"open-read", "open-write", "fs-mutation", "network", "process", "write-fd"}


def selftest(scr, cfg):
    """the recorder + parser + policy must flag every class on a process that misbehaves on purpose"""
    logs = os.path.join(scr, "logs")
    R.w(logs + "/selftest-r", "x")
    log = logs + "/selftest.log"
    rc, _so, se, _w = R.run_traced(cfg, [sys.executable, "-c", SELFTEST, logs], R.base_env(scr), logs, log, timeout=60)
    a = R.analyse_phase_log(log, {0: {"prog": "."}}, set(), "UTC", logs)
    got = {f["cls"] for f in a["findings"]}
    missing = SELFTEST_CLASSES - got
    ok = not missing and a["all_done"] and (0, 0) in a["observed"]
    return ok, {"classes_flagged": sorted(got), "missing": sorted(missing), "markers": a["markers"], "rc": rc,
                "stderr": se[-200:] if not ok else ""}


def cli_only_names(jaqmon_names):
    """natives / definitions that only the `jaq` binary adds (read from the current tree's jaq/src)"""
    found = {}
    d = os.path.join(build.REPO, "jaq", "src")
    for fn in ("funs.rs", "filter.rs", "main.rs"):
        try:
            text = open(os.path.join(d, fn), encoding="utf-8").read()
        except OSError:
            continue
        for m in re.finditer(r'\(\s*"([A-Za-z_@][A-Za-z0-9_]*)"\s*,\s*v\(\s*(\d+)\s*\)', text):
            found[m.group(1)] = int(m.group(2))
        for m in re.finditer(r'name:\s*"([A-Za-z_@][A-Za-z0-9_]*)"', text):
            found.setdefault(m.group(1), 0)
    return {n: a for n, a in found.items() if n not in jaqmon_names}


def hexs(s):
    return (s if isinstance(s, bytes) else s.encode("utf-8", "surrogatepass")).hex()


def build_cli_cases(scr, callables, cli_only, seed, thorough):
    fix = os.path.join(scr, "fix")
    strs = [(c, s) for c, s in W.danger_strings(scr)]
    argv_strs = [(c, s) for c, s in strs if "\u0000" not in s and not s.startswith("-")]
    cases = []

    def add(name, site, argclass, argv, **kw):
        prog_text = kw.pop("prog_text", " ".join(argv))
        c = {"name": name, "site": site, "argclass": argclass, "argv": argv,
             "zone_ok": bool(T.ZONE_FILTERS.search(prog_text))}
        c.update(kw)
        cases.append(c)

    # files named on the command line and by import directives
    named = [fix + "/raw.txt", fix + "/slurp.json", fix + "/prog.jq", fix + "/lib/m.jq", fix + "/lib/dat.json",
             fix + "/lib/inc.jq"]
    add("named-files", "cli:named-files", "L+rawfile+slurpfile+f+imports+2 inputs",
        ["-L", fix + "/lib", "--rawfile", "r", fix + "/raw.txt", "--slurpfile", "s", fix + "/slurp.json", "-f",
         fix + "/prog.jq", fix + "/in1.json", fix + "/in2.json"], named=named, inputs=[fix + "/in1.json", fix + "/in2.json"],
        prog_text=open(fix + "/prog.jq").read())
    add("named-files-stdin", "cli:named-files", "same, input on stdin",
        ["-L", fix + "/lib", "--rawfile", "r", fix + "/raw.txt", "--slurpfile", "s", fix + "/slurp.json", "-f", fix + "/prog.jq"],
        named=named, stdin_hex=hexs('"/etc/passwd" {"p": "| sh"}'), prog_text=open(fix + "/prog.jq").read())
    add("named-files-meta-search", "cli:named-files", "search paths from import metadata",
        ["-f", fix + "/prog_meta.jq", fix + "/in1.json"], named=[fix + "/prog_meta.jq", fix + "/lib/m.jq", fix + "/lib/dat.json"],
        inputs=[fix + "/in1.json"], prog_text=open(fix + "/prog_meta.jq").read())
    add("arg-vars", "cli:vars", "--arg/--argjson/--args/$ENV/input_filename",
        ["-c", "--arg", "p", "/etc/passwd", "--argjson", "j", json.dumps({"path": scr + "/canary/secret.txt"}),
         "[$p, $j, $ARGS, $ENV.HOME, env.PATH, input_filename] | tojson", fix + "/in1.json"],
        inputs=[fix + "/in1.json"])
    add("args-positional", "cli:vars", "--args positional path-like values",
        ["-n", "-c", "$ARGS.positional | map(ltrimstr(\"/\"), @sh, test(\"etc\"))", "--args"] + [s for _c, s in argv_strs])
    # every native / definition of the tree through the real binary
    all_callables = list(callables) + [(n, a, "%s/%d" % (n, a)) for n, a in sorted(cli_only.items()) if n not in W.EXCLUDED]
    per = 4 if thorough else 1
    for name, n, label in all_callables:
        picks = W._pick(strs, per, seed, "cli", label)
        for j, (c, s) in enumerate(picks):
            call_dot = W.call(name, ["."] * n)
            call_var = W.call(name, ["$v"] * n)
            prog = "try [limit(4; %s)] catch \"E\", try [limit(4; %s)] catch \"E\"" % (call_dot, call_var if n else call_dot)
            v = s if "\u0000" not in s else "/etc/passwd"
            if j % 2 == 0:
                add("native-%s-%d" % (label, j), "cli-native:" + label, c + "|stdin+--arg",
                    ["-c", "--arg", "v", v, prog], stdin_hex=hexs(json.dumps(s) + " " + json.dumps([s])), log_off=(j % 4 == 0))
            else:
                add("native-%s-%d" % (label, j), "cli-native:" + label, c + "|file+--arg",
                    ["-c", "--arg", "v", v, prog, fix + "/in1.json", fix + "/in2.json"],
                    inputs=[fix + "/in1.json", fix + "/in2.json"], log_off=False)
    # adversarial documents through the CLI readers (file: parse path, stdin: read path)
    for fmt, (_d, _e, ext, fn, _b) in W.FORMATS.items():
        for kind, d in fn(scr):
            b = W.doc_bytes(d)
            path = os.path.join(fix, "docs", "%s-%s.%s" % (fmt, kind, ext))
            R.w(path, b)
            add("doc-file-%s-%s" % (fmt, kind), "cli-doc:%s/%s" % (fmt, kind), "file by extension",
                ["-c", "[.. | strings] | length, (.. | strings | ltrimstr(\"file://\") | @sh)", path], inputs=[path])
            add("doc-stdin-%s-%s" % (fmt, kind), "cli-doc:%s/%s" % (fmt, kind), "--from on stdin",
                ["--from", fmt, "--to", "yaml" if fmt != "yaml" else "json", "."], stdin_hex=b.hex())
            if thorough:
                add("doc-slurp-%s-%s" % (fmt, kind), "cli-doc:%s/%s" % (fmt, kind), "--from --slurp file, --to same",
                    ["--from", fmt, "--to", fmt, "-s", ".", path], inputs=[path])
    # large documents on stdin (a reader that spills big inputs to a temporary file would show here)
    big = {"yaml": "\n".join("- %d" % i for i in range(30000)) + "\n",
           "xml": "<r>" + "".join("<e n='%d'>t</e>" % i for i in range(8000)) + "</r>",
           "toml": "a = [" + ", ".join(str(i) for i in range(30000)) + "]\n",
           "json": "[" + ",".join(str(i) for i in range(40000)) + "]",
           "csv": "".join("%d,x,y\n" % i for i in range(12000))}
    for fmt, text in big.items():
        add("doc-stdin-big-%s" % fmt, "cli-doc:%s/big-stdin" % fmt, "--from on stdin, > 64 KiB",
            ["--from", fmt, "-c", "[..] | length"], stdin_hex=hexs(text))
    # local time: the zone database may be read by the local-time filters - and only by them
    tzc = "%s/tz/Custom" % scr
    for tzname, tz in (("UTC", "UTC"), ("Europe/Berlin", "Europe/Berlin"), ("unset", None), ("file", ":" + tzc)):
        add("tz-local-%s" % tzname, "cli-time:localtime@TZ=%s" % tzname, "local-time filters",
            ["-n", "-c", "now | localtime | mktime, (0 | strflocaltime(\"%Z %Q\")), (\"2020-01-01 Europe/Rome\" | strptime(\"%Y-%m-%d %Q\"))"], tz=tz)
        add("tz-none-%s" % tzname, "cli-time:no-zone-filter@TZ=%s" % tzname, "no local-time filter: zone files must not be read",
            ["-n", "-c", "now | gmtime | mktime | todate, (0 | strftime(\"%Z %Q\")), (\"/etc/passwd\" | ltrimstr(\"/\"))"], tz=tz)
    # --in-place: temp file + rename + chmod in the input file's directory, nothing else
    ia, ib = scr + "/inplace/a/f.json", scr + "/inplace/b/g.json"
    add("inplace-one", "cli:in-place", "one file", ["-i", ".a = \"/etc/passwd\"", ia], inputs=[ia], inplace=True)
    add("inplace-two-dirs", "cli:in-place", "two files in two directories",
        ["-i", "-c", ".p |= ltrimstr(\"/\") | .c = \"%s/canary/secret.txt\"" % scr, ia, ib], inputs=[ia, ib], inplace=True)
    add("no-inplace", "cli:in-place", "same program without -i", [".a = \"/etc/passwd\"", ia], inputs=[ia])
    # --in-place runs that end early: only the temp file next to the input may have been touched, and it must be gone
    fl = scr + "/inplace/fail/"
    add("inplace-error", "cli:in-place-fails", "filter error after two outputs",
        ["-i", ".[] | if . == 3 then error(\"boom\") else . end", fl + "err.json"], inputs=[fl + "err.json"], inplace=True)
    add("inplace-halt", "cli:in-place-fails", "halt after one output", ["-i", ".[0], halt(7)", fl + "halt.json"], inputs=[fl + "halt.json"], inplace=True)
    add("inplace-parse", "cli:in-place-fails", "malformed third value", ["-i", ".", fl + "parse.json"], inputs=[fl + "parse.json"], inplace=True)
    add("inplace-error-then-later", "cli:in-place-fails", "first file fails, later file untouched",
        ["-i", ".[] | if . == 4 then error(\"x\") else . end", fl + "later.json", fl + "empty-out.json"],
        inputs=[fl + "later.json", fl + "empty-out.json"], inplace=True)
    return cases


def control_cli_cases(scr):
    fix = os.path.join(scr, "fix")
    mk = lambda name, argv, **kw: dict({"name": name, "site": "cli:control", "argclass": name, "argv": argv, "zone_ok": False}, **kw)
    return [mk("control-file", [".", fix + "/in1.json"], inputs=[fix + "/in1.json"]),
            mk("control-stdin", ["."], stdin_hex=hexs('{"a": 1}')),
            mk("control-null", ["-n", "."]),
            mk("control-alloc", ["-n", "[range(300000)] | length, (\"a\" * 3000000 | length)"]),
            mk("control-log", ["-n", "1 | debug | stderr"], log_off=False)]


def work(task):
    if task["kind"] == "phase":
        return ("phase", R.run_phase_shard(task))
    return ("cli", R.run_cli_case(task))


def shard(reqs, n):
    out = [[] for _ in range(n)]
    for i, r in enumerate(reqs):
        out[i % n].append(r)
    return [s for s in out if s]


def report_findings(run, mode, fs, extra):
    for f in fs:
        key = "%s:%s" % (f["cls"], f.get("site", extra.get("site")))
        wit = dict(extra)
        wit.update({"mode": mode, "class": f["cls"], "event": f["raw"], "detail": f["detail"]})
        for k in ("prog", "case", "tz", "argclass", "inputs", "site"):
            if k in f:
                wit[k] = f[k]
        run.violation(key, wit)


def confirm_phase_finding(f, scr, cfg, jaqmon):
    """re-execute one request alone in a fresh traced process"""
    task = {"kind": "phase", "tag": "confirm", "reqs": [{"prog": f["prog"], "cases": [f["case"]], "meta": [(f["site"], f["argclass"])]}],
            "tz": f["tz"], "scr": scr, "jaqmon": jaqmon, "cfg": cfg, "timeout": 60, "inputs": f.get("inputs") or []}
    r = R.run_phase_shard(task)
    return [g for g in r["findings"] if g["cls"] == f["cls"]], r


def substitute_scratch(obj, old, new):
    text = json.dumps(obj)
    text = text.replace(old.encode().hex(), new.encode().hex()).replace(json.dumps(old)[1:-1], json.dumps(new)[1:-1])
    return json.loads(text)


def replay(run, cfg, jaqmon, jaq):
    rp = json.load(open(run.replay))
    wit = rp["witness"]
    scr = R.make_scratch()
    try:
        old = wit.get("scratch")
        if old:
            wit = substitute_scratch(wit, old, scr)
        R.make_fixtures(scr)
        n = 0
        if wit.get("mode") == "phase" and wit.get("case") is not None:
            f = {"prog": wit["prog"], "case": wit["case"], "tz": wit.get("tz", "UTC"), "site": wit.get("site", "?"),
                 "argclass": wit.get("argclass", "?"), "cls": wit["class"], "inputs": wit.get("inputs")}
            again, r = confirm_phase_finding(f, scr, cfg, jaqmon)
            n = r["observed"][1]
            print("replay: program %r, %d phase(s) observed, %d event(s) of class %s" % (wit["prog"], n, len(again), wit["class"]))
            for g in again:
                print("  " + g["raw"][:300])
            report_findings(run, "phase", again, {"scratch": scr})
        elif wit.get("mode") == "cli" and wit.get("cli_case"):
            for fmt, (_d, _e, ext, fn, _b) in W.FORMATS.items():
                for kind, d in fn(scr):
                    R.w(os.path.join(scr, "fix", "docs", "%s-%s.%s" % (fmt, kind, ext)), W.doc_bytes(d))
            noise = set()
            for i, c in enumerate(control_cli_cases(scr)):
                noise |= set(R.run_cli_case({"case": c, "scr": scr, "jaq": jaq, "cfg": cfg, "noise": [], "learn": True, "idx": "rc%d" % i})["learned"])
            r = R.run_cli_case({"case": wit["cli_case"], "scr": scr, "jaq": jaq, "cfg": cfg, "noise": sorted(noise), "idx": "replay"})
            n = 1
            print("replay: jaq %s -> rc=%s, %d finding(s)" % (" ".join(wit["cli_case"]["argv"])[:300], r["rc"], len(r["findings"])))
            for g in r["findings"]:
                print("  %s %s" % (g["cls"], g["raw"][:300]))
                g["site"] = r["site"]
            report_findings(run, "cli", r["findings"], {"scratch": scr, "cli_case": wit["cli_case"], "argclass": r["argclass"]})
        else:
            print("replay: this witness (%s) is a file-system state observation of a whole run; re-run "
                  "`VERIF_SEED=%s ./check C06 --tier %s`" % (wit.get("mode"), rp.get("seed"), rp.get("tier")))
        run.finish({"evaluations": n, "distinct_nontrivial": n, "rule": "replay of one witness", "samples": [wit]})
    finally:
        shutil.rmtree(scr, ignore_errors=True)


def main():
    run = Run("C06")
    jaqmon = build.jaqmon("verif")
    jaq = build.cli()
    cfg = R.strace_config()
    if cfg is None:
        run.finish({"evaluations": 0, "distinct_nontrivial": 0, "rule": "", "samples": []},
                   broken="strace is not usable here (no recorder): nothing was observed")
    if run.replay:
        return replay(run, cfg, jaqmon, jaq)
    thorough = run.tier == "thorough"
    scr = R.make_scratch()
    broken = None
    try:
        canaries = R.make_fixtures(scr)
        atime_works = R.atime_sensitive(scr)
        ok, st = selftest(scr, cfg)
        if not ok:
            run.finish({"evaluations": 0, "distinct_nontrivial": 0, "rule": "", "samples": [st]},
                       broken="recorder self-test failed (a process misbehaving on purpose was not flagged): %s" % st)
        c = par.client("verif")
        nat = c.request({"op": "natives"})
        c.stop()
        names = {n for n, _a in nat["natives"]} | {n for n, _a in nat["defs"]}
        callables = W.callables_of(nat)
        cli_only = cli_only_names(names)
        repl_in_lib = "repl" in names
        rng = run.rng("work")
        vals = W.values(scr, thorough)
        # ---- jaqmon phase workload
        reqs = list(W.native_requests(callables, vals, run.seed, thorough))
        reqs += list(W.pipeline_requests(callables, vals, rng, run.size(600, 30000)))
        reqs += list(W.doc_requests(scr, rng, run.size(2100, 120000)))
        str_inputs = [enc(v) for _c, v in vals[:6]] + [None, enc([S("/etc/passwd")])]
        reqs.append({"prog": ".", "cases": [{"input": x} for x in str_inputs], "meta": [("ordinary:identity", "input")] * len(str_inputs)})
        for i, p in enumerate(W.ORDINARY):
            reqs.append({"prog": p, "cases": [{"input": x} for x in str_inputs],
                         "meta": [("ordinary:%d:%s" % (i, p[:40]), "sample-input")] * len(str_inputs)})
        manual = W.manual_examples(build.REPO)
        for site, p in manual:
            reqs.append({"prog": p, "cases": [{"input": None}], "meta": [(site, "example")]})
        rng.shuffle(reqs)
        nshards = run.size(32, 96)
        extra_inputs = [enc(S("/etc/passwd")), enc(S(scr + "/canary/secret.txt")), enc(S("| sh"))]
        tasks = []
        for i, s in enumerate(shard(reqs, nshards)):
            tasks.append({"kind": "phase", "tag": "s%d" % i, "reqs": s, "tz": "UTC", "scr": scr, "jaqmon": jaqmon,
                          "cfg": cfg, "timeout": 900, "inputs": extra_inputs})
        tzc = ":%s/tz/Custom" % scr
        for tzname, tz in (("UTC", "UTC"), ("Europe/Berlin", "Europe/Berlin"), ("unset", None), ("file", tzc), ("bogus", "No/Such_Zone")):
            tasks.append({"kind": "phase", "tag": "tz-" + tzname.replace("/", "_"), "reqs": list(W.time_requests(scr, tzname)),
                          "tz": tz, "scr": scr, "jaqmon": jaqmon, "cfg": cfg, "timeout": 900, "inputs": extra_inputs})
        # ---- the real binary: control runs first (they teach the runtime's own file reads)
        noise = set()
        cli_results = []
        for i, cc in enumerate(control_cli_cases(scr)):
            r = R.run_cli_case({"case": cc, "scr": scr, "jaq": jaq, "cfg": cfg, "noise": [], "learn": True, "idx": "c%d" % i})
            noise |= set(r["learned"])
            cli_results.append(r)
        for j, cc in enumerate(build_cli_cases(scr, callables, cli_only, run.seed, thorough)):
            tasks.append({"kind": "cli", "case": cc, "scr": scr, "jaq": jaq, "cfg": cfg, "noise": sorted(noise), "idx": str(j)})
        tasks.insert(0, {"kind": "cli", "case": {"name": "repl-control", "site": "cli:repl", "argclass": "positive control",
                                                 "argv": ["-n", "repl"], "zone_ok": False, "timeout": 25},
                         "scr": scr, "jaq": jaq, "cfg": cfg, "noise": sorted(noise), "idx": "repl"})
        before = R.listing(scr)
        # ---- run
        distinct = Distinct()
        samples = Samples(6, run.rng("samples"))
        phases = cli_runs = control_phases = 0
        hist, cli_exec_hist, ends = {}, {}, {}
        statlike = lines = unparsed = markers = compile_errors = requests = cases_sent = 0
        phase_noise = set()
        pending_confirm = []
        inplace_seen = {}
        cli_rc = {}
        cli_nonzero = {}
        for kind, r in par.pmap(work, tasks, run.jobs):
            if kind == "phase":
                if r["broken"]:
                    broken = broken or r["broken"]
                d, n = r["observed"]
                phases += n
                control_phases += r["control_phases"]
                for site_arg in d:
                    distinct.add("%s|%s" % tuple(site_arg))
                for k, v in r["hist"].items():
                    hist[k] = hist.get(k, 0) + v
                for k, v in r["ends"].items():
                    ends[k] = ends.get(k, 0) + v
                statlike += r["statlike"]
                lines += r["lines"]
                unparsed += r["unparsed"]
                markers += r["markers"]
                compile_errors += r["compile_errors"]
                requests += r["requests"]
                cases_sent += r["cases"]
                phase_noise |= set(r["noise"])
                for s in r["samples"]:
                    samples.add(s)
                for ic in r["inconc"]:
                    run.inconc("phase-" + ic["why"].split(":")[0])
                    run.notes.append("inconclusive: %s (%s) %s" % (ic["prog"][:120], ic["why"], ic["stderr"][-80:]))
                for f in r["findings"]:
                    p = f["detail"].get("path") if isinstance(f["detail"], dict) else None
                    if f["cls"] in ("open-read", "read-fd") and T.runtime_path(p) and f["case"] is not None:
                        pending_confirm.append(f)
                    else:
                        report_findings(run, "phase", [f], {"scratch": scr})
            else:
                cli_results.append(r)
        for f in pending_confirm[:40]:
            again, _r = confirm_phase_finding(f, scr, cfg, jaqmon)
            if again:
                report_findings(run, "phase", [f], {"scratch": scr, "confirmed_in_fresh_process": True})
            else:
                run.inconc("unreproduced-runtime-pseudo-file-read")
                run.notes.append("not reproduced in a fresh process: %s" % f["raw"][:200])
        repl_control = None
        for r in cli_results:
            if r["name"] == "repl-control":
                continue
            cli_runs += 1
            lines += r["lines"]
            unparsed += r["unparsed"]
            cli_rc[str(r["rc"])] = cli_rc.get(str(r["rc"]), 0) + 1
            if r["rc"] != 0 and len(cli_nonzero.setdefault(str(r["rc"]), [])) < 6:
                cli_nonzero[str(r["rc"])].append("%s: %s" % (r["name"], r["stderr"].strip()[-100:]))
            if r["rc"] is None:
                run.inconc("cli-timeout")
                run.notes.append("cli timeout: %s" % " ".join(r["case"]["argv"])[:160])
            distinct.add("%s|%s" % (r["site"], r["argclass"]))
            for k, v in r["exec_hist"].items():
                cli_exec_hist[k] = cli_exec_hist.get(k, 0) + v
            if r["case"].get("inplace"):
                inplace_seen[r["name"]] = r["inplace_events"]
            for f in r["findings"]:
                f["site"] = r["site"]
            report_findings(run, "cli", r["findings"], {"scratch": scr, "cli_case": r["case"], "argclass": r["argclass"],
                                                        "rc": r["rc"], "stderr": r["stderr"]})
            if r["name"] in ("named-files", "doc-file-xml-entity-external", "inplace-one"):
                samples.add({"cli": "jaq " + " ".join(r["case"]["argv"])[:300], "rc": r["rc"],
                             "syscalls_after_first_input": r["exec_hist"], "named_files_opened": r["opened_named"]})
        after = R.listing(scr)
        # ---- positive control: `repl` (documented exception) must be seen doing what the policy forbids
        rr = [r for r in cli_results if r["name"] == "repl-control"][0]
        if rr["rc"] is None and not rr["findings"]:      # starved machine: once more, patiently
            rr = R.run_cli_case({"case": dict(rr["case"], timeout=180), "scr": scr, "jaq": jaq, "cfg": cfg,
                                 "noise": sorted(noise), "idx": "repl2"})
        repl_control = {"rc": rr["rc"], "events_flagged": [(f["cls"], (f["detail"].get("path") if isinstance(f["detail"], dict) else None))
                                                          for f in rr["findings"]][:8]}
        if rr["rc"] == 3:
            run.notes.append("`repl` does not compile in the jaq binary any more: positive control skipped")
        elif not rr["findings"]:
            broken = broken or "positive control: `jaq -n repl` ran but the policy flagged nothing"
        if repl_in_lib:
            run.notes.append("`repl` is now part of the library natives (jaq_all::data::funs); it stays excluded by name")
        # ---- second, independent observation: canaries and directory listings
        for key, wit in R.check_canaries(canaries, atime_works):
            wit["scratch"] = scr
            wit["mode"] = "fs-state"
            run.violation(key, wit)
        for p in sorted(set(after) - set(before)):
            if p == "home/.cache/jaq-history":       # written by the `repl` positive control (documented exception)
                continue
            run.violation("fs-state:new-file", {"mode": "fs-state", "path": p, "scratch": scr,
                                                "note": "a file appeared in the scratch cwd/canary/home/fixture directories"})
        for p in sorted(set(before) - set(after)):
            run.violation("fs-state:file-removed", {"mode": "fs-state", "path": p, "scratch": scr})
        for p in sorted(set(before) & set(after)):
            if before[p] != after[p] and not os.path.isdir(os.path.join(scr, p)):
                run.violation("fs-state:file-changed", {"mode": "fs-state", "path": p, "before": before[p], "after": after[p], "scratch": scr})
        leftovers = [d + "/" + n for d in ("a", "b", "fail") for n in os.listdir(os.path.join(scr, "inplace", d)) if n.startswith("jaq")]
        for n in leftovers:
            # every jaq process has ended: a temporary file that is still there is a file the run created
            # which is not the documented in-place output file
            run.violation("fs-state:in-place-temp-file-left-behind",
                          {"mode": "fs-state", "path": "inplace/" + n, "scratch": scr,
                           "content": open(os.path.join(scr, "inplace", n), "rb").read(200).decode("utf-8", "replace")})
        for name, text in R.INPLACE_FAIL_FILES.items():
            got = open(os.path.join(scr, "inplace", "fail", name), "rb").read().decode("utf-8", "replace")
            if got != text:
                run.violation("fs-state:in-place-input-changed-by-failing-run",
                              {"mode": "fs-state", "path": "inplace/fail/" + name, "before": text, "after": got[:200], "scratch": scr})
        if control_phases == 0 or markers == 0:
            broken = broken or "no execution phase of the control program was found in the logs"
        if phases < cases_sent * 0.5:
            broken = broken or "only %d of %d execution phases were found in the logs" % (phases, cases_sent)
        run.finish({
            "evaluations": phases + cli_runs,
            "distinct_nontrivial": len(distinct),
            "rule": "evaluations = (program, input) execution phases whose begin and end markers were found in the strace "
                    "log of `jaqmon phase` + whole traced runs of the jaq binary; distinct = (native or definition name/arity | "
                    "document kind>decoder | manual example | CLI case, argument class) pairs whose phase was found; "
                    "non-trivial = the case carries a path-like/URL-like/command-like value, an adversarial document, or "
                    "is a program of the manual / the ordinary sample; control phases of `.` are not counted",
            "samples": samples.items,
            "phases_observed": phases, "phases_requested": cases_sent, "control_phases": control_phases,
            "requests": requests, "requests_not_compiling": compile_errors, "phase_outcomes": ends,
            "cli_runs": cli_runs, "cli_exit_codes": cli_rc, "cli_nonzero_exit_examples": cli_nonzero,
            "natives_and_definitions": len(callables), "cli_only_names": sorted(cli_only), "manual_examples": len(manual),
            "argument_values": len(vals), "traced_processes": len(tasks) + len(control_cli_cases(scr)) + 2,
            "syscalls_seen_during_phases": dict(sorted(hist.items(), key=lambda kv: -kv[1])),
            "stat_like_calls_during_phases": statlike,
            "cli_syscalls_after_first_input": dict(sorted(cli_exec_hist.items(), key=lambda kv: -kv[1])),
            "runtime_noise_learned_from_control": {"jaqmon_phases": sorted(phase_noise), "jaq_binary": sorted({re.sub(r"^/proc/[0-9]+/", "/proc/self/", x) for x in noise})},
            "in_place_events": inplace_seen, "in_place_temp_leftovers": leftovers,
            "recorder": {"strace": cfg["prefix"], "trace_set": cfg["trace"], "log_lines_parsed": lines,
                         "log_lines_unparsed": unparsed, "marker_syscalls_found": markers, "selftest": st},
            "repl_positive_control": repl_control, "canary_atime_sensitive": atime_works,
            "canaries": sorted(os.path.basename(p) for p in canaries),
        }, assumptions=[
            "strace -f reports every system call of the listed classes made by the traced process and its descendants",
            "the marker statx calls issued by jaqmon's phase mode enclose exactly the execution of one (program, input)",
            "a program 'uses a local-time / zone-name filter' iff its text contains localtime, strflocaltime or strptime",
            "read-only opens under /proc, /sys, /dev and of shared libraries seen in control runs of `.` are the runtime's, not jaq's",
        ], broken=broken)
    finally:
        if os.environ.get("C06_KEEP"):
            print("C06_KEEP: scratch kept at " + scr)
        else:
            shutil.rmtree(scr, ignore_errors=True)


if __name__ == "__main__":
    main()
