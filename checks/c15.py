"""C15 — parsing depends only on tokens and the documented grammar, precedence and sugar.

Round-trip monitor with an independent printer: syntax trees `G` are rendered by a printer that
encodes the manual's precedence table (minimal parentheses / parentheses everywhere / random
redundant ones; random whitespace, newlines and comments incl. the odd/even backslash rule and
CRLF between tokens), parsed by the real lexer + parser (jaqmon parse), and the parse tree must
be structurally `G`. Exhaustive: every ordered pair (and, in thorough, triple) of the 24 binary
operators in both groupings. Shorthands are compared with their expansions by outputs.
Acceptance faithfulness: for mutated texts that the parser ACCEPTS, the token sequence of the
re-rendered parse tree (parentheses and sugar normalised) must be the token sequence of the
text: nothing dropped, reordered or invented. Documented rejections must be rejected at
load/compile time."""
import os
import random
import re
import sys

sys.path.insert(0, os.path.dirname(os.path.dirname(os.path.abspath(__file__))))
from jqref import ast as A, docs, gen as G
from vlib import par
from vlib.client import WorkerDied, classify_death
from vlib.codec import Obj, S, dec, enc, show
from vlib.run import Distinct, Run, Samples

ID = A.ID
n = A.num

BINOPS = ([("pipe", None)] + [("comma", None)] + [("bind", None)] + [("assign", None), ("update", None), ("updalt", None)]
          + [("updmath", o) for o in "+-*/%"] + [("alt", None), ("or", None), ("and", None)]
          + [("cmp", o) for o in ("==", "!=", "<", "<=", ">", ">=")] + [("math", o) for o in "+-*/%"])
assert len(BINOPS) == 25   # 24 infix operators + the binding `as $v |`


def mk(op, l, r):
    k, o = op
    if k == "pipe":
        return A.pipe(l, r)
    if k == "bind":
        return A.bind(l, ("pvar", "$v"), r)
    if k in ("math", "cmp", "updmath"):
        return (k, o, l, r)
    return (k, l, r)


ATOMS = [ID, n(1), A.var("$x"), A.call("f"), A.key(ID, "a"), A.string("s"), ("arr", n(1)), ("neg", n(2)), ("try", A.call("g"), None),
         ("call", "h", (n(1), ID))]


def op_trees(thorough, rng):
    a, b, c, d = ATOMS[0], ATOMS[1], ATOMS[3], ATOMS[4]
    out = []
    for o1 in BINOPS:
        for o2 in BINOPS:
            out.append(mk(o1, mk(o2, a, b), c))
            out.append(mk(o1, a, mk(o2, b, c)))
    if thorough:
        for o1 in BINOPS:
            for o2 in BINOPS:
                for o3 in BINOPS:
                    out.append(mk(o1, mk(o2, mk(o3, a, b), c), d))
                    out.append(mk(o1, a, mk(o2, b, mk(o3, c, d))))
                    out.append(mk(o1, mk(o2, a, b), mk(o3, c, d)))
                    out.append(mk(o1, mk(o2, a, mk(o3, b, c)), d))
                    out.append(mk(o1, a, mk(o2, mk(o3, b, c), d)))
    else:
        for _ in range(1500):
            o1, o2, o3 = rng.choice(BINOPS), rng.choice(BINOPS), rng.choice(BINOPS)
            shape = rng.randrange(5)
            t = [mk(o1, mk(o2, mk(o3, a, b), c), d), mk(o1, a, mk(o2, b, mk(o3, c, d))), mk(o1, mk(o2, a, b), mk(o3, c, d)),
                 mk(o1, mk(o2, a, mk(o3, b, c)), d), mk(o1, a, mk(o2, mk(o3, b, c), d))][shape]
            out.append(t)
    return out


class Syn:
    """purely syntactic random trees over every node kind (scoping is irrelevant for parsing)"""

    def __init__(self, rng):
        self.rng = rng

    def pat(self, d=0):
        r = self.rng.random()
        if d > 1 or r < 0.5:
            return ("pvar", self.rng.choice(["$x", "$y", "$abc_1"]))
        if r < 0.75:
            return ("parr", tuple(self.pat(d + 1) for _ in range(self.rng.randrange(1, 3))))
        ents = []
        for _ in range(self.rng.randrange(1, 3)):
            kk = self.rng.random()
            if kk < 0.3:
                ents.append((A.string("x"), ("pvar", "$x")))         # {$x}
            elif kk < 0.6:
                ents.append((A.string(self.rng.choice(["a", "b c", "if"])), self.pat(d + 1)))
            elif kk < 0.8:
                ents.append((self.term(2), self.pat(d + 1)))          # (f): p
            else:
                ents.append((("str", None, (("s", "k"), ("t", self.term(1)))), self.pat(d + 1)))
        return ("pobj", tuple(ents))

    def atom(self):
        return self.rng.choice(ATOMS + [A.REC, n("1.5"), n("10e2"), A.string(""), A.string("a\"b\\c\n\u00e9\u0001"), ("arr", None), ("obj", ()),
                                        ("break", "$l"), A.call("@base64"), A.var("$__loc__"), A.call("not"), A.call("m::f")])

    def term(self, size):
        if size <= 1:
            return self.atom()
        r = self.rng
        k = r.choice(["bin", "bin", "bin", "neg", "arr", "obj", "str", "label", "fold", "try", "if", "def", "call", "path", "path", "atom"])
        if k == "bin":
            a = r.randrange(1, size)
            op = r.choice(BINOPS)
            if op[0] == "bind":
                return A.bind(self.term(a), self.pat(), self.term(size - a))
            return mk(op, self.term(a), self.term(size - a))
        if k == "neg":
            return ("neg", self.term(size - 1))
        if k == "arr":
            return ("arr", self.term(size - 1))
        if k == "obj":
            ents = []
            for _ in range(r.randrange(1, 4)):
                kk = r.random()
                if kk < 0.15:
                    ents.append((A.var(r.choice(["$x", "$y"])), None))
                elif kk < 0.3:
                    ents.append((A.string(r.choice(["a", "b", "if", "and", "reduce"])), None))
                elif kk < 0.4:
                    ents.append((("str", None, (("s", "a"), ("t", self.term(2)))), None))
                elif kk < 0.55:
                    ents.append((A.var("$x"), self.term(size // 3 + 1)))
                elif kk < 0.7:
                    ents.append((self.term(2), self.term(size // 3 + 1)))       # (k): v
                elif kk < 0.78:
                    ents.append((("str", "@json", (("s", "q"), ("t", self.term(1)))), self.term(1)))
                else:
                    ents.append((A.string(r.choice(["a", "b c", "", "end", "x_1"])), self.term(size // 3 + 1)))
            return ("obj", tuple(ents))
        if k == "str":
            parts = [("s", r.choice(["", "a", "\\", "\"", "\n\t", "é€𝄞", "#", "(", ")"]))]
            for _ in range(r.randrange(1, 3)):
                parts.append(("t", self.term(size // 3 + 1)))
                parts.append(("s", r.choice(["", "-", " x "])))
            return A.normalize(("str", r.choice([None, None, "@json", "@sh"]), tuple(parts)))
        if k == "label":
            return ("label", r.choice(["$l", "$x"]), self.term(size - 1))
        if k == "fold":
            kind = r.choice(["reduce", "foreach"])
            nargs = 2 if kind == "reduce" else r.choice([2, 3])
            return ("fold", kind, self.term(size // 4 + 1), self.pat(), tuple(self.term(size // 4 + 1) for _ in range(nargs)))
        if k == "try":
            return ("try", self.term(size // 2 + 1), self.term(size // 2) if r.random() < 0.5 else None)
        if k == "if":
            conds = tuple((self.term(size // 4 + 1), self.term(size // 4 + 1)) for _ in range(r.choice([1, 1, 2, 3])))
            return ("if", conds, self.term(size // 4 + 1) if r.random() < 0.7 else None)
        if k == "def":
            defs = []
            for _ in range(r.choice([1, 1, 2])):
                params = tuple(r.sample(["f", "$x", "g", "$y"], r.randrange(0, 3)))
                defs.append((r.choice(["f", "g", "foo_1", "@fmt"]), params, self.term(size // 3 + 1)))
            return A.normalize(("def", tuple(defs), self.term(size // 3 + 1)))
        if k == "call":
            return ("call", r.choice(["f", "g", "limit", "@sh"]), tuple(self.term(size // 3 + 1) for _ in range(r.randrange(1, 4))))
        if k == "path":
            parts = []
            for _ in range(r.randrange(1, 4)):
                kk = r.random()
                opt = r.random() < 0.3
                if kk < 0.35:
                    parts.append((("index", A.string(r.choice(["a", "b", "if", "x y", ""]))), opt))
                elif kk < 0.55:
                    parts.append((("index", self.term(size // 4 + 1)), opt))
                elif kk < 0.7:
                    parts.append((("range", None, None), opt))
                elif kk < 0.8:
                    parts.append((("range", self.term(2), None), opt))
                elif kk < 0.9:
                    parts.append((("range", None, self.term(2)), opt))
                else:
                    parts.append((("range", self.term(2), self.term(2)), opt))
            head = ID if r.random() < 0.6 else self.term(size // 3 + 1)
            return ("path", head, tuple(parts))
        return self.atom()


def parse(c, text):
    return c.request({"op": "parse", "code": text}, timeout=30)


# ---- a small independent tokenizer of jq text (for the acceptance-faithfulness oracle) --------------

TOKEN_RE = re.compile(r"""
    (?P<ws>\s+)
  | (?P<word>[A-Za-z_][A-Za-z0-9_]*(::[$@]?[A-Za-z_][A-Za-z0-9_]*)?)
  | (?P<var>\$[A-Za-z_][A-Za-z0-9_]*(::[A-Za-z_][A-Za-z0-9_]*)?)
  | (?P<fmt>@[A-Za-z_][A-Za-z0-9_]*)
  | (?P<num>[0-9]+(\.[0-9]+)?([eE][+-]?[0-9]+)?)
  | (?P<dots>\.\.)
  | (?P<dotword>\.[A-Za-z_][A-Za-z0-9_]*)
  | (?P<op>[|=!<>+\-*/%][|=!<>+*/%]*)
  | (?P<sym>[.:;,?()\[\]{}])
""", re.X)


def tokens(text):
    """flat token list; string literals become ('str', content-with-escapes-resolved) and their
    interpolations are tokenized recursively in place. Comments are skipped. None if untokenizable."""
    out = []
    i = 0
    n_ = len(text)
    while i < n_:
        c = text[i]
        if c == "#":
            # comment: ends at the first newline not preceded by an odd number of backslashes
            while True:
                j = text.find("\n", i)
                if j < 0:
                    i = n_
                    break
                line = text[i:j]
                if line.endswith("\r"):
                    line = line[:-1]
                bs = len(line) - len(line.rstrip("\\"))
                i = j + 1
                if bs % 2 == 0:
                    break
            continue
        if c == '"':
            i += 1
            buf = []
            while True:
                if i >= n_:
                    return None
                ch = text[i]
                if ch == '"':
                    i += 1
                    break
                if ch == "\\":
                    if i + 1 >= n_:
                        return None
                    e = text[i + 1]
                    if e == "(":
                        # interpolation: find the matching parenthesis by recursive tokenization
                        depth = 0
                        j = i + 1
                        sub_start = j + 1
                        k = j
                        while k < n_:
                            if text[k] == '"':
                                # skip nested string
                                m = skip_string(text, k)
                                if m is None:
                                    return None
                                k = m
                                continue
                            if text[k] == "#":
                                nl = text.find("\n", k)
                                k = n_ if nl < 0 else nl + 1
                                continue
                            if text[k] == "(":
                                depth += 1
                            elif text[k] == ")":
                                depth -= 1
                                if depth == 0:
                                    break
                            k += 1
                        if k >= n_:
                            return None
                        if buf:
                            out.append(("strpart", "".join(buf)))
                            buf = []
                        inner = tokens(text[sub_start:k])
                        if inner is None:
                            return None
                        out.append(("interp", "("))
                        out += inner
                        out.append(("interp", ")"))
                        i = k + 1
                        continue
                    if e == "u":
                        try:
                            buf.append(chr(int(text[i + 2:i + 6], 16)))
                        except ValueError:
                            return None
                        i += 6
                        continue
                    mp = {"n": "\n", "t": "\t", "r": "\r", "b": "\b", "f": "\f", "\\": "\\", "/": "/", '"': '"'}
                    if e not in mp:
                        return None
                    buf.append(mp[e])
                    i += 2
                    continue
                buf.append(ch)
                i += 1
            out.append(("strpart", "".join(buf)))
            out.append(("strend", ""))
            continue
        m = TOKEN_RE.match(text, i)
        if not m:
            return None
        i = m.end()
        if m.lastgroup == "ws":
            continue
        out.append((m.lastgroup, m.group(m.lastgroup)))
    return out


def skip_string(text, k):
    i = k + 1
    while i < len(text):
        if text[i] == "\\":
            i += 2
            continue
        if text[i] == '"':
            return i + 1
        i += 1
    return None


KEYWORDS_DROPPED = {"try"}


def canon(toks):
    """normalise documented sugar and drop grouping tokens: what must be preserved is the
    sequence of names, variables, numbers, string texts, keywords and operators"""
    out = []
    strbuf = None
    toks = list(toks)
    for pos, (kind, val) in enumerate(toks):
        nxt = toks[pos + 1] if pos + 1 < len(toks) else (None, None)
        if kind == "sym" and val == "," and nxt == ("sym", "}"):
            continue        # the separator after the last entry of an object is not an operator of the term
        if kind == "word" and val in KEYWORDS_DROPPED and nxt[0] == "sym" and nxt[1] in ("}", ":", ","):
            out.append(("lit", val))        # a reserved word in key position (`{try}`, `{try: 1}`) is a key
            continue
        if kind == "strpart":
            if val:
                out.append(("lit", val))
            continue
        if kind == "strend":
            continue
        if kind == "interp":
            continue
        if kind == "sym" and val in "()[]{}.:;?":
            continue
        if kind == "word":
            if val in KEYWORDS_DROPPED:
                continue
            # keywords may also be object keys / path keys (`{or: 1}`, `.if`), where the re-rendered
            # tree spells them as strings: names and keywords are compared as the same kind of token
            out.append(("lit", val))
            continue
        if kind == "dotword":
            out.append(("lit", val[1:]))
            continue
        if kind == "dots":
            out.append(("op", ".."))
            continue
        out.append((kind if kind != "sym" else "op", val))
    return out


def faithful(text, tree):
    """token sequence of the text vs token sequence of the re-rendered parse tree"""
    t1 = tokens(text)
    if t1 is None:
        return None
    t2 = tokens(A.render(tree, "min", random.Random(1), sugar=False))
    if t2 is None:
        return None
    c1, c2 = canon(t1), canon(t2)
    # `{a}` / `{$x}` / `{"a\(f)"}` stand for `{a: .a}` etc.: the printer keeps the shorthand (value None), nothing to do.
    # `{$x}` in patterns is printed as `x: $x` or `$x`: normalise by collapsing `lit x, var $x` pairs
    return collapse(c1) == collapse(c2), c1, c2


def collapse(c):
    out = []
    i = 0
    while i < len(c):
        if c[i][0] == "lit" and i + 1 < len(c) and c[i + 1] == ("var", "$" + c[i][1]):
            out.append(c[i + 1])
            i += 2
            continue
        out.append(c[i])
        i += 1
    return out


def mutate(rng, text):
    toks = re.findall(r'"(?:[^"\\]|\\.)*"|\$?\w+|\.\.|[|=!<>+\-*/%]+|\S', text)
    if not toks:
        return text
    r = rng.random()
    i = rng.randrange(len(toks))
    if r < 0.25:
        del toks[i]
    elif r < 0.45:
        toks.insert(i, rng.choice(["|", ",", "+", "-", "as", "$x", "(", ")", "[", "]", "?", ":", ";", "if", "end", "then", "else", "def",
                                   "reduce", "1", ".", "..", "//", "and", "|=", "catch", "try", "label", "elif", ".a", "\"s\"", "{", "}"]))
    elif r < 0.6:
        j = rng.randrange(len(toks))
        toks[i], toks[j] = toks[j], toks[i]
    elif r < 0.75:
        toks[i] = rng.choice(["|", ",", "+", "-", "*", "//", "and", "or", "=", "|=", "+=", "<", "==", "as $v |"])
    elif r < 0.9:
        toks.insert(i, toks[i])
    else:
        toks = toks[:i]
    return " ".join(toks)


SHORTHANDS = [
    # (shorthand, expansion, inputs)
    (".a.b", ".[\"a\"][\"b\"]", "obj"), (".a.b", ". | .a | .b", "obj"), (".\"a\"", ".[\"a\"]", "obj"), (". \"a\"", ".a", "obj"),
    (".a[]", ".a | .[]", "obj"), (".a[0]", ".a | .[0]", "obj"), (".a[1:]", ".a | .[1:]", "obj"), (".a?", "try .a", "any"),
    (".[]?", "try .[]", "any"), (".a?.b?", "try (try .a | .b)", "any"), ("(1, error, 2)?", "try (1, error, 2) catch empty", "any"),
    ("try error", "try error catch empty", "any"), ("..", "recurse", "any"), ("{a}", "{a: .a}", "obj"), ("{a, b}", "{a: .a, b: .b}", "obj"),
    ("1 as $x | {$x}", "1 as $x | {x: $x}", "any"), ("{\"a\\(1, 2)\": 3}", "{(\"a\" + ((1, 2) | tostring)): 3}", "any"),
    ("{(\"a\", \"b\"): (1, 2)}", "(\"a\", \"b\") as $k | (1, 2) as $v | {$k: $v}", "any"), ("{if: 1, and: 2, reduce: 3}", "{\"if\": 1, \"and\": 2, \"reduce\": 3}", "any"),
    ("{if: 1} | .if", "{\"if\": 1} | .[\"if\"]", "any"),
    ("if . then 1 elif . == null then 2 else 3 end", "if . then 1 else (if . == null then 2 else 3 end) end", "any"),
    ("if . then 1 end", "if . then 1 else . end", "any"), ("\"a\\(., 1)b\"", "\"a\" + ((., 1) | tostring) + \"b\"", "any"),
    ("@json \"x\\(.)y\"", "\"x\" + (. | @json) + \"y\"", "any"), ("@base64 \"\\(\"a\")\"", "\"a\" | @base64", "any"),
    ("def f($x): [$x]; f(1, 2)", "def f(x): x as $x | [$x]; f(1, 2)", "any"),
    ("def f($a; g; $b): [$a, g, $b]; f(1, 2; 3; 4, 5)", "def f(a; g; b): a as $a | b as $b | [$a, g, $b]; f(1, 2; 3; 4, 5)", "any"),
    (". as [$a, $b] | [$a, $b]", ". as {(0): $a, (1): $b} | [$a, $b]", "arr"), (". as {$a} | $a", ". as {a: $a} | $a", "obj"),
    (". as {a: $x, $b} | [$x, $b]", ". as {a: $x} | . as {b: $b} | [$x, $b]", "obj"),
    ("reduce .[] as $x (0; . + 1)", "reduce .[] as $x (0; . + 1)", "arr"), ("foreach .[] as $x (0; . + 1)", "foreach .[] as $x (0; . + 1; .)", "arr"),
    ("{a: 1,}", "{a: 1}", "any"), ("-.[0]?", "-(.[0]?)", "arr"), ("-1 + 2", "(-1) + 2", "any"), ("1 - -1", "1 - (-1)", "any"),
    ("[1, 2, 3][0]", "[1, 2, 3] | .[0]", "any"), ("[[1, 2]][0][1:]", "[[1, 2]] | .[0] | .[1:]", "any"), ("[0][]", "[0] | .[]", "any"),
    (".a as $x | .b | $x", ".a as $x | (.b | $x)", "obj"), ("1, 2 as $x | [$x]", "1, (2 as $x | [$x])", "any"),
    ("label $l | 1, break $l, 2", "label $l | (1, break $l, 2)", "any"), ("def f: 1; f, 2", "def f: 1; (f, 2)", "any"),
    ("1 + 2 * 3 % 2", "1 + (2 * (3 % 2))", "any"), ("1 - 2 - 3", "(1 - 2) - 3", "any"), ("8 / 2 / 2", "(8 / 2) / 2", "any"),
    ("false and true or true", "(false and true) or true", "any"), ("null // false // 3", "(null // false) // 3", "any"),
    ("1 < 2 == true", "(1 < 2) == true", "any"), ("1 == 1 != false", "(1 == 1) != false", "any"), ("1 // 2 or false", "1 // (2 or false)", "any"),
    (".a = 1 | .b", "(.a = 1) | .b", "obj"), (".a = .b = 3", ".a = (.b = 3)", "obj"), (".a |= . + 1, 5", "(.a |= . + 1), 5", "obj"),
    (".a += 1 // 2", ".a += (1 // 2)", "obj"), ("1, 2 | . + 1", "(1, 2) | (. + 1)", "any"), ("[.[] | . * 2 + 1]", "[.[] | ((. * 2) + 1)]", "arr"),
    ("# c\n1 # d \\\n still comment\n+ 2", "1 + 2", "any"), ("1 # x \\\\\n+ 2", "1 + 2", "any"), ("1 +\r\n# c\r\n 2", "1 + 2", "any"),
    ("try error(\"x\") catch .", "try (error(\"x\")) catch (.)", "any"), ("try -1", "try (-1)", "any"), ("reduce -1 as $x (0; . + $x)", "reduce (-1) as $x (0; . + $x)", "any"),
]

REJECT = [
    "reduce .[] as $x (0)", "reduce .[] as $x (0; 1; 2)", "foreach .[] as $x (0)", "foreach .[] as $x (0; 1; 2; 3)", "reduce .[] (0; 1)",
    "def if: 1; if", "def f: 1 f", "1 +", "+ 1", ".[", ".a.", "{a:}", "{a 1}", "{: 1}", "$", "$1", "@", "1 as x | x", "1 as $x", "as $x | 1",
    "if 1 then 2", "if 1 2 end", "if then 1 end", "try", "catch 1", "label | 1", "label $x", "break", "break x", "\"abc", "\"\\q\"", "\"\\u12\"",
    "\"\\(1\"", "(1", "1)", "[1", "1]", "{", "}", "def f: 1;", "def f(: 1; f", "def f($x; ): 1; f(1; 2)", "f(;)", "f(1;)", "1 | | 2", "1 ,, 2",
    ".. a", "1 2", ".a b", "foo::", "::foo", "1 ? ? ? +", ". as [$a,] | 1", ". as {} | 1", ". as {a} | 1", ". as {$a: $b} | 1", "reduce . as [] (0; 1)",
    "{(1)}", "{(1): 2, (3)}", ". |= ", "= 1", "1 = ", ".a as | 1", "def f(g) g; 1", "import \"a\"; 1", "include \"a\" 1", "0x10", "1e", "1.", ".5",
    "@json 1 \"x\"", "if 1 then 2 elif 3 end", "if 1 then 2 else 3 else 4 end", "try 1 catch 2 catch 3", "$__prog__", "$__loc__x", "%", "1 % % 2",
    "[1,]", "{a: 1,,}", "def f: 1; def g: 2;", "label $l | | 1", "..a", "...", ". . .", "1 as $x | 2 as | 3",
]
# texts in REJECT that the grammar of the CURRENT tree accepts are reported only if the manual excludes them; the list is
# re-validated against the documented grammar in comments of DESIGN.md section 8 when something is accepted.


def value_inputs():
    return {"obj": [Obj([(S("a"), [1, 2, 3]), (S("b"), 2)]), Obj([(S("a"), Obj([(S("b"), 5)])), (S("b"), None)])],
            "arr": [[1, 2, 3], [[1, 2], [3]], []],
            "any": [None, 1, [1, 2], Obj([(S("a"), 1), (S("b"), [2])]), S("x"), True]}


def rt_task(task):
    seed, idx, trees, label = task
    rng = random.Random(f"c15/{seed}/{idx}")
    c = par.client("verif")
    out = {"viol": [], "inconc": {}, "evals": 0, "distinct": set(), "samples": [], "modes": {}}
    for t in trees:
        t = A.normalize(t)
        for mode, trivia in (("min", False), ("full", False), ("rand", True), ("min", True)):
            text = A.render(t, mode, random.Random(rng.random()), sugar=True, trivia=trivia)
            try:
                r = parse(c, text)
            except WorkerDied as e:
                out["inconc"][classify_death(e)] = out["inconc"].get(classify_death(e), 0) + 1
                continue
            out["evals"] += 1
            out["modes"][mode + ("+trivia" if trivia else "")] = out["modes"].get(mode + ("+trivia" if trivia else ""), 0) + 1
            if "panic" in r:
                out["viol"].append(("panic:" + r["panic"]["loc"], {"text": text, "panic": r["panic"]}))
                continue
            if "term" not in r:
                out["viol"].append(("rejected:%s:%s" % (label, t[0]), {"text": text, "tree": repr(t)[:500], "errors": str(r)[:300], "mode": mode}))
                continue
            back = A.normalize(A.from_parse(r["term"]))
            if back != t:
                out["viol"].append(("misparsed:%s:%s" % (label, diff_kind(t, back)), {"text": text, "expected_tree": repr(t)[:700],
                                                                                     "parsed_tree": repr(back)[:700], "mode": mode}))
            else:
                out["distinct"].add(label + ":" + skeleton(t))
        if len(out["samples"]) < 2:
            out["samples"].append({"tree": repr(t)[:200], "min": A.render(t, "min"), "full": A.render(t, "full"),
                                   "trivia": A.render(t, "rand", random.Random(1), trivia=True)[:200]})
    out["distinct"] = list(out["distinct"])
    return out


def diff_kind(a, b):
    if not isinstance(a, tuple) or not isinstance(b, tuple) or not a or not b:
        return "leaf"
    if a[0] != b[0] or len(a) != len(b):
        return "%s->%s" % (a[0], b[0])
    for x, y in zip(a, b):
        if x != y:
            if isinstance(x, tuple) and x and isinstance(x[0], str):
                return a[0] + "/" + diff_kind(x, y)
            return a[0]
    return a[0]


def skeleton(t, depth=3):
    if not isinstance(t, tuple) or not t or not isinstance(t[0], str):
        return ""
    if depth == 0:
        return t[0]
    k = t[0]
    if k in ("math", "cmp", "updmath"):
        k += t[1]
    return k + "(" + ",".join(s for s in (skeleton(x, depth - 1) for x in t[1:]) if s) + ")"


def misc_task(task):
    seed, idx, n_mut = task
    rng = random.Random(f"c15m/{seed}/{idx}")
    c = par.client("verif")
    out = {"viol": [], "inconc": {}, "evals": 0, "distinct": set(), "samples": [], "accepted": 0, "rejected": 0, "short": 0, "reject_ok": 0}
    inputs = value_inputs()
    if idx == 0:
        # shorthands == expansions, by outputs
        for sh, ex, kind in SHORTHANDS:
            ins = inputs[kind]
            try:
                r1 = c.eval(sh, [{"input": enc(v)} for v in ins], take=50)
                r2 = c.eval(ex, [{"input": enc(v)} for v in ins], take=50)
            except WorkerDied as e:
                out["inconc"][classify_death(e)] = 1
                continue
            out["evals"] += 1
            if "results" not in r1 or "results" not in r2:
                out["viol"].append(("shorthand-rejected:" + sh, {"shorthand": sh, "expansion": ex, "r1": str(r1)[:300], "r2": str(r2)[:300]}))
                continue
            for v, a, b in zip(ins, r1["results"], r2["results"]):
                sa = ([o[0] for o in a.get("outs", [])], a.get("end", ["?"])[0])
                sb = ([o[0] for o in b.get("outs", [])], b.get("end", ["?"])[0])
                if sa != sb:
                    out["viol"].append(("shorthand:" + sh, {"shorthand": sh, "expansion": ex, "input": show(v), "shorthand_gives": str(sa)[:300],
                                                            "expansion_gives": str(sb)[:300]}))
                else:
                    out["short"] += 1
                    out["distinct"].add("shorthand:" + sh)
        # documented rejections
        for text in REJECT:
            try:
                r = c.eval(text, [], take=1)
            except WorkerDied as e:
                out["inconc"][classify_death(e)] = 1
                continue
            out["evals"] += 1
            if "compile_panic" in r:
                out["viol"].append(("panic:compile", {"text": text, "panic": r["compile_panic"]}))
            elif "compile_error" in r:
                out["reject_ok"] += 1
                out["distinct"].add("reject:" + text)
            else:
                out["viol"].append(("accepted-outside-grammar:" + text, {"text": text}))
    # acceptance faithfulness on mutated texts
    seeds = [code for (_f, code, _o) in docs.examples()]
    rng.shuffle(seeds)
    for code in seeds[:n_mut]:
        for _ in range(4):
            text = mutate(rng, code)
            try:
                r = parse(c, text)
            except WorkerDied as e:
                out["inconc"][classify_death(e)] = out["inconc"].get(classify_death(e), 0) + 1
                continue
            out["evals"] += 1
            if "panic" in r:
                out["viol"].append(("panic:" + r["panic"]["loc"], {"text": text, "panic": r["panic"]}))
                continue
            if "term" not in r:
                out["rejected"] += 1
                continue
            out["accepted"] += 1
            tree = A.normalize(A.from_parse(r["term"]))
            f = faithful(text, tree)
            if f is None:
                continue
            ok, c1, c2 = f
            if not ok:
                out["viol"].append(("unfaithful-parse:" + first_diff(c1, c2), {"text": text, "rerendered": A.render(tree, "min", sugar=False),
                                                                                "tokens_of_text": str(c1)[:500], "tokens_of_parse": str(c2)[:500]}))
            else:
                out["distinct"].add("faithful:" + skeleton(tree, 2))
            # and the re-rendered tree parses to the same tree (idempotence)
            again = parse(c, A.render(tree, "min", sugar=False))
            if "term" not in again or A.normalize(A.from_parse(again["term"])) != tree:
                out["viol"].append(("reparse:" + skeleton(tree, 1), {"text": text, "rerendered": A.render(tree, "min", sugar=False)}))
    out["distinct"] = list(out["distinct"])
    return out


def first_diff(c1, c2):
    for i, (a, b) in enumerate(zip(c1, c2)):
        if a != b:
            return "%s->%s" % (a[0], b[0])
    return "length"


def dispatch(t):
    kind, payload = t
    return kind, (rt_task(payload) if kind == "rt" else misc_task(payload))


def main():
    run = Run("C15")
    thorough = run.tier == "thorough"
    rng = run.rng("trees")
    ops = op_trees(thorough, rng)
    syn = Syn(rng)
    nsyn = run.size(15000, 250000)
    syn_trees = [syn.term(rng.randrange(2, 14 if not thorough else 40)) for _ in range(nsyn)]
    sem_trees = []
    for _ in range(run.size(5000, 60000)):
        g = G.Gen(rng, max_size=rng.randrange(6, 30))
        sem_trees.append(g.program(rng.choice(["n", "a", "o"])))
    tasks = []
    nch = 48 if not thorough else 256
    for i in range(nch):
        for label, ts in (("operators", ops), ("syntax", syn_trees), ("programs", sem_trees)):
            part = ts[i::nch]
            if part:
                tasks.append(("rt", (run.seed, i, part, label)))
    for i in range(16):
        tasks.append(("misc", (run.seed, i, run.size(60, 600))))
    evals = 0
    modes = {}
    acc = rej = short = reject_ok = 0
    distinct = Distinct()
    samples = Samples(6, run.rng("s"))
    for kind, out in par.pmap(dispatch, tasks, run.jobs):
        for key, w in out["viol"]:
            run.violation(key, w)
        for k, m in out["inconc"].items():
            run.inconc(k, m)
        evals += out["evals"]
        for d in out["distinct"]:
            distinct.add(d)
        for s in out["samples"]:
            samples.add(s)
        if kind == "rt":
            for k, m in out["modes"].items():
                modes[k] = modes.get(k, 0) + m
        else:
            acc += out["accepted"]
            rej += out["rejected"]
            short += out["short"]
            reject_ok += out["reject_ok"]
    run.finish({
        "evaluations": evals, "distinct_nontrivial": len(distinct),
        "rule": "one evaluation = one rendering parsed by the real parser (or one shorthand/expansion pair, one rejection, one mutated "
                "text); distinct = tree skeleton to depth 3 per family; non-trivial = the rendering was accepted and compared",
        "samples": samples.items, "operator_pair_and_triple_trees": len(ops), "exhaustive": bool(thorough),
        "exhaustive_part": "all 25x25 ordered operator pairs (24 infix operators + `as` binding) in both groupings" + ("; all 25^3 triples in 5 groupings" if thorough else "; triples sampled"),
        "syntax_trees": len(syn_trees), "generated_programs": len(sem_trees), "renderings_by_mode": modes,
        "shorthand_pairs_agreeing_runs": short, "shorthand_pairs": len(SHORTHANDS), "rejections_confirmed": reject_ok,
        "rejection_texts": len(REJECT), "mutated_texts_accepted": acc, "mutated_texts_rejected": rej,
    }, assumptions=[
        "the printer (jqref/ast.py) encodes the precedence table and the right-extension of as/def/label exactly as the manual states them",
        "faithfulness of accepted texts is judged on the sequence of names, variables, numbers, string texts, keywords and operators",
    ])


if __name__ == "__main__":
    main()
