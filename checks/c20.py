"""C20 — date and time filters agree with the Gregorian calendar and invert each other.

Model monitor. The driver owns an independent proleptic-Gregorian model (days-from-civil /
civil-from-days, cross-checked against Python's `datetime` at start-up) and feeds batches of
typed epochs (machine ints, big ints, floats, decimal literals), broken-down arrays and
ISO-8601 / RFC 3339 texts to the real interpreter (one compiled filter, thousands of cases per
request) in BOTH build profiles: `verif` (integer overflow = observable panic) and `release`
(overflow wraps silently -> wrong instant, caught by the model).

Judged (property statement):
  * UTC year -9998..9998: `gmtime` = model broken-down time; `gmtime|mktime`, `todate|fromdate`,
    `strftime(F)|strptime(F)|mktime` (complete F) return the instant (fractional: to the
    microsecond); `todate` text is ISO-8601/RFC 3339 text of the instant; `fromdate` of
    independently generated RFC 3339 texts with offsets / fractions is the model instant.
  * outside years -9999..9999, non-finite, non-numeric, malformed arrays: ERROR, never a value,
    never a panic.
Observed, not judged: years -9999 and 9999 (between the two claims), one-microsecond losses,
leap seconds, text variants RFC 3339 merely permits, strftime's text as such."""
import math
import os
import re
import sys
from fractions import Fraction

sys.path.insert(0, os.path.dirname(os.path.dirname(os.path.abspath(__file__))))
from vlib import build, par
from vlib.client import WorkerDied, classify_death
from vlib.codec import Big, Dec, Obj, S, Str, dec, enc, show
from vlib.run import Run, Samples

# ------------------------------------------------------------------------------------------
# the model: proleptic Gregorian calendar (independent of jiff and of Python's datetime)
# ------------------------------------------------------------------------------------------


def dfc(y, m, d):
    """days from civil: days since 1970-01-01 of year y, month m (1..12), day d"""
    y -= m <= 2
    era = y // 400
    yoe = y - era * 400
    mp = (m + 9) % 12
    doy = (153 * mp + 2) // 5 + d - 1
    doe = yoe * 365 + yoe // 4 - yoe // 100 + doy
    return era * 146097 + doe - 719468


def cfd(z):
    """civil from days: (year, month 1..12, day)"""
    z += 719468
    era = z // 146097
    doe = z - era * 146097
    yoe = (doe - doe // 1460 + doe // 36524 - doe // 146096) // 365
    doy = doe - (365 * yoe + yoe // 4 - yoe // 100)
    mp = (5 * doy + 2) // 153
    d = doy - (153 * mp + 2) // 5 + 1
    m = mp + 3 if mp < 10 else mp - 9
    return (yoe + era * 400 + (m <= 2), m, d)


def is_leap(y):
    return y % 4 == 0 and (y % 100 != 0 or y % 400 == 0)


def dim(y, m):
    return (31, 29 if is_leap(y) else 28, 31, 30, 31, 30, 31, 31, 30, 31, 30, 31)[m - 1]


def bdt(i):
    """broken-down UTC time of the integer instant i: [year, month from 0, day, h, m, s,
    weekday from Sunday, day of the year from 0]"""
    days, rem = divmod(i, 86400)
    y, m, d = cfd(days)
    h, rem = divmod(rem, 3600)
    mi, s = divmod(rem, 60)
    return [y, m - 1, d, h, mi, s, (days + 4) % 7, days - dfc(y, 1, 1)]


def E(y, m=1, d=1, h=0, mi=0, s=0):
    return dfc(y, m, d) * 86400 + h * 3600 + mi * 60 + s


POS_LO, POS_HI = E(-9998), E(9999)        # positive claims: POS_LO <= t < POS_HI
REP_LO, REP_HI = E(-9999), E(10000)       # errors demanded outside REP_LO <= t < REP_HI
JIFF_LO, JIFF_HI = -377705023201, 253402207200   # observed limits of the implementation (workload only)
OVF = 2 ** 63 // 10 ** 6                  # |i| > OVF: i * 10^6 does not fit 64 bits


def selfcheck_model(full, rng):
    """cross-check the model against datetime for years 1..9999; returns the number of days compared"""
    import datetime
    n = 0

    def one(o):
        dt = datetime.date.fromordinal(o)
        z = o - 719163
        if cfd(z) != (dt.year, dt.month, dt.day) or dfc(dt.year, dt.month, dt.day) != z:
            raise SystemExit(f"BROKEN-CHECK: calendar model disagrees with datetime at ordinal {o}")
        b = bdt(z * 86400 + 86399)
        if b[6] != (dt.weekday() + 1) % 7 or b[7] != o - datetime.date(dt.year, 1, 1).toordinal() or b[3:6] != [23, 59, 59]:
            raise SystemExit(f"BROKEN-CHECK: weekday/yearday model disagrees with datetime at ordinal {o}")
    top = datetime.date.max.toordinal()
    if full:
        for o in range(1, top + 1):
            one(o)
        return top
    for o in range(datetime.date(1599, 12, 25).toordinal(), datetime.date(2401, 1, 7).toordinal()):
        one(o)
        n += 1
    for y in range(1, 10000):
        for mo, d in ((1, 1), (2, 28), (3, 1), (12, 31)):
            one(datetime.date(y, mo, d).toordinal())
            n += 1
    for _ in range(60000):
        one(rng.randrange(1, top + 1))
        n += 1
    return n


# ------------------------------------------------------------------------------------------
# typed inputs
# ------------------------------------------------------------------------------------------

def exact(v):
    """(kind, X): kind in int|big|float|dec|nan|inf|nonnum; X exact Fraction (numbers) or None"""
    if isinstance(v, bool) or v is None:
        return "nonnum", None
    if isinstance(v, Big):
        return "big", Fraction(v.n)
    if isinstance(v, int):
        return ("int" if -(2 ** 63) <= v < 2 ** 63 else "big"), Fraction(v)
    if isinstance(v, float):
        if v != v:
            return "nan", None
        if math.isinf(v):
            return "inf", None
        return "float", Fraction(v)
    if isinstance(v, Dec):
        from decimal import Decimal
        return "dec", Fraction(Decimal(v.text))     # the literal's exact value
    return "nonnum", None


def domain(X):
    """pos: answer demanded; grey: years -9999 / 9999 (not judged); out: error demanded"""
    fl = X.numerator // X.denominator
    if POS_LO <= fl < POS_HI:
        return "pos"
    if REP_LO <= fl < REP_HI:
        return "grey"
    return "out"


def tol(X):
    """'to the microsecond' for a fractional time given as a double: strictly less than one
    microsecond plus the resolution of the double itself, plus one nanosecond for the doubles the
    interpreter computes on the way (the seconds field of a broken-down time is a double near
    60, resolution 7e-15 s, whatever the magnitude of the epoch)"""
    return Fraction(1, 10 ** 6) + 2 * Fraction(math.ulp(float(X))) + Fraction(1, 10 ** 9)


def numval(v):
    """exact value of a number returned by the interpreter, or None"""
    if isinstance(v, bool):
        return None
    if isinstance(v, int):
        return Fraction(v)
    if isinstance(v, float) and v == v and not math.isinf(v):
        return Fraction(v)
    if isinstance(v, Dec):
        try:
            return Fraction(float(v.text))
        except Exception:
            return None
    return None


def text_of(v):
    if isinstance(v, Str) and v.text:
        try:
            return v.b.decode("utf-8")
        except UnicodeDecodeError:
            return None
    return None


def norm_loc(loc):
    m = re.search(r"(jaq-[a-z]+/src/.*)$", loc)
    if m:
        return m.group(1)
    m = re.search(r"registry/src/[^/]+/(.*)$", loc)
    return m.group(1) if m else loc.rsplit("/", 1)[-1]


ISO_RE = re.compile(r"^([+-]\d{4,6}|\d{4})-(\d\d)-(\d\d)[Tt ](\d\d):(\d\d):(\d\d)(?:[.,](\d{1,9}))?([Zz]|[+-]\d\d:\d\d)$")


def parse_iso(t):
    """independent reader of ISO-8601 extended / RFC 3339 date-times -> exact instant or None"""
    m = ISO_RE.match(t)
    if not m:
        return None
    y, mo, d, h, mi, s = (int(m.group(i)) for i in range(1, 7))
    if not (1 <= mo <= 12 and 1 <= d <= dim(y, mo) and h < 24 and mi < 60 and s < 60):
        return None
    off = 0
    z = m.group(8)
    if z not in "Zz":
        oh, om = int(z[1:3]), int(z[4:6])
        if oh > 23 or om > 59:
            return None
        off = (oh * 60 + om) * 60 * (-1 if z[0] == "-" else 1)
    frac = Fraction(int(m.group(7)), 10 ** len(m.group(7))) if m.group(7) else 0
    return E(y, mo, d, h, mi, s) - off + frac


def iso_text(inst, off_min=None, frac="", sep="T", year_style="rfc"):
    """text of the integer instant `inst` at UTC offset off_min (None = 'Z')"""
    loc = inst + (off_min or 0) * 60
    b = bdt(loc)
    y = b[0]
    ys = "%04d" % y if (year_style == "rfc" and 0 <= y <= 9999) else "%s%06d" % ("-" if y < 0 else "+", abs(y))
    if off_min is None:
        z = "Z"
    else:
        z = "%s%02d:%02d" % ("-" if off_min < 0 else "+", abs(off_min) // 60, abs(off_min) % 60)
    return "%s-%02d-%02d%s%02d:%02d:%02d%s%s" % (ys, b[1] + 1, b[2], sep, b[3], b[4], b[5], frac, z)


# ------------------------------------------------------------------------------------------
# task "epoch": typed epochs through the core bundle
# ------------------------------------------------------------------------------------------

PATHS = {}      # profile -> jaqmon binary, built once in main() (workers are forked afterwards)


def client(profile):
    return par.client(profile, path=PATHS.get(profile))


T = 'def t(f): try ["ok", f] catch ["err"]; '
SFMT = "%Y-%m-%dT%H:%M:%SZ"
CORE_OPS = [
    ("gmtime", "gmtime"),
    ("gmtime|mktime", "gmtime | mktime"),
    ("todate", "todate"),
    ("todate|fromdate", "todate | fromdate"),
    ("localtime", "localtime"),
    ("strftime", 'strftime("%s")' % SFMT),
    ("strflocaltime", 'strflocaltime("%s")' % SFMT),
]
CORE_PROG = T + "[" + ", ".join("t(%s)" % f for _, f in CORE_OPS) + "]"
SINGLE_PROG = T + ".[0] as $k | .[1] | " + " ".join(
    "%s $k == %d then t(%s)" % ("if" if k == 0 else "elif", k, f) for k, (_, f) in enumerate(CORE_OPS)) + " else null end"
USES_SCALING = {"gmtime", "gmtime|mktime", "localtime", "strftime", "strflocaltime"}   # epoch_to_timestamp callers
FIELDS = ["year", "month", "day", "hour", "minute", "second", "weekday", "yearday"]


class Ctx:
    """per-task collector"""

    def __init__(self, profile):
        self.profile = profile
        self.viol = []
        self.inconc = []
        self.obs = {}
        self.distinct = set()
        self.evals = 0
        self.sample = None

    def v(self, key, **w):
        w["profile"] = self.profile
        self.viol.append((key, w))

    def o(self, name, n=1):
        self.obs[name] = self.obs.get(name, 0) + n


def check_bdt_value(g, X, is_int):
    """g: decoded gmtime-like array. Returns None if it is the broken-down time of X (exactly for
    integers, to the microsecond for fractional times), else the name of the offending field."""
    if not isinstance(g, list) or len(g) != 8:
        return "shape"
    if is_int:
        exp = bdt(int(X))
        for name, a, b in zip(FIELDS, g, exp):
            if isinstance(a, bool) or not isinstance(a, (int, float)) or a != b:
                return name
        return None
    for name, a in zip(FIELDS, g):
        if name != "second" and (isinstance(a, bool) or not isinstance(a, int)):
            return name
    y, mo, d, h, mi, s, wd, yd = g
    sv = numval(s)
    if sv is None or not (0 <= sv < 60):
        return "second"
    if not (0 <= mo <= 11) or not (-9999 <= y <= 9999):
        return "month"
    if not (1 <= d <= dim(y, mo + 1)):
        return "day"
    if not (0 <= h < 24):
        return "hour"
    if not (0 <= mi < 60):
        return "minute"
    days = dfc(y, mo + 1, d)
    inst = days * 86400 + h * 3600 + mi * 60 + sv
    if abs(inst - X) >= tol(X):
        # name the coarsest field that differs from the broken-down time of floor(X)
        exp = bdt(X.numerator // X.denominator)
        for name, a, b in zip(FIELDS[:5], g, exp):
            if a != b:
                return name
        return "second"
    if wd != (days + 4) % 7:
        return "weekday"
    if yd != days - dfc(y, 1, 1):
        return "yearday"
    return None


def frac_cause(X, rv):
    """recognisable causes of a fractional instant coming back wrong (canonical key parts)"""
    if X < 0 and X.denominator != 1 and rv == -((-X.numerator) // X.denominator):
        return "negative-fraction-dropped"      # truncated towards zero to whole seconds
    if abs(rv - X) < Fraction(3, 10 ** 6) + 2 * Fraction(math.ulp(float(X))):
        return "off>1us"                        # more than one, at most three microseconds away
    return None


def why_rejectable(kind, X):
    """for inputs that must be rejected: the class used in violation keys"""
    if kind in ("nan", "inf", "nonnum"):
        return kind
    return "out-of-range"


def judge_core_op(ctx, name, r, it):
    """r: ["ok", value] | ["err"]; it: dict(kind, X, dom, v, w, cls)"""
    kind, X, dom = it["kind"], it["X"], it["dom"]
    ok = isinstance(r, list) and r and isinstance(r[0], Str) and r[0].b == b"ok"
    if isinstance(it["v"], list) and name in ("strftime", "strflocaltime"):
        return      # strftime also takes broken-down arrays: judged in the bdt task
    wit = dict(op=name, input=show(it["v"]), input_wire=it["w"], task="epoch")
    if dom in ("invalid", "out"):
        if ok:
            if kind in ("int", "big") and name in USES_SCALING and abs(X) > OVF and I64[0] <= X <= I64[1]:
                ctx.v("%s:overflow:wrapped-instant" % name, observed=show(r[1]), expected="error (|epoch|*10^6 overflows 64 bits)", **wit)
            else:
                ctx.v("%s:%s:accepted" % (name, why_rejectable(kind, X)), observed=show(r[1]), expected="error", **wit)
        return
    is_int = kind in ("int", "big")
    judged = dom == "pos"

    def bad(what, expected):
        if judged:
            ctx.v("%s:%s:%s" % (name, what, it["cls"]), observed=show(r[1]) if ok else "error", expected=expected, **wit)
        else:
            ctx.o("grey-zone (year -9999/9999) %s %s" % (name, what))
    if not ok:
        if judged:
            bad("rejected", "a result")
        else:
            ctx.o("grey-zone (year -9999/9999) %s: error" % name)
        return
    val = r[1]
    if not judged:
        ctx.o("grey-zone (year -9999/9999) %s: answered" % name)
    if name in ("gmtime", "localtime"):
        f = check_bdt_value(val, X, is_int)
        if f:
            bad("model:" + f, show(bdt(X.numerator // X.denominator)) + (" (+ fraction)" if not is_int else ""))
    elif name in ("gmtime|mktime", "todate|fromdate"):
        rv = numval(val)
        if rv is None:
            bad("roundtrip:not-a-number", show(it["v"]))
        elif is_int:
            if rv != X:
                bad("roundtrip", str(int(X)))
        else:
            dlt = abs(rv - X)
            if dlt >= tol(X):
                c = frac_cause(X, rv)
                if c and judged:
                    ctx.v("%s:%s" % (name, c), observed=show(val), expected="%r within 1 us" % float(X), **wit)
                else:
                    bad("roundtrip", "%r within 1 us" % float(X))
            elif judged and dlt * 10 ** 6 >= Fraction(99, 100):
                ctx.o("%s: result one microsecond away from the input (truncation; within 'to the microsecond')" % name)
    elif name == "todate":
        t = text_of(val)
        inst = parse_iso(t) if t is not None else None
        if inst is None:
            bad("text:not-iso8601", "ISO-8601 / RFC 3339 text")
        elif is_int:
            if inst != X:
                bad("text:wrong-instant", iso_text(int(X)))
            elif t != iso_text(int(X)):
                ctx.o("todate: correct instant, text differs from YYYY-MM-DDTHH:MM:SSZ / -00YYYY-..")
        elif abs(inst - X) >= tol(X):
            bad("text:wrong-instant", iso_text(X.numerator // X.denominator) + " + fraction")
    elif name in ("strftime", "strflocaltime"):
        t = text_of(val)
        fl = X.numerator // X.denominator
        if t is None:
            bad("not-a-string", "a string")
        elif 1000 <= bdt(fl)[0] <= 9999:
            # strftime's text as such is not in the property: observed only (the round trips are judged)
            exp = iso_text(fl)
            if t != exp and not (not is_int and t in (iso_text(fl + 1), iso_text(fl - 1))):
                ctx.o("strftime(%s) text differs from the model's (observed, not judged)" % SFMT)


def judge_epochs(ctx, values):
    """values: model values (typed epochs / rejectable inputs)"""
    c = client(ctx.profile)
    items = []
    for v in values:
        kind, X = exact(v)
        dom = "invalid" if X is None else domain(X)
        cls = kind
        if X is not None:
            cls += (":frac" if X.denominator != 1 else "") + (":neg" if X < 0 else "")
        items.append(dict(v=v, w=enc(v), kind=kind, X=X, dom=dom, cls=cls))
    r = c.eval(CORE_PROG, [{"input": it["w"]} for it in items], take=2, timeout=300)
    if "results" not in r:
        raise RuntimeError("core program did not compile: %r" % (r,))
    redo = []
    for it, res in zip(items, r["results"]):
        ctx.evals += 1
        if res.get("panic"):
            ctx.v("panic:%s" % norm_loc(res["panic"]["loc"]), msg=res["panic"]["msg"], input=show(it["v"]), input_wire=it["w"],
                  task="epoch", expected="error" if it["dom"] in ("out", "invalid") else "a result")
            redo.append(it)
            continue
        if res["end"][0] != "end" or len(res["outs"]) != 1:
            ctx.v("epoch:bundle-failed", end=res["end"], input=show(it["v"]), input_wire=it["w"], task="epoch")
            continue
        outs = dec(res["outs"][0][0])
        it["outs"] = outs
        for (name, _), o in zip(CORE_OPS, outs):
            judge_core_op(ctx, name, o, it)
        finish_epoch_item(ctx, it)
    if redo:
        # a panic hides the other filters of the bundle: run them one by one on those inputs
        cases = [{"input": [enc(k), it["w"]]} for it in redo for k in range(len(CORE_OPS))]
        r = c.eval(SINGLE_PROG, cases, take=2, timeout=300)
        idx = 0
        for it in redo:
            outs = []
            for k, (name, _) in enumerate(CORE_OPS):
                res = r["results"][idx]
                idx += 1
                if res.get("panic"):
                    ctx.v("panic:%s" % norm_loc(res["panic"]["loc"]), msg=res["panic"]["msg"], input=show(it["v"]),
                          input_wire=it["w"], op=name, task="epoch")
                    outs.append(None)
                elif res["end"][0] == "end" and len(res["outs"]) == 1:
                    o = dec(res["outs"][0][0])
                    outs.append(o)
                    judge_core_op(ctx, name, o, it)
            it["outs"] = outs
            finish_epoch_item(ctx, it)


def finish_epoch_item(ctx, it):
    outs = it["outs"]
    # local-time variants under the pinned TZ=UTC must coincide with their UTC counterparts
    for a, b in ((0, 4), (5, 6)):
        if outs[a] is not None and outs[b] is not None and enc(outs[a]) != enc(outs[b]):
            ctx.v("%s:differs-from-%s-under-TZ=UTC" % (CORE_OPS[b][0], CORE_OPS[a][0]), input=show(it["v"]), input_wire=it["w"],
                  task="epoch", utc=show(outs[a]), local=show(outs[b]))
    X = it["X"]
    if X is None:
        ctx.distinct.add(hash(("epoch", it["kind"], show(it["v"], 40))))
    elif it["dom"] != "grey":
        fl = X.numerator // X.denominator
        if it["dom"] == "pos":
            b = bdt(fl)
            ab = (b[0], b[1], min(b[2], 27) if b[2] < 28 else b[2], len(str(X.denominator)) if X.denominator != 1 else 0)
        else:
            ab = (fl.bit_length(), fl < 0)
        ctx.distinct.add(hash(("epoch", it["kind"], it["dom"]) + ab))
    if ctx.sample is None and it["dom"] == "pos" and outs[0] is not None and abs(X) > 1000:
        ctx.sample = {"task": "epoch", "profile": ctx.profile, "input": show(it["v"]),
                      "results": {n: show(o[1]) if len(o) > 1 else "error" for (n, _), o in zip(CORE_OPS, outs) if o}}


# ------------------------------------------------------------------------------------------
# task "fmt": strftime(F) | strptime(F) | mktime for complete formats F
# ------------------------------------------------------------------------------------------

# (format, complete to: "s" second / "us" sub-second, year domain)
FORMATS = [
    ("%Y-%m-%dT%H:%M:%SZ", "s", "all"), ("%F %T", "s", "all"), ("%Y %j %H:%M:%S", "s", "all"), ("%s", "s", "all"),
    ("%d/%m/%Y %H.%M.%S %z", "s", "all"), ("%Y-%m-%d %I:%M:%S %p", "s", "all"), ("%A, %B %d, %Y %T", "s", "all"),
    ("%G-W%V-%u %T", "s", "all"), ("%FT%T%:z", "s", "all"), ("%FT%T %Q", "s", "all"), ("%a %b %e %T %Y", "s", "all"),
    ("%Y-%U-%w %T", "s", "all"), ("%Y-%W-%u %T", "s", "all"), ("%T %d.%m.%Y", "s", "all"), ("%Y%m%d%H%M%S", "s", "0..9999"),
    ("%FT%T.%f", "us", "all"), ("%FT%T%.f", "us", "all"), ("%FT%T.%6f", "us", "all"), ("%FT%T.%N", "us", "all"),
    ("%d %b %Y %H:%M:%S%.f %z", "us", "all"),
]
FMT_PROG = T + ('[$FS[] as $F | t(strftime($F)) as $s | if $s[0] == "ok" then '
                '[$s[1], t($s[1] | strptime($F)), t($s[1] | strptime($F) | mktime), t(gmtime | strftime($F))] else ["err"] end]')


def judge_fmt(ctx, values):
    c = client(ctx.profile)
    items = []
    for v in values:
        kind, X = exact(v)
        items.append(dict(v=v, w=enc(v), kind=kind, X=X, dom=domain(X),
                          cls=kind + (":frac" if X.denominator != 1 else "") + (":neg" if X < 0 else "")))
    r = c.eval(FMT_PROG, [{"input": it["w"]} for it in items], vars=[("FS", enc([S(f) for f, _, _ in FORMATS]))],
               take=2, timeout=300)
    if "results" not in r:
        raise RuntimeError("fmt program did not compile: %r" % (r,))
    for it, res in zip(items, r["results"]):
        wit = dict(input=show(it["v"]), input_wire=it["w"], task="fmt")
        if res.get("panic"):
            ctx.v("panic:%s" % norm_loc(res["panic"]["loc"]), msg=res["panic"]["msg"], **wit)
            continue
        if res["end"][0] != "end" or len(res["outs"]) != 1:
            ctx.v("fmt:bundle-failed", end=res["end"], **wit)
            continue
        X = it["X"]
        is_int = X.denominator == 1 and it["kind"] in ("int", "big")
        fl = X.numerator // X.denominator
        year = bdt(fl)[0]
        judged = it["dom"] == "pos"
        for (F, level, ydom), o in zip(FORMATS, dec(res["outs"][0][0])):
            if ydom == "0..9999" and not (0 <= year <= 9999):
                continue
            if not is_int and level != "us":
                continue
            ctx.evals += 1
            w = dict(wit, format=F)

            def bad(what, observed, expected):
                if judged:
                    ctx.v("strftime|strptime|mktime:%s:%s:%s" % (what, F, it["cls"]), observed=observed, expected=expected, **w)
                else:
                    ctx.o("grey-zone (year -9999/9999) strftime|strptime|mktime: %s" % what)
            if len(o) == 1:
                bad("strftime-rejected", "error", "a string")
                continue
            s, p, m, viabdt = o
            w["text"] = show(s)
            if len(p) == 1:
                bad("strptime-rejected", "error", show(bdt(fl)))
                continue
            if len(m) == 1:
                bad("mktime-rejected", "error", show(it["v"]))
                continue
            f = check_bdt_value(p[1], X, is_int)
            if f:
                bad("strptime:model:" + f, show(p[1]), show(bdt(fl)))
            rv = numval(m[1])
            if rv is None:
                bad("not-a-number", show(m[1]), show(it["v"]))
            elif is_int:
                if rv != X:
                    bad("roundtrip", show(m[1]), str(int(X)))
            else:
                dlt = abs(rv - X)
                if dlt >= tol(X):
                    c = frac_cause(X, rv)
                    if c and judged:
                        ctx.v("strftime|strptime|mktime:%s" % c, observed=show(m[1]), expected="%r within 1 us" % float(X), **w)
                    else:
                        bad("roundtrip", show(m[1]), "%r within 1 us" % float(X))
                elif dlt * 10 ** 6 >= Fraction(99, 100):
                    ctx.o("strftime|strptime|mktime: result one microsecond away from the input (within 'to the microsecond')")
            if is_int and enc(viabdt) != enc([S("ok"), s]):
                bad("bdt-input-differs", show(viabdt), show(s))
        b = bdt(fl)
        ctx.distinct.add(hash(("fmt", it["kind"], it["dom"], b[0], b[1], X.denominator != 1)))
        if ctx.sample is None and judged:
            o = dec(res["outs"][0][0])
            ctx.sample = {"task": "fmt", "profile": ctx.profile, "input": show(it["v"]),
                          "texts": {F: show(x[0]) for (F, _, _), x in list(zip(FORMATS, o))[:20:3] if len(x) == 4}}


# ------------------------------------------------------------------------------------------
# task "bdt": broken-down arrays over edge field values -> mktime, strftime
# ------------------------------------------------------------------------------------------

BDT_OPS = [("mktime", "mktime"), ("strftime", 'strftime("%s")' % SFMT), ("strflocaltime", 'strflocaltime("%s")' % SFMT)]
BDT_PROG = T + "[" + ", ".join("t(%s)" % f for _, f in BDT_OPS) + "]"
BDT_SINGLE = T + ".[0] as $k | .[1] | " + " ".join(
    "%s $k == %d then t(%s)" % ("if" if k == 0 else "elif", k, f) for k, (_, f) in enumerate(BDT_OPS)) + " else null end"


def intlike(v):
    """(status, n): 'int' exact integer representation, 'soft' integral value in another
    representation (float / literal: acceptance not judged), 'bad'"""
    if isinstance(v, bool) or v is None:
        return "bad", None
    if isinstance(v, Big):
        return "int", v.n
    if isinstance(v, int):
        return "int", v
    k, X = exact(v)
    if X is not None and X.denominator == 1:
        return "soft", int(X)
    return "bad", None


def bdt_expect(a):
    """-> ('valid', instant Fraction, soft) | ('malformed', reasons)"""
    if not isinstance(a, list):
        return ("malformed", ["not-an-array"])
    if len(a) < 6:
        return ("malformed", ["short-array"])
    reasons, soft, vals = [], False, []
    for name, v in zip(FIELDS[:5], a):
        st, n = intlike(v)
        if st == "bad":
            k, X = exact(v)
            reasons.append(name + ("-" + k if k in ("nan", "inf") else "-fractional" if X is not None else "-type"))
        soft |= st == "soft"
        vals.append(n)
    k, S_ = exact(a[5])
    if S_ is None:
        reasons.append("second-" + ("type" if k == "nonnum" else k))
    soft |= k in ("big", "dec")
    if reasons:
        return ("malformed", reasons)
    y, mo, d, h, mi = vals
    if not (0 <= mo <= 11):
        reasons.append("month-range")
    if not (0 <= h <= 23):
        reasons.append("hour-range")
    if not (0 <= mi <= 59):
        reasons.append("minute-range")
    if not (0 <= S_ < 60):
        reasons.append("second-range")
    if not (-9999 <= y <= 9999):
        reasons.append("year-range")
    if not (1 <= d <= (dim(y, mo + 1) if 0 <= mo <= 11 and -9999 <= y <= 9999 else 31)):
        reasons.append("day-range")
    if reasons:
        return ("malformed", reasons)
    return ("valid", E(y, mo + 1, d, h, mi, 0) + S_, soft)


def judge_bdt(ctx, arrays):
    c = client(ctx.profile)
    items = [dict(v=a, w=enc(a), exp=bdt_expect(a)) for a in arrays]
    r = c.eval(BDT_PROG, [{"input": it["w"]} for it in items], take=2, timeout=300)
    if "results" not in r:
        raise RuntimeError("bdt program did not compile: %r" % (r,))
    redo = []
    for it, res in zip(items, r["results"]):
        ctx.evals += 1
        wit = dict(input=show(it["v"]), input_wire=it["w"], task="bdt")
        if res.get("panic"):
            ctx.v("panic:%s" % norm_loc(res["panic"]["loc"]), msg=res["panic"]["msg"],
                  expected="error" if it["exp"][0] == "malformed" else "a result", **wit)
            redo.append(it)
            continue
        if res["end"][0] != "end" or len(res["outs"]) != 1:
            ctx.v("bdt:bundle-failed", end=res["end"], **wit)
            continue
        for (name, _), o in zip(BDT_OPS, dec(res["outs"][0][0])):
            judge_bdt_op(ctx, name, o, it, wit)
        note_bdt(ctx, it)
    if redo:
        cases = [{"input": [enc(k), it["w"]]} for it in redo for k in range(len(BDT_OPS))]
        r = c.eval(BDT_SINGLE, cases, take=2, timeout=300)
        idx = 0
        for it in redo:
            wit = dict(input=show(it["v"]), input_wire=it["w"], task="bdt")
            for k, (name, _) in enumerate(BDT_OPS):
                res = r["results"][idx]
                idx += 1
                if res.get("panic"):
                    ctx.v("panic:%s" % norm_loc(res["panic"]["loc"]), msg=res["panic"]["msg"], op=name, **wit)
                elif res["end"][0] == "end" and len(res["outs"]) == 1:
                    judge_bdt_op(ctx, name, dec(res["outs"][0][0]), it, wit)
            note_bdt(ctx, it)


def note_bdt(ctx, it):
    exp = it["exp"]
    if exp[0] == "malformed":
        ctx.distinct.add(hash(("bdt", "+".join(exp[1]), show(it["v"], 60))))
    else:
        fl = exp[1].numerator // exp[1].denominator
        if POS_LO <= fl < POS_HI:
            b = bdt(fl)
            ctx.distinct.add(hash(("bdt", b[0], b[1], b[2], exp[1].denominator != 1, len(it["v"]))))


def judge_bdt_op(ctx, name, o, it, wit):
    exp = it["exp"]
    ok = len(o) == 2
    wit = dict(wit, op=name)
    if exp[0] == "malformed":
        if name != "mktime" and exp[1] == ["not-an-array"]:
            return          # strftime also takes epochs; judged in the epoch task
        if ok:
            ctx.v("%s:bdt:%s:accepted" % (name, "+".join(exp[1])), observed=show(o[1]), expected="error", **wit)
        return
    _, X, soft = exp
    fl = X.numerator // X.denominator
    dom = domain(X)
    cls = ("frac" if X.denominator != 1 else "whole") + (":neg" if X < 0 else "")
    if not ok:
        if dom == "pos" and not soft:
            ctx.v("%s:bdt:rejected:%s" % (name, cls), observed="error", expected=str(float(X)), **wit)
        else:
            ctx.o("bdt %s: error for %s" % (name, "year -9999/9999" if dom != "pos" else "integral float / literal in an integer field"))
        return
    if name == "mktime":
        rv = numval(o[1])
        good = rv is not None and (rv == X if X.denominator == 1 else abs(rv - X) < tol(X))
        what = "mktime:bdt:wrong-instant:%s" % cls
    else:
        t = text_of(o[1])
        good = t is not None
        what = "%s:bdt:not-a-string" % name
        if good and 0 <= bdt(fl)[0] <= 9999:
            inst = parse_iso(t)
            # the text names the second containing the instant (a fraction within 1 us of the next second may carry)
            good = inst is not None and (inst == fl or (X.denominator != 1 and abs(inst - X) < 1 + tol(X)))
            what = "%s:bdt:wrong-instant:%s" % (name, cls)
    if not good and name == "mktime" and rv is not None and frac_cause(X, rv):
        what = "mktime:bdt:%s" % frac_cause(X, rv)
    if not good:
        if dom == "pos":
            ctx.v(what, observed=show(o[1]), expected=str(float(X)) if X.denominator != 1 else str(int(X)), **wit)
        else:
            ctx.o("bdt %s: wrong instant in year -9999/9999" % name)
    elif ctx.sample is None and dom == "pos" and name == "mktime":
        ctx.sample = {"task": "bdt", "profile": ctx.profile, "input": show(it["v"]), "mktime": show(o[1])}


# ------------------------------------------------------------------------------------------
# task "iso": independently generated ISO-8601 / RFC 3339 texts -> fromdate
# ------------------------------------------------------------------------------------------

ISO_PROG = T + "[t(fromdate), t(fromdateiso8601)]"


def judge_iso(ctx, items):
    """items: dicts {text | value, mode: strict|if-answered|error|observe, variant, num, den}"""
    c = client(ctx.profile)
    ws = [enc(S(it["text"])) if "text" in it else it["value"] for it in items]
    r = c.eval(ISO_PROG, [{"input": w} for w in ws], take=2, timeout=300)
    if "results" not in r:
        raise RuntimeError("iso program did not compile: %r" % (r,))
    for it, w, res in zip(items, ws, r["results"]):
        ctx.evals += 1
        wit = dict(input=it.get("text", show(dec(w))), input_wire=w, task="iso", item=it)
        if res.get("panic"):
            ctx.v("panic:%s" % norm_loc(res["panic"]["loc"]), msg=res["panic"]["msg"], **wit)
            continue
        if res["end"][0] != "end" or len(res["outs"]) != 1:
            ctx.v("iso:bundle-failed", end=res["end"], **wit)
            continue
        a, b = dec(res["outs"][0][0])
        if enc(a) != enc(b):
            ctx.v("fromdateiso8601:differs-from-fromdate", fromdate=show(a), fromdateiso8601=show(b), **wit)
        ok = len(a) == 2
        mode, variant = it["mode"], it["variant"]
        if mode == "error":
            if ok:
                ctx.v("fromdate:%s:accepted" % variant, observed=show(a[1]), expected="error", **wit)
            ctx.distinct.add(hash(("iso", variant, it.get("text", show(dec(w), 40)))))
            continue
        if mode == "observe":
            ctx.o("fromdate %s: %s" % (variant, "answered" if ok else "error"))
            continue
        X = Fraction(int(it["num"]), int(it["den"]))
        if not ok:
            if mode == "strict":
                ctx.v("fromdate:rejected:%s" % variant, observed="error", expected=str(float(X)), **wit)
            else:
                ctx.o("fromdate %s: error (acceptance not judged)" % variant)
            continue
        rv = numval(a[1])
        if X.denominator == 1 and "frac" not in variant:
            good = rv == X
        else:
            good = rv is not None and abs(rv - X) < tol(X)
        if not good:
            ctx.v("fromdate:wrong-instant:%s" % variant, observed=show(a[1]),
                  expected=str(int(X)) if X.denominator == 1 else "%r within 1 us" % float(X), **wit)
        b_ = bdt(X.numerator // X.denominator)
        ctx.distinct.add(hash(("iso", variant, b_[0], b_[1], it.get("off"))))
        if ctx.sample is None and mode == "strict" and "offset" in variant:
            ctx.sample = {"task": "iso", "profile": ctx.profile, "input": it["text"], "fromdate": show(a[1])}


# ------------------------------------------------------------------------------------------
# task "strp": strptime / fromdate / mktime on inputs of the wrong type
# ------------------------------------------------------------------------------------------

WRONG_PROG = T + '[t(mktime), t(fromdate), t(strptime("%s")), t(strptime("%%s"))]' % SFMT


def judge_wrongtype(ctx, values):
    c = client(ctx.profile)
    ws = [enc(v) for v in values]
    r = c.eval(WRONG_PROG, [{"input": w} for w in ws], take=2, timeout=120)
    for v, w, res in zip(values, ws, r["results"]):
        ctx.evals += 1
        wit = dict(input=show(v), input_wire=w, task="wrongtype")
        if res.get("panic"):
            ctx.v("panic:%s" % norm_loc(res["panic"]["loc"]), msg=res["panic"]["msg"], **wit)
            continue
        outs = dec(res["outs"][0][0])
        names = ["mktime", "fromdate", "strptime", "strptime"]
        for name, o in zip(names, outs):
            if name == "mktime" and isinstance(v, list):
                continue
            if name != "mktime" and isinstance(v, Str):
                continue
            if len(o) == 2:
                ctx.v("%s:wrong-input-type:accepted" % name, observed=show(o[1]), expected="error", **wit)
        ctx.distinct.add(hash(("wrongtype", show(v, 60))))
    # `now` is outside the property (no statement about the clock): observed only
    import time
    t0 = time.time()
    r = c.eval("[now, (now | gmtime | mktime), (now | todate | fromdate)]", [{"input": None}], take=2, timeout=60)
    res = r["results"][0]
    if not res.get("panic") and res["end"][0] == "end" and res["outs"]:
        n = dec(res["outs"][0][0])
        nv = numval(n[0])
        near = nv is not None and abs(float(nv) - t0) < 30
        ctx.o("now: %s, %s of the driver's clock (observed, not judged)" % (
            "a float" if isinstance(n[0], float) else "not a float", "within 30 s" if near else "NOT within 30 s"))
    else:
        ctx.o("now: failed (observed, not judged)")


# ------------------------------------------------------------------------------------------
# workloads (everything derives from VERIF_SEED)
# ------------------------------------------------------------------------------------------

NAN, INF = float("nan"), float("inf")
I64 = (-(2 ** 63), 2 ** 63 - 1)


def edge_ints(thorough, rng):
    s = set()
    for x in (POS_LO, POS_HI, REP_LO, REP_HI, JIFF_LO, JIFF_HI, 0):
        for d in (-86401, -86400, -3601, -3600, -61, -60, -2, -1, 0, 1, 2, 59, 60, 3599, 3600, 86399, 86400):
            s.add(x + d)
    for y in list(range(1600, 2401)) + list(range(-4, 5)) + list(range(-9998, -9990)) + list(range(9990, 9999)):
        for m, d in ((1, 1), (2, 28), (3, 1), (12, 31)):     # Feb 29 / Mar 1 is t + 86400
            t = E(y, m, d)
            s.update((t - 1, t, t + 86399, t + 86400))
    for c in range(-9900, 9901, 100):
        for m, d in ((1, 1), (3, 1)):
            t = E(c, m, d)
            s.update((t - 86401, t - 1, t))
    years = range(-9999, 10001) if thorough else rng.sample(range(-9999, 10001), 2500)
    for y in years:
        t = E(y)
        s.update((t - 1, t))
    s.update(range(-130, 131))
    for k in (31, 32, 33, 53, 62, 63, 64):
        for sg in (1, -1):
            for d in (-2, -1, 0, 1, 2):
                s.add(sg * 2 ** k + d)
    for x in (10 ** 12, 10 ** 13, 10 ** 15, 10 ** 18, 10 ** 19, 10 ** 30, 2 ** 130):
        s.update((x, -x))
    for sg in (1, -1):
        for d in range(-3, 4):
            s.add(sg * OVF + d)
    # i with (i * 10^6 mod 2^64) inside the representable range: i = t (mod 2^58)
    for k in range(-32, 32):
        if k:
            for j in (0, 1, -1, 951782400, -62135596800, POS_HI - 1, POS_LO, 2 ** 31):
                x = k * 2 ** 58 + j
                if I64[0] <= x <= I64[1]:
                    s.add(x)
    return sorted(s)


def reps_of_int(i, rng, all_reps):
    out = [i]
    cand = []
    if I64[0] <= i <= I64[1]:
        cand.append(Big(i))
    if abs(i) < 10 ** 300:
        cand.append(float(i))
    cand.append(Dec(rng.choice(["%d.0", "%de0", "%d.000"]) % i))
    if all_reps:
        return out + cand
    return out + ([rng.choice(cand)] if rng.random() < 0.5 else [])


def random_int(rng):
    r = rng.random()
    if r < 0.5:
        return rng.randrange(POS_LO, POS_HI)
    if r < 0.6:
        return rng.randrange(REP_LO - 10 ** 9, REP_HI + 10 ** 9)
    if r < 0.7:
        return rng.choice((1, -1)) * rng.getrandbits(rng.randrange(1, 64))
    if r < 0.8:
        return rng.randrange(I64[0], I64[1] + 1)
    if r < 0.85:
        return rng.randrange(-100 * OVF, 100 * OVF)
    if r < 0.9:
        return rng.randrange(-32, 32) * 2 ** 58 + rng.randrange(POS_LO, POS_HI)     # wraps into range
    return rng.randrange(-2 ** 33, 2 ** 33)


def random_typed_int(rng):
    i = random_int(rng)
    r = rng.random()
    if r < 0.7:
        return i
    if r < 0.8 and I64[0] <= i <= I64[1]:
        return Big(i)
    if r < 0.9:
        return float(i)
    return Dec("%d.0" % i)


FRAC_EDGES = [1e-7, -1e-7, 5e-324, -5e-324, 0.9999995, -0.9999995, 0.999999, -0.999999, 5e-7, -5e-7, 1e-6, -1e-6,
              0.1 + 0.2, -0.0, 0.0, 0.5, -0.5, 1.5, -1.5, 59.9999999, 86399.9999999, -1.0000001, -86400.0000001,
              2 ** 31 - 0.5, -(2 ** 31) - 0.5, 2 ** 32 + 0.25, float(2 ** 53), -float(2 ** 53), 1e15 + 0.5, 1e18, -1e18,
              1e19, -1e19, 1e300, -1e300, 1.7976931348623157e308, float(OVF) + 0.5, -float(OVF) - 0.5,
              JIFF_HI + 0.5, JIFF_LO - 0.5, JIFF_HI - 0.5, JIFF_LO + 0.5,
              float(POS_LO), float(POS_HI), float(REP_LO), float(REP_HI),
              math.nextafter(float(POS_LO), -INF), math.nextafter(float(POS_HI), -INF),
              math.nextafter(float(REP_LO), -INF), math.nextafter(float(REP_HI), INF),
              Dec("1e400"), Dec("-1e400"), Dec("1e-400"), Dec("-1e-400"), Dec("0.123456"), Dec("-0.123456"),
              Dec("%d.000001" % POS_LO), Dec("%d.999999" % (POS_LO - 1)), Dec("%d.999999" % (POS_HI - 1)),
              Dec("%d.000001" % POS_HI), Dec("%d.999999" % (REP_LO - 1)), Dec("%d.000001" % REP_HI),
              Dec("%d.999999" % (REP_HI - 1)), Dec("1.7e9"), Dec("-1.7E+9"), Dec("17e8"), Dec("2.5e11"), Dec("1e13"),
              Dec("9223372036854.775807"), Dec("9223372036854.775808"), Dec("-9223372036854.775809")]

REJECTABLE = [NAN, -NAN, INF, -INF, None, True, False, S("0"), S(""), S("1970-01-01T00:00:00Z"), Str(b"\xff", False),
              Str(b"0", False), Obj([]), Obj([(S("a"), 1)]), [], [0], [1970, 0, 1, 0, 0, 0, 4, 0], [[1970]]]


def random_fractional(rng):
    r = rng.random()
    if r < 0.45:
        s = rng.randrange(-2 ** 31, 2 ** 32)
    elif r < 0.8:
        s = rng.randrange(POS_LO, POS_HI)
    elif r < 0.9:
        s = rng.randrange(-100, 100)
    else:
        s = rng.choice((POS_LO, POS_HI - 1, E(2000, 2, 29), E(1900, 3, 1) - 1, 0, -1, E(1, 1, 1), E(0, 1, 1) - 1)) + rng.randrange(-2, 3)
    k = rng.randrange(1, 10)
    fr = rng.randrange(10 ** k)
    if rng.random() < 0.1:
        fr = rng.choice((0, 1, 10 ** k - 1, 5 * 10 ** (k - 1)))
    text = "%s%d.%0*d" % ("-" if s < 0 else "", abs(s), k, fr)
    r = rng.random()
    if r < 0.6:
        return float(text)
    if r < 0.9:
        return Dec(text)
    return float(text) * rng.random()


YEAR_E = [-10000, -9999, -9998, -1, 0, 1, 4, 100, 400, 1600, 1900, 1970, 2000, 2024, 2100, 9998, 9999, 10000, 32767, 32768,
          -32768, -32769, 65536 + 1970, -65536 + 1970, 2 ** 31, 2 ** 32 + 1970, 10 ** 19, -10 ** 19, Big(1970), 1970.0, 1970.5,
          Dec("1970"), Dec("1970.0"), S("1970"), None, NAN, INF, True, [1970]]
MONTH_E = [-1, 0, 1, 11, 12, 13, 127, 128, -128, -129, 255, 256, 257, 2 ** 32, 2 ** 63 - 1, -2 ** 63, 10 ** 19, Big(1), 0.0, 0.5,
           Dec("1.0"), None, S("0"), NAN, True]
DAY_E = [0, 1, 28, 29, 30, 31, 32, -1, 127, 128, 255, 257, 2 ** 32 + 1, 10 ** 19, 1.0, 1.5, None, S("1"), NAN]
HOUR_E = [-1, 0, 23, 24, 25, 127, 128, 256, 2 ** 32, 12.0, 0.5, None]
MIN_E = [-1, 0, 59, 60, 61, 127, 128, 256, 2 ** 32, 30.0, None]
SEC_E = [-1, -0.5, -0.0, 0, 0.5, 1e-9, 59, 59.5, 59.999999, 59.9999999999, 59.99999999999999, 60, 60.5, 61, 127, 128, 255,
         256, 256.5, 1e10, -1e10, 1e300, NAN, INF, -INF, Big(5), Dec("5.5"), Dec("59.999999"), S("5"), None, 2 ** 63,
         -2 ** 63, 10 ** 19, True, [0]]
FIELD_E = [YEAR_E, MONTH_E, DAY_E, HOUR_E, MIN_E, SEC_E]
JUNK = [0, 3, 364, None, S("x"), -1, 10 ** 19, [], 1.5]


def random_bdt(rng):
    y = rng.randrange(-9998, 9999) if rng.random() < 0.6 else rng.choice(
        (-9998, -400, -1, 0, 1, 4, 100, 1600, 1900, 1969, 1970, 1972, 2000, 2023, 2024, 2100, 2400, 9996, 9998))
    mo = rng.randrange(12)
    d = rng.randrange(1, dim(y, mo + 1) + 1) if rng.random() < 0.7 else rng.choice((1, 28, dim(y, mo + 1)))
    sec = rng.randrange(60)
    if rng.random() < 0.3:
        k = rng.randrange(1, 10)
        sec = float("%d.%0*d" % (sec, k, rng.randrange(10 ** k)))
    a = [y, mo, d, rng.randrange(24), rng.randrange(60), sec]
    r = rng.random()
    if r < 0.3:
        pass
    elif r < 0.8:
        f = rng.randrange(6)
        a[f] = rng.choice(FIELD_E[f])
    elif r < 0.92:
        for f in rng.sample(range(6), 2):
            a[f] = rng.choice(FIELD_E[f])
    elif r < 0.97:
        return a[:rng.randrange(6)]
    else:
        return rng.choice([None, 0, S("1970-01-01T00:00:00Z"), Obj([]), True, 1.5])
    if rng.random() < 0.4:
        a += [rng.choice(JUNK) for _ in range(rng.randrange(1, 5))]
    return a


COMMON_OFFS = list(range(-720, 841, 15))


def random_iso(rng, edges):
    """one fromdate item (JSON-able dict)"""
    r = rng.random()
    if r < 0.12:
        return rng.choice(ISO_FIXED)
    inst = rng.choice(edges) if rng.random() < 0.3 else rng.randrange(POS_LO, POS_HI)
    if not (POS_LO <= inst < POS_HI):
        inst = rng.randrange(POS_LO, POS_HI)
    q = rng.random()
    off = None if q < 0.25 else rng.choice(COMMON_OFFS) if q < 0.7 else rng.randrange(-1439, 1440)
    k = 0 if rng.random() < 0.5 else rng.randrange(1, 10)
    fr = rng.randrange(10 ** k) if k else 0
    frac = ".%0*d" % (k, fr) if k else ""
    X = Fraction(inst) + (Fraction(fr, 10 ** k) if k else 0)
    ly = bdt(inst + (off or 0) * 60)[0]
    it = dict(num=str(X.numerator), den=str(X.denominator), off=off)
    variant = "rfc3339" + (":offset" if off is not None else "") + (":frac" if k else "")
    style = rng.random()
    if not (0 <= ly <= 9999) or style < 0.08:
        it.update(text=iso_text(inst, off, frac, year_style="exp"), mode="if-answered", variant="expanded-year" + (":frac" if k else ""))
    elif style < 0.16:
        t = iso_text(inst, off, frac)
        it.update(text=t.replace("T", "t").replace("Z", "z"), mode="if-answered", variant="lowercase" + (":frac" if k else ""))
    elif style < 0.24:
        it.update(text=iso_text(inst, off, frac, sep=" "), mode="if-answered", variant="space-separator" + (":frac" if k else ""))
    elif style < 0.32 and k:
        it.update(text=iso_text(inst, off, frac.replace(".", ",")), mode="if-answered", variant="comma-fraction")
    elif style < 0.36 and off == 0:
        it.update(text=iso_text(inst, off, frac).replace("+00:00", "-00:00"), mode="strict", variant=variant + ":-00:00")
    else:
        it.update(text=iso_text(inst, off, frac), mode="strict", variant=variant)
    return it


def _fixed(text, mode, variant, inst=None):
    it = dict(text=text, mode=mode, variant=variant)
    if inst is not None:
        X = Fraction(inst)
        it.update(num=str(X.numerator), den=str(X.denominator))
    return it


ISO_FIXED = [
    _fixed("1955-11-12T22:04:00-08:00", "strict", "rfc3339:offset", E(1955, 11, 13, 6, 4, 0)),
    _fixed("0000-01-01T00:00:00+01:00", "strict", "rfc3339:offset", E(-1, 12, 31, 23)),
    _fixed("1970-01-01T00:00:00.123456Z", "strict", "rfc3339:frac", Fraction(123456, 10 ** 6)),
    _fixed("1969-12-31T23:59:59.5Z", "strict", "rfc3339:frac", Fraction(-1, 2)),
    _fixed("2000-02-29T23:59:59+23:59", "strict", "rfc3339:offset", E(2000, 2, 29, 0, 0, 59)),
    _fixed("9998-12-31T23:59:59-23:59", "observe", "instant-in-year-9999"),
    _fixed("9999-12-31T23:59:59-01:00", "error", "out-of-range"), _fixed("9999-12-31T23:00:00-23:59", "error", "out-of-range"),
    _fixed("-009999-01-01T00:00:00+01:00", "error", "out-of-range"),
    _fixed("1970-02-29T00:00:00Z", "error", "invalid-date"), _fixed("1900-02-29T00:00:00Z", "error", "invalid-date"),
    _fixed("2000-02-30T00:00:00Z", "error", "invalid-date"), _fixed("2023-04-31T00:00:00Z", "error", "invalid-date"),
    _fixed("2023-00-10T00:00:00Z", "error", "invalid-date"), _fixed("2023-13-10T00:00:00Z", "error", "invalid-date"),
    _fixed("2023-01-00T00:00:00Z", "error", "invalid-date"), _fixed("2023-01-32T00:00:00Z", "error", "invalid-date"),
    _fixed("2023-01-01T25:00:00Z", "error", "invalid-time"), _fixed("2023-01-01T00:60:00Z", "error", "invalid-time"),
    _fixed("2023-01-01T00:00:61Z", "error", "invalid-time"), _fixed("2023-01-01T00:00:00+00:60", "error", "invalid-offset"),
    _fixed("", "error", "not-a-date"), _fixed("abc", "error", "not-a-date"), _fixed("0", "error", "not-a-date"),
    _fixed("1970-01-01", "error", "not-a-date"), _fixed("T00:00:00Z", "error", "not-a-date"),
    _fixed("1970-01-01T00:00:00Zjunk", "error", "not-a-date"), _fixed("1970-01-01T00:00:00.Z", "error", "not-a-date"),
    _fixed("1970-01-01T23:59:60Z", "observe", "leap-second"), _fixed("1970-01-01T24:00:00Z", "observe", "24:00:00"),
    _fixed("1970-01-01T00:00:00", "observe", "no-offset"), _fixed("19700101T000000Z", "observe", "basic-format"),
    _fixed("1970-01-01T00:00:00+0100", "observe", "offset-without-colon"), _fixed("1970-01-01T00:00:00+01", "observe", "offset-hours-only"),
    _fixed("1970-01-01T00:00:00+01:00[Europe/Vienna]", "observe", "rfc9557-suffix"),
    _fixed("1970-01-01T00:00:00.1234567890123Z", "observe", ">9-fraction-digits"), _fixed("1970-01-01T00:00Z", "observe", "no-seconds"),
    dict(value=None, mode="error", variant="non-string"), dict(value=enc(0), mode="error", variant="non-string"),
    dict(value=enc([S("1970-01-01T00:00:00Z")]), mode="error", variant="non-string"),
    dict(value=enc(Obj([])), mode="error", variant="non-string"), dict(value=enc(Str(b"1970-01-01T00:00:00Z", False)), mode="observe", variant="byte-string"),
]


# ------------------------------------------------------------------------------------------
# tasks, replay, main
# ------------------------------------------------------------------------------------------

BATCH = {'epoch': 1000, 'fmt': 150, 'bdt': 2000, 'iso': 4000, 'wrongtype': 1000}


def val_of_wire(w):
    """wire -> model value, keeping the big-integer representation"""
    if isinstance(w, list):
        return [val_of_wire(x) for x in w]
    if isinstance(w, dict) and "I" in w:
        n = int(w["I"])
        return Big(n) if I64[0] <= n <= I64[1] else n
    if isinstance(w, dict) and "o" in w:
        return Obj([(val_of_wire(k), val_of_wire(x)) for k, x in w["o"]])
    return dec(w)


def gen_task(t):
    kind, idx, nparts, profile, seed, n, thorough = t
    import random
    rng = random.Random(f"c20/{seed}/{kind}/{idx}")
    if kind == "edge":
        edges = edge_ints(thorough, random.Random(f"c20/{seed}/edges"))[idx::nparts]
        vals = []
        for i in edges:
            vals += reps_of_int(i, rng, thorough)
        return "epoch", vals
    if kind == "special":
        return "epoch", FRAC_EDGES + REJECTABLE
    if kind == "int":
        return "epoch", [random_typed_int(rng) for _ in range(n)]
    if kind == "frac":
        return "epoch", [random_fractional(rng) for _ in range(n)]
    if kind == "fmt":
        edges = edge_ints(False, random.Random(f"c20/{seed}/edges"))
        vals = []
        for _ in range(n):
            r = rng.random()
            if r < 0.3:
                i = rng.choice(edges)
                if not (REP_LO <= i < REP_HI):
                    i = rng.randrange(POS_LO, POS_HI)
                vals.append(i)
            elif r < 0.65:
                vals.append(rng.randrange(POS_LO, POS_HI))
            else:
                v = random_fractional(rng)
                k, X = exact(v)
                vals.append(v if X is not None and REP_LO <= X < REP_HI - 1 else 0.5)
        return "fmt", vals
    if kind == "bdt":
        return "bdt", [random_bdt(rng) for _ in range(n)]
    if kind == "iso":
        edges = edge_ints(False, random.Random(f"c20/{seed}/edges"))
        items = [random_iso(rng, edges) for _ in range(n)]
        if idx == 0:
            items = ISO_FIXED + items
        return "iso", items
    if kind == "wrongtype":
        return "wrongtype", REJECTABLE + [0, 1.5, Big(0), Dec("1.0"), S("1970-01-01T00:00:00Z"), S("x")]
    raise ValueError(kind)


JUDGES = {"epoch": judge_epochs, "fmt": judge_fmt, "bdt": judge_bdt, "iso": judge_iso, "wrongtype": judge_wrongtype}


def task(t):
    profile = t[3]
    ctx = Ctx(profile)
    jk, payload = gen_task(t)
    try:
        for i in range(0, len(payload), BATCH[jk]):
            JUDGES[jk](ctx, payload[i:i + BATCH[jk]])
    except WorkerDied as e:
        ctx.inconc.append(classify_death(e))
    return {"kind": t[0], "viol": ctx.viol, "inconc": ctx.inconc, "obs": ctx.obs, "distinct": list(ctx.distinct),
            "evals": ctx.evals, "sample": ctx.sample, "n": len(payload)}


def replay(run):
    import json
    rec = json.load(open(run.replay))
    w = rec["witness"]
    ctx = Ctx(w.get("profile", "verif"))
    tk = w.get("task")
    if tk == "iso":
        judge_iso(ctx, [w["item"]])
    elif tk in ("epoch", "fmt", "bdt", "wrongtype"):
        JUDGES[tk](ctx, [val_of_wire(w["input_wire"])])
    else:
        raise SystemExit("BROKEN-CHECK: unknown replay task %r" % tk)
    for key, wit in ctx.viol:
        run.violation(key, wit)
    print("replayed %s on profile %s: %d violation(s); recorded key %s %s" % (
        w.get("input"), ctx.profile, len(ctx.viol), rec["key"], "reproduced" if any(k == rec["key"] for k, _ in ctx.viol) else "NOT reproduced"))
    run.finish({"evaluations": ctx.evals, "distinct_nontrivial": len(ctx.distinct), "rule": "replay of one witness",
                "samples": [w.get("input")], "observed_not_judged": ctx.obs})


def main():
    run = Run("C20")
    for p in ("verif", "release"):
        PATHS[p] = build.jaqmon(p)
    if run.replay:
        return replay(run)
    thorough = run.tier == "thorough"
    model_days = selfcheck_model(thorough, run.rng("model"))
    seed = run.seed
    tasks = []
    nparts = 16 if thorough else 6
    for profile in ("verif", "release"):
        for i in range(nparts):
            tasks.append(("edge", i, nparts, profile, seed, 0, thorough))
        tasks.append(("special", 0, 1, profile, seed, 0, thorough))
        tasks.append(("wrongtype", 0, 1, profile, seed, 0, thorough))
    def spread(kind, total, per):
        k = max(2, (total + per - 1) // per)
        for i in range(k):
            tasks.append((kind, i, k, ("verif", "release")[i % 2], seed, total // k, thorough))
    spread("int", run.size(30000, 1600000), 40000)
    spread("frac", run.size(24000, 600000), 20000)
    spread("fmt", run.size(5000, 100000), 4000)
    spread("bdt", run.size(24000, 400000), 20000)
    spread("iso", run.size(20000, 400000), 20000)
    # longest first
    order = {"fmt": 0, "frac": 1, "int": 2, "edge": 3, "bdt": 4, "iso": 5}
    tasks.sort(key=lambda t: order.get(t[0], 9))
    evals = 0
    per_kind, inputs = {}, {}
    distinct = set()
    obs, vcount = {}, {}
    samples = Samples(10, run.rng("samples"))
    seen_sample_kinds = {}
    for out in par.pmap(task, tasks, run.jobs):
        for key, w in out["viol"]:
            vcount[key] = vcount.get(key, 0) + 1
            run.violation(key, w)
        for cls in out["inconc"]:
            run.inconc(cls)
        for k, n in out["obs"].items():
            obs[k] = obs.get(k, 0) + n
        evals += out["evals"]
        per_kind[out["kind"]] = per_kind.get(out["kind"], 0) + out["evals"]
        inputs[out["kind"]] = inputs.get(out["kind"], 0) + out["n"]
        distinct.update(out["distinct"])
        if out["sample"] and seen_sample_kinds.get(out["kind"], 0) < 2:
            seen_sample_kinds[out["kind"]] = seen_sample_kinds.get(out["kind"], 0) + 1
            samples.add(out["sample"])
    epochs = sum(inputs.get(k, 0) for k in ("edge", "special", "int", "frac", "fmt"))
    run.finish({
        "evaluations": evals,
        "distinct_nontrivial": len(distinct),
        "rule": "typed epochs (machine int, big int, double, decimal literal) from an edge set (range limits +-1 s, every "
                "leap-day / year boundary of the 400-year cycle 1600..2400, all century boundaries, year starts, +-2^31, "
                "+-2^53, +-2^63, +-2^63/10^6, values whose 64-bit microsecond product wraps back into range) and random "
                "ones, fractional epochs with 1-9 digits, broken-down arrays with one or two fields replaced by edge "
                "values, independently generated RFC 3339 texts with offsets and fractions; every case is evaluated by "
                "the real interpreter (both profiles) and judged against the driver's calendar model. A case is "
                "non-trivial when the property demands a definite outcome for it (year -9998..9998: the model's answer; "
                "outside -9999..9999 / non-finite / non-numeric / malformed: an error); distinct = (task, number "
                "representation, domain, year, month, day class, fraction digits / malformed reason / text variant) "
                "abstractions, hashed",
        "samples": samples.items,
        "epochs_fed": epochs, "inputs_per_task": inputs, "evaluations_per_task": per_kind,
        "filters_per_epoch": [n for n, _ in CORE_OPS], "formats": [f for f, _, _ in FORMATS],
        "model_days_crosschecked_against_datetime": model_days,
        "profiles": ["verif", "release"], "tasks": len(tasks),
        "violation_counts_by_key": vcount,
        "observed_not_judged": obs,
    }, assumptions=[
        "the driver's days-from-civil / civil-from-days (cross-checked against Python datetime for years 1..9999 at "
        "start-up) is the proleptic Gregorian calendar also for years <= 0",
        "typed injection through jaqmon's codec builds the intended number representation",
        "'to the microsecond' is read as: differs from the input time by less than 1 us (+ two ulps of the input double + 1 ns of floating-point slack)",
        "TZ=UTC is pinned by the client; other zones are not exercised",
    ])


if __name__ == "__main__":
    main()
