"""C17 — the command line prints each output once, in order, and reports the true outcome.

Trace monitor against a Python model of the CLI contract (docs/cli.dj):

* every generated invocation (option set x filter x input streams over stdin or 1-3 files) is run
  with the REAL `jaq` binary in a scratch directory under a pinned environment;
* the model predicts the complete event trace: each output (bytes produced by this file's own
  formatter from the typed value), each `stderr` marker, where the run stops, whether an
  `Error:` message must be present, and the exit status;
* FILTER SEMANTICS are not re-modelled: for every input value the outputs (and how many
  further inputs `input`/`inputs` pulled before each output) come from the real interpreter
  through jaqmon; the model owns everything around it: option parsing, which value the main
  loop feeds next ("every input value is consumed exactly once and in order by either the main
  loop or input/inputs, per file"), -n/-s/-R/--raw-input0/--from, variable bindings, $ARGS,
  $ENV, input_filename, -f, output text / terminators, exit statuses;
* ordering ("each output completely before the next is computed", "stops at the first
  uncaught error after having written all earlier outputs") is observed by sending stdout and
  stderr to ONE pipe and interleaving `stderr` markers in the filter: byte order in the pipe
  is the order of the write calls. A sample is cross-checked with `strace -e trace=write`.

Model uncertainty -> the case is counted as "not judged", never a violation."""
import functools
import hashlib
import json
import os
import random
import re
import shutil
import subprocess
import sys
import time

sys.path.insert(0, os.path.dirname(os.path.dirname(os.path.abspath(__file__))))
from vlib import build, par, values as V
from vlib.client import WorkerDied, classify_death
from vlib.codec import Big, Dec, Obj, S, Str, dec, enc, show
from vlib.run import Distinct, Run, Samples

# the manual is silent on `-n` with several files; the code runs the filter once per file and
# stdlib.dj speaks of "the current input file" for input/inputs/input_filename: modelled per file
NULL_INPUT_PER_FILE = True

TAKE = 400
SENT = {"s": "c2ab73656e74696e656cc2bb"}       # «sentinel»: stands for the unparsable rest of a file
PRELUDE = ("def stderr: mark(.); def halt_error($c): mark(.) | halt($c); def halt_error: halt_error(5); "
           "def env: $ENV; def input_filename: $__fn; ")
ENV_A = "alpha"
ENV_B = 'b "q" é'
SGR = re.compile(rb"\x1b\[[0-9;]*m")
EXT_FMT = {"json": "json", "yaml": "yaml", "yml": "yaml", "cbor": "cbor", "toml": "toml", "xml": "xml",
           "xhtml": "xml", "csv": "csv", "tsv": "tsv"}


class Unjudged(Exception):
    """the model does not know what the manual demands here (or the printing of a value is
    outside the well-understood subset): the case is skipped and counted"""


# ---------------------------------------------------------------------------------------
# the formatter (formats.dj §XJON, cli.dj §Output): typed value -> bytes
# ---------------------------------------------------------------------------------------
_ESC = {0x22: b'\\"', 0x5c: b"\\\\", 0x0a: b"\\n", 0x09: b"\\t", 0x0d: b"\\r", 0x08: b"\\b", 0x0c: b"\\f"}


def fmt_text(b):
    out = bytearray(b'"')
    for c in b:
        if c in _ESC:
            out += _ESC[c]
        elif c < 0x20:
            out += b"\\u%04x" % c
        elif c == 0x7f:
            raise Unjudged("print:DEL")
        else:
            out.append(c)
    out += b'"'
    return bytes(out)


def fmt_bytes(b):
    out = bytearray(b'b"')
    for c in b:
        if c in _ESC:
            out += _ESC[c]
        elif c < 0x20:
            out += b"\\x%02x" % c
        elif c >= 0x7f:
            raise Unjudged("print:high-byte-in-byte-string")
        else:
            out.append(c)
    out += b'"'
    return bytes(out)


def fmt_num(v):
    if isinstance(v, Big):
        return str(v.n).encode()
    if isinstance(v, int):
        return str(v).encode()
    if isinstance(v, Dec):
        return v.text.encode()
    if v != v or v in (float("inf"), float("-inf")):
        raise Unjudged("print:non-finite")
    r = repr(v)
    if "e" in r or "E" in r:
        raise Unjudged("print:float-exponent")
    return r.encode()


def sort_entries(items):
    try:
        return sorted(items, key=functools.cmp_to_key(lambda a, b: V.cmp(a[0], b[0])))
    except Exception:
        raise Unjudged("print:sort-keys-order")


def fmt_json(v, indent, sort_keys, level=0):
    """indent None = compact (no blank after ':' / ','), else the string repeated per level"""
    if v is None:
        return b"null"
    if v is True:
        return b"true"
    if v is False:
        return b"false"
    if isinstance(v, (int, float, Dec, Big)):
        return fmt_num(v)
    if isinstance(v, Str):
        return fmt_text(v.b) if v.text else fmt_bytes(v.b)
    if isinstance(v, list):
        if not v:
            return b"[]"
        parts = [fmt_json(x, indent, sort_keys, level + 1) for x in v]
        op, cl = b"[", b"]"
    elif isinstance(v, Obj):
        if not v.items:
            return b"{}"
        items = sort_entries(v.items) if sort_keys else v.items
        colon = b":" if indent is None else b": "
        parts = [fmt_json(k, indent, sort_keys, level + 1) + colon + fmt_json(x, indent, sort_keys, level + 1)
                 for k, x in items]
        op, cl = b"{", b"}"
    else:
        raise Unjudged("print:unknown-value")
    if indent is None:
        return op + b",".join(parts) + cl
    ind = indent.encode()
    inner = ind * (level + 1)
    return op + b"\n" + b",\n".join(inner + p for p in parts) + b"\n" + ind * level + cl


def layout_indent(A):
    lay = A["layout"]
    if lay == "c":
        return None
    if lay == "tab":
        return "\t"
    if lay.startswith("indent:"):
        return " " * int(lay.split(":")[1])
    return "  "


def out_format(A):
    o = A["out"]
    if o in ("json", "to:json"):
        return "json"
    if o in ("r", "to:raw"):
        return "raw"
    if o in ("raw0", "to:raw0"):
        return "raw0"
    if o.startswith("to:"):
        return o[3:]
    raise Unjudged("out:" + o)


def fmt_output(v, A, c):
    """bytes written for one output value, or ('fatal', None) when the value cannot be written
    in the chosen format (exit 2)"""
    f = out_format(A)
    if A["join"] and A["out"] == "json":
        f = "raw"        # -j enables raw output (code comment; jq's documented behaviour)
    ind = layout_indent(A)
    if f in ("json", "raw", "raw0"):
        if f != "json" and isinstance(v, Str):
            if f == "raw0" and b"\0" in v.b:
                return None
            body = v.b
        else:
            body = fmt_json(v, ind, A["sort"])
        if f == "raw0":
            return body + b"\0"
        return body + (b"" if A["join"] else b"\n")
    # other formats: the body text comes from the library writer (its correctness is C14's);
    # the document separators / terminators are the model's (formats.dj, cli.dj)
    r = c.request({"op": "fmt", "dir": "write", "format": f, "val": enc(v), "indent": "  ",
                   "sort_keys": False, "sep_space": True, "join": True})
    if "error" in r:
        return None
    if "bytes" not in r:
        raise Unjudged("fmt-write:" + f)
    b = bytes.fromhex(r["bytes"])
    if f in ("yaml", "csv", "tsv"):
        if not b.endswith(b"\n"):
            raise Unjudged("fmt-write:no-newline")
        body = b[:-1]
        if f == "yaml":
            return b"---\n" + body + b"\n...\n"
        return body + b"\n"
    if f in ("toml", "cbor"):
        return b
    if f == "xml":
        return b + b"\n"
    raise Unjudged("fmt-write:" + f)


def marker_ok(v, top=True):
    if isinstance(v, Str):
        if not v.text:
            return False
        return V.is_valid_utf8(v.b)     # `stderr` prints invalid UTF-8 lossily: not judged
    if isinstance(v, (float, Dec, Big)):
        return False
    if isinstance(v, list):
        return all(marker_ok(x, False) for x in v)
    if isinstance(v, Obj):
        return all(marker_ok(k, False) and marker_ok(x, False) for k, x in v.items)
    return True


def marker_bytes(w):
    """what `stderr` prints: raw, compact, without newline (stdlib.dj)"""
    v = dec(w)
    if not marker_ok(v):
        raise Unjudged("marker:value-class")
    if isinstance(v, Str):
        return v.b
    return fmt_json(v, None, False)


# ---------------------------------------------------------------------------------------
# generators
# ---------------------------------------------------------------------------------------
STRS = ["", "a", "b c", "é", "\U0001F600", 'q"uote', "back\\slash", "line\nbreak", "tab\there", "\u0001",
        "xyz", "-dash", "0"]
KEYS = ["a", "b", "c", "é", "B", "aa", "k 1"]
FILE_NAMES = ["a.json", "b.json", "data", "in.txt", "sub/c.json", "my file.json", "é.json", "x.JSON", "v.dat"]
ODD_EXT_NAMES = ["t.yaml", "t.csv", "t.toml", "t.xml", "t.cbor", "t.tsv", "t.yml"]
GARBAGE = ["[1, 2", '{"a": ', '"abc', "]", "}", "tru", "[1 2]", '{"a" 1}', "@"]

XFMT = {
    "yaml": [b"a: 1\nb: [x, y]\n", b"- 1\n- 2\n---\n3\n", b"", b"k: v\n---\n[1, 2]\n---\ntrue\n", b"a: [1\n"],
    "yml": [b"- a\n- b\n", b"1\n---\n2\n---\n3\n"],
    "csv": [b"a,b\n1,2\n", b"", b"x\ny\nz\n"],
    "tsv": [b"a\tb\n1\t2\n", b"p\tq\n"],
    "toml": [b"a = 1\n[b]\nc = \"x\"\n", b"a = \n", b"", b"k = [1, 2]\n"],
    "xml": [b"<a x=\"1\">t</a>", b"<a><b/>text</a>\n", b"<a>"],
    "xhtml": [b"<p>hi</p>"],
    "cbor": [bytes([1, 0x82, 1, 2]), bytes([0x83, 1]), b"", bytes([0x61, 0x61, 0xf6, 0xa1, 0x61, 0x6b, 0x03])],
    "json": None,
}


def gen_value(rng, depth=0):
    r = rng.random()
    if depth >= 2 or r < 0.6:
        k = rng.random()
        if k < 0.4:
            return rng.choice([0, 1, 2, 3, 4, 5, -1, 7, 10, 255, 10 ** 18, 2 ** 64 + 1])
        if k < 0.5:
            return rng.choice([None, None, True, False])
        if k < 0.9:
            return S(rng.choice(STRS))
        return Dec(rng.choice(["1.5", "0.25", "1.10", "1e2", "-2.0"]))
    if r < 0.8:
        return [gen_value(rng, depth + 1) for _ in range(rng.randrange(0, 4))]
    ks = rng.sample(KEYS, rng.randrange(0, 4))
    return Obj([(S(k), gen_value(rng, depth + 1)) for k in ks])


def json_text(rng, vals, garbage=None):
    parts = []
    for v in vals:
        ind = rng.choice([None, None, "  ", " "])
        parts.append(fmt_json(v, ind, False))
    if garbage is not None:
        parts.append(garbage.encode())
    seps = [b" ", b"\n", b"\n\n", b"  ", b"\t", b" \n "]
    out = bytearray()
    if rng.random() < 0.15:
        out += rng.choice([b"\n", b" ", b"  \n"])
    for i, p in enumerate(parts):
        if i:
            out += rng.choice(seps)
        out += p
    if garbage is None or rng.random() < 0.5:
        out += rng.choice([b"", b"\n", b"\n", b" \n"])
    return bytes(out)


def marker(rng, G):
    G["m"] += 1
    return '("<m%d>"|stderr|empty)' % G["m"]


PURE = [".", ".", ".", ".[]", "., .", "empty", "[.]", "{a: .}", "length", "type", "tojson", "tostring",
        ". as $v | [$v, $v]", ".[0]", ".a", "select(. != null)", "not", "(., 1)", "range(2)", "range(3)",
        '"s\\n\\"q"', "1.5", "[1,[2,{\"b\":[]}]]", '{"b":2,"a":{"d":1,"c":[]}}', '{(1):2, "a":3, (null):[]}',
        "tobytes", '"a\\u0000b"', "null", "false", "true, null", "null, 7", "limit(3; repeat(.))",
        ".. ", "[.[]?]", "(.[]?, .)", "try error catch .", "[., .]|.[]", "{a:1,b:2}|.[]", '"x"|tobytes',
        "keys?", "to_entries?", "if type == \"number\" then .+1 else . end", '"\\(.)"', "[limit(2; .[]?)]",
        "(1,2) as $i | [$i, .]", "first(.[]?)", "[.[]?]|length", "-1", "-(1)"]
ERR = ["error", 'error("boom")', "error(null)", "error({a:1})", "if . == %K then error else . end",
       "if . == %K then error(\"k\") else . end", ".[] | error", "(., error)", '("x"|error), .']
HALT = ["halt", "halt(%N)", "halt_error", '"bye\\n"|halt_error(%N)', "if . == %K then halt(%N) else . end",
        "{a:1}|halt_error", "., halt(%N)", '"msg"|halt_error', "(., halt)", "tojson|halt_error(%N)", "halt_error(%N)"]
INPUT = ["input", "[., input]", "inputs", "[inputs]", "first(inputs)", "[limit(2; inputs)]",
         "input as $x | [., $x]", "reduce inputs as $x (0; .+1)", "foreach inputs as $x (0; .+1)",
         "[., input, input]", "(input|tojson|stderr|empty), .", "limit(1; inputs)", "., input", "input, .",
         "[.] + [inputs]", "(inputs|select(. == %K))", "[., (input|[., input])]", "input | input",
         "if . == %K then input else . end", "., (inputs | [.])", "first(inputs, .)", "limit(2; ., inputs)",
         "[input_filename, input]", "(., input) | [., input_filename]"]
VARS = ["$ARGS.positional", "$ARGS.named", "$ARGS", "$ENV.C17_A", "$ENV.C17_B", "$ENV.NOPE", "env.C17_A",
        "input_filename", "[input_filename, .]", "$ENV.HOME|type", "$ENV|has(\"LOG\")", "$ARGS.positional[0]",
        "$ARGS.named|length", "$ENV.NO_COLOR"]
BADPROG = ["+", ".a.", "nosuchfilter", "$nosuchvar", "if . then 1", "[1,", ". |", "1 as x | x", "{a b}",
           "nosuch(1)", "def f: 1", ". as [$a | $a", "\"unterminated", ".[", "input(1)", "halt(1;2)"]


def fill(rng, t, G):
    if "%K" in t:
        t = t.replace("%K", rng.choice(G["K"]))
    while "%N" in t:
        t = t.replace("%N", str(rng.choice([0, 1, 2, 3, 4, 5, 7, 42, 100, 255])), 1)
    return t


def g_leaf(rng, G):
    r = rng.random()
    if r < 0.36:
        return rng.choice(PURE)
    if r < 0.42:
        return fill(rng, rng.choice(ERR), G)
    if r < 0.49:
        return fill(rng, rng.choice(HALT), G)
    if r < 0.78:
        return fill(rng, rng.choice(INPUT), G)
    if r < 0.90:
        t = rng.choice(VARS + ["$" + n for n in G["vars"]] * 3)
        if t in ("$ARGS", "$ARGS.named"):
            G["named_whole"] = True
        return t
    return marker(rng, G) + ", ."


def g_expr(rng, G, d):
    if d <= 0:
        return g_leaf(rng, G)
    r = rng.random()
    if r < 0.30:
        return g_leaf(rng, G)
    a = g_expr(rng, G, d - 1)
    if r < 0.50:
        b = g_expr(rng, G, d - 1)
        if rng.random() < 0.4:
            return "(%s), %s, (%s)" % (a, marker(rng, G), b)
        return "(%s), (%s)" % (a, b)
    if r < 0.66:
        return "(%s) | (%s)" % (a, g_expr(rng, G, d - 1))
    if r < 0.72:
        return "limit(%d; %s)" % (rng.choice([0, 1, 1, 2, 3]), a)
    if r < 0.77:
        return "first(%s)" % a
    if r < 0.83:
        return "[%s]" % a
    if r < 0.90:
        return "if . == %s then (%s) else (%s) end" % (rng.choice(G["K"]), a, g_expr(rng, G, d - 1))
    if r < 0.95:
        return "(%s) as $v | [$v, .]" % a
    return "def f: %s; f, f" % a


def gen_prog(rng, G):
    e = g_expr(rng, G, rng.choice([0, 1, 1, 2, 2, 3]))
    r = rng.random()
    if r < 0.25:
        e = "%s, (%s), %s" % (marker(rng, G), e, marker(rng, G))
    elif r < 0.50:
        e = '(%s) | (("<"|stderr|empty), ., (">"|stderr|empty))' % e
        G["m"] += 1
    elif r < 0.58:
        e = "(%s) | stderr" % e
        G["m"] += 1
    elif r < 0.63:
        e = "(%s) | ((tojson|stderr|empty), .)" % e
        G["m"] += 1
    return e


def gen_raw_content(rng, sep):
    n = rng.choice([0, 1, 2, 3, 4])
    pool = [b"ab", b"", b"c d", "é".encode(), b'"q"', b"1", b"[1,2]", b"\xff\xfe", b"x\ty", b"0"]
    if sep == b"\0":
        pool.append(b"l1\nl2")
    recs = [rng.choice(pool) for _ in range(n)]
    b = sep.join(recs)
    if n and rng.random() < 0.6:
        b += sep
    return b


def gen_abstract(rng):
    A = {}
    r = rng.random()
    scen = ("normal" if r < 0.86 else "usage" if r < 0.90 else "compile" if r < 0.94 else
            "bind_io" if r < 0.96 else "bind_argjson" if r < 0.98 else "progfile_missing")
    A["scen"] = scen
    # ---- input options
    r = rng.random()
    A["inmode"] = ("json" if r < 0.55 else "R" if r < 0.67 else "raw0" if r < 0.75 else "from:json" if r < 0.80
                   else "from:raw" if r < 0.83 else "from:raw0" if r < 0.86 else "ext" if r < 0.95 else "from:x")
    A["null_input"] = rng.random() < 0.22
    A["slurp"] = rng.random() < 0.22
    A["from"] = None
    if A["inmode"] == "from:x":
        A["from"] = rng.choice(["yaml", "toml", "csv", "tsv", "xml", "cbor"])
    # ---- output options
    r = rng.random()
    A["out"] = ("json" if r < 0.55 else "r" if r < 0.73 else "raw0" if r < 0.81 else "to:json" if r < 0.85 else
                "to:raw" if r < 0.88 else "to:raw0" if r < 0.90 else
                "to:" + rng.choice(["yaml", "csv", "tsv", "toml", "cbor", "xml"]))
    A["join"] = A["out"] in ("json", "r") and rng.random() < 0.2
    r = rng.random()
    A["layout"] = ("default" if r < 0.5 else "c" if r < 0.8 else "tab" if r < 0.88 else
                   "indent:%d" % rng.choice([0, 1, 3, 4, 7]))
    A["sort"] = rng.random() < 0.25
    A["color"] = rng.choice([None] * 8 + ["C", "M"])
    if A["out"].startswith("to:") and out_format(A) not in ("json", "raw", "raw0"):
        A["layout"] = "default"
        A["sort"] = False
        A["color"] = None
    A["exit_status"] = rng.random() < 0.35
    A["no_color_env"] = rng.choice(["1", "1", "", None])
    A["mode"] = "merged" if rng.random() < 0.7 else "split"
    # ---- bindings
    binds = []
    names = rng.sample(["x", "y", "cfg", "v1"], rng.choice([0, 0, 1, 1, 2, 3]))
    kinds = ["arg", "argjson", "slurpfile", "rawfile"]
    for i, n in enumerate(names):
        k = rng.choice(kinds)
        if k == "arg":
            binds.append({"kind": k, "name": n, "str": rng.choice(STRS + ["-n", "--", "1 2", "{}"])})
        elif k == "argjson":
            v = gen_value(rng)
            binds.append({"kind": k, "name": n, "text": fmt_json(v, rng.choice([None, " "]), False).decode(),
                          "wire": enc(v)})
        elif k == "slurpfile":
            vs = [gen_value(rng) for _ in range(rng.randrange(0, 4))]
            binds.append({"kind": k, "name": n, "file": "sf%d.json" % i, "content": json_text(rng, vs).hex(),
                          "wires": [enc(v) for v in vs], "missing": False})
        else:
            content = rng.choice([b"", b"plain\n", b"two\nlines", "é\n".encode(), b"\xff raw", b'{"a":1}\n'])
            binds.append({"kind": k, "name": n, "file": "rf%d.txt" % i, "content": content.hex(), "missing": False})
    A["binds"] = binds
    A["args"] = None
    if rng.random() < 0.2:
        A["args"] = [rng.choice(["p", "q r", "é", "", "1", "a.json", "-j"]) for _ in range(rng.randrange(0, 4))]
    # ---- sources
    use_stdin = rng.random() < 0.28
    srcs = []
    nfiles = 1 if use_stdin else rng.choice([1, 1, 1, 1, 2, 2, 2, 3, 3])
    fault = rng.random()
    inmode = A["inmode"]
    for i in range(nfiles):
        s = {"stdin": use_stdin, "missing": False, "trunc": None, "values": None}
        if inmode in ("json", "from:json"):
            n = rng.choice([0, 1, 1, 2, 3, 3, 4, 5, 6])
            vals = [gen_value(rng) for _ in range(n)]
            if fault < 0.16 and rng.random() < 0.6:
                s["trunc"] = rng.choice(GARBAGE)
            s["values"] = [enc(v) for v in vals]
            s["content"] = json_text(rng, vals, s["trunc"]).hex()
            s["name"] = rng.choice(FILE_NAMES + (ODD_EXT_NAMES if inmode == "from:json" else []))
            s["fmt"] = "json"
        elif inmode in ("R", "from:raw"):
            s["content"] = gen_raw_content(rng, b"\n").hex()
            s["name"] = rng.choice(FILE_NAMES + ODD_EXT_NAMES)
            s["fmt"] = "raw"
        elif inmode in ("raw0", "from:raw0"):
            s["content"] = gen_raw_content(rng, b"\0").hex()
            s["name"] = rng.choice(FILE_NAMES + ODD_EXT_NAMES)
            s["fmt"] = "raw0"
        elif inmode == "ext":
            if use_stdin:          # nothing to determine from: JSON
                A["inmode"] = "json"
                vals = [gen_value(rng) for _ in range(rng.randrange(0, 4))]
                s["values"] = [enc(v) for v in vals]
                s["content"] = json_text(rng, vals).hex()
                s["fmt"] = "json"
            else:
                ext = rng.choice([e for e in XFMT if e != "json"])
                s["content"] = rng.choice(XFMT[ext]).hex()
                s["name"] = rng.choice(["d", "sub/e", "f g"]) + "." + ext
                s["fmt"] = EXT_FMT[ext]
        else:
            f = A["from"]
            s["content"] = rng.choice(XFMT[f]).hex()
            s["name"] = rng.choice(FILE_NAMES + ODD_EXT_NAMES)
            s["fmt"] = f
        if use_stdin:
            s["name"] = "<stdin>"
        srcs.append(s)
    if not use_stdin:
        # distinct names, except that the same file may deliberately be given twice
        seen = {}
        for i, s in enumerate(srcs):
            if s["name"] in seen:
                if rng.random() < 0.4:
                    j = seen[s["name"]]
                    for k in ("content", "values", "trunc", "fmt"):
                        s[k] = srcs[j][k]
                else:
                    base, dot, ext = s["name"].rpartition(".")
                    s["name"] = (base + str(i) + dot + ext) if dot else s["name"] + str(i)
            seen.setdefault(s["name"], i)
        if 0.16 <= fault < 0.23:
            m = {"stdin": False, "missing": True, "name": rng.choice(["nope.json", "sub/none", "missing"]),
                 "trunc": None, "values": None, "content": "", "fmt": "json"}
            pos = rng.randrange(0, len(srcs) + 1)
            srcs.insert(pos, m)
            srcs[:] = srcs[:3]
            if not any(s["missing"] for s in srcs):
                srcs[-1] = m
    A["sources"] = srcs
    # ---- program
    ks = ["1", "2", "3", "0", "null", '"a"']
    for s in srcs:
        for w in (s.get("values") or [])[:3]:
            try:
                v = dec(w)
                if v is None or isinstance(v, (bool, int)) or (isinstance(v, Str) and len(v.b) < 8):
                    ks.append(fmt_json(v, None, False).decode())
            except Unjudged:
                pass
    G = {"K": ks, "vars": [b["name"] for b in binds], "m": 0, "named_whole": False}
    r = rng.random()
    if r < 0.12 and A["args"] is None and use_stdin:
        A["prog"] = None          # no FILTER argument: `.`
    else:
        A["prog"] = gen_prog(rng, G)
    A["markers"] = G["m"]
    A["from_file"] = A["prog"] is not None and rng.random() < 0.12
    if G["named_whole"] and len({b["kind"] for b in binds}) > 1 and not A["sort"]:
        A["sort"] = True          # binding order of $ARGS.named across option kinds is not documented
    if out_format(A) not in ("json", "raw", "raw0"):
        A["join"] = False
    # ---- faults before the run
    if scen == "compile":
        A["prog"] = rng.choice(BADPROG)
        A["from_file"] = rng.random() < 0.2
    elif scen == "usage":
        end = rng.random() < 0.35
        A["usage_at_end"] = end
        if end:
            A["usage_bad"] = rng.choice([["--arg", "k"], ["--argjson"], ["--indent"], ["--from"], ["--to"],
                                         ["--rawfile", "k"], ["--slurpfile"], ["-L"], ["--arg"]])
        else:
            A["usage_bad"] = rng.choice([["--foo"], ["-x"], ["-nxc"], ["--stream"], ["--seq"], ["-a"], ["--jsonargs"],
                                         ["--unbuffered"], ["--indent", "x"], ["--indent", "-1"], ["--from", "foo"],
                                         ["--to", "bar"], ["--ascii-output"], ["--nul-input"], ["-Z"],
                                         ["--stream-errors"], ["--from", "JSON"]])
    elif scen == "bind_io":
        k = rng.choice(["slurpfile", "rawfile"])
        A["binds"].append({"kind": k, "name": "zz", "file": "absent.%s" % k, "content": "", "wires": [],
                           "missing": True})
    elif scen == "bind_argjson":
        A["binds"].append({"kind": "argjson", "name": "zz", "text": rng.choice(["[1,", "1 2", "", "{a}", "nul"]),
                           "wire": None, "bad": True})
    elif scen == "progfile_missing":
        A["from_file"] = True
        A["prog"] = A["prog"] or "."
        A["progfile_absent"] = True
    return A


# ---------------------------------------------------------------------------------------
# abstract invocation -> argv / files / stdin
# ---------------------------------------------------------------------------------------
def realize(A, rng):
    files = {}
    opts = []          # each: list of tokens; single short flags are mergeable

    def flag(short, long_):
        opts.append(["-" + short] if rng.random() < 0.6 else ["--" + long_])

    if A["null_input"]:
        flag("n", "null-input")
    if A["slurp"]:
        flag("s", "slurp")
    im = A["inmode"]
    if im == "R":
        flag("R", "raw-input")
    elif im == "raw0":
        opts.append(["--raw-input0"])
    elif im.startswith("from:"):
        opts.append(["--from", A["from"] or im[5:]])
    o = A["out"]
    if o == "r":
        flag("r", "raw-output")
    elif o == "raw0":
        opts.append(["--raw-output0"])
    elif o.startswith("to:"):
        opts.append(["--to", o[3:]])
    if A["join"]:
        flag("j", "join-output")
    lay = A["layout"]
    if lay == "c":
        flag("c", "compact-output")
    elif lay == "tab":
        opts.append(["--tab"])
    elif lay.startswith("indent:"):
        opts.append(["--indent", lay.split(":")[1]])
    if A["sort"]:
        flag("S", "sort-keys")
    if A["color"] == "C":
        flag("C", "color-output")
    elif A["color"] == "M":
        flag("M", "monochrome-output")
    if A["exit_status"]:
        flag("e", "exit-status")
    for b in A["binds"]:
        k = b["kind"]
        if k == "arg":
            opts.append(["--arg", b["name"], b["str"]])
        elif k == "argjson":
            opts.append(["--argjson", b["name"], b["text"]])
        else:
            opts.append(["--" + k, b["name"], b["file"]])
            if not b["missing"]:
                files[b["file"]] = b["content"]
    rng.shuffle(opts)
    # positionals
    prog = A["prog"]
    pos = []           # (kind, token)
    front = []         # option groups that must precede the filter argument
    if prog is not None:
        if A["from_file"]:
            pname = rng.choice(["p.jq", "prog", "sub/f.jq"])
            front.append(["-f"] if rng.random() < 0.5 else ["--from-file"])
            if not A.get("progfile_absent"):
                body = prog + rng.choice(["", "\n", "  # comment\n"])
                files[pname] = body.encode().hex()
            pos.append(("filter", pname))
        else:
            pos.append(("filter", prog))
    stdin = None
    for s in A["sources"]:
        if s["stdin"]:
            stdin = s["content"]
        else:
            pos.append(("file", s["name"]))
            if not s["missing"]:
                files[s["name"]] = s["content"]
    args_before_filter = False
    filter_dash = bool(pos) and pos[0][0] == "filter" and pos[0][1].startswith("-")
    has_files = any(k == "file" for k, _ in pos)
    if A["args"] is not None:
        if filter_dash:
            if has_files:
                return None       # the `--` needed before the filter would swallow `--args`
            args_before_filter = True
        elif not has_files and rng.random() < 0.3:
            args_before_filter = True
        else:
            pos.append(("argsflag", "--args"))
        for a in A["args"]:
            pos.append(("arg", a))
    # distribute the option groups over the slots between positionals
    nslots = len(pos) + 1
    slots = [[] for _ in range(nslots)]
    for g in opts:
        r = rng.random()
        i = 0 if r < 0.55 else nslots - 1 if r < 0.75 else rng.randrange(nslots)
        slots[i].append(g)
    slots[0] = front + slots[0] if rng.random() < 0.5 else slots[0] + front
    if args_before_filter:
        slots[0].insert(rng.randrange(len(slots[0]) + 1), ["--args"])
    # `--`: needed when a positional starts with '-'; everything after it is positional
    need_dd = None
    for i, (k, t) in enumerate(pos):
        if k != "argsflag" and t.startswith("-"):
            need_dd = i
            break
    dd = need_dd
    if dd is None and pos and rng.random() < 0.12:
        dd = rng.randrange(len(pos))
    if dd is not None:
        # `--args` itself is an option: it must stay before the `--`
        ai = next((i for i, (k, _) in enumerate(pos) if k == "argsflag"), None)
        if ai is not None and dd <= ai:
            dd = ai + 1 if ai + 1 < len(pos) else None
    if dd is not None:
        for i in range(dd + 1, nslots):
            slots[dd].extend(slots[i])
            slots[i] = []
    if A["scen"] == "usage":
        if A["usage_at_end"]:
            if dd is not None:
                return None
            slots[nslots - 1].append(A["usage_bad"])
        else:
            lim = nslots if dd is None else dd + 1
            i = rng.randrange(lim)
            slots[i].insert(rng.randrange(len(slots[i]) + 1), A["usage_bad"])
    argv = []

    def emit(groups):
        i = 0
        while i < len(groups):
            g = groups[i]
            if len(g) == 1 and re.fullmatch(r"-[A-Za-z]", g[0]) and g is not A.get("usage_bad"):
                merged = g[0]
                while (i + 1 < len(groups) and len(groups[i + 1]) == 1 and re.fullmatch(r"-[A-Za-z]", groups[i + 1][0])
                       and groups[i + 1] is not A.get("usage_bad") and rng.random() < 0.5):
                    i += 1
                    merged += groups[i][0][1:]
                argv.append(merged)
            else:
                argv.extend(g)
            i += 1

    for i in range(nslots):
        emit(slots[i])
        if i < len(pos):
            if dd is not None and i == dd:
                argv.append("--")
            argv.append(pos[i][1])
    if A["scen"] == "usage" and A["usage_at_end"] and argv[-len(A["usage_bad"]):] != A["usage_bad"]:
        return None
    return {"A": A, "argv": argv, "files": files, "stdin": stdin}


# ---------------------------------------------------------------------------------------
# the model
# ---------------------------------------------------------------------------------------
class Exp:
    def __init__(self, events, tail, exits, errval=None):
        self.events = events      # [("o"|"m", bytes)]
        self.tail = tail          # None | "error" | "report"
        self.exits = set(exits)
        self.errval = errval
        self.consumed_main = 0
        self.consumed_input = 0
        self.last_out_source = None
        self.nsources_run = 0


def split_records(content, sep):
    if content == b"":
        return []
    if content.endswith(sep):
        content = content[:-len(sep)]
    return content.split(sep)


def source_stream(s, A, c, quirks=()):
    """(values as wire list, error_after: bool) for one source, per cli.dj §Input"""
    f = s["fmt"]
    content = bytes.fromhex(s["content"])
    slurp = A["slurp"]
    if f == "json":
        vals, err = list(s["values"]), s["trunc"] is not None
    elif f == "raw":
        if slurp:
            return [enc(Str(content, True))], False
        return [enc(Str(x, True)) for x in split_records(content, b"\n")], False
    elif f == "raw0":
        vals, err = [enc(Str(x, True)) for x in split_records(content, b"\0")], False
        if "raw0-empty-file" in quirks and content == b"" and not s["stdin"]:
            vals = [enc(Str(b"", True))]
    else:
        r = c.request({"op": "fmt", "dir": "read", "format": f, "bytes": s["content"], "slurp": False})
        if "vals" not in r:
            raise Unjudged("fmt-read:" + f)
        vals, err = r["vals"], r["error"] is not None
    if slurp and not (f == "toml" and "toml-no-slurp" in quirks):
        if err:
            return [], True
        return [vals], False
    return vals, err


def bindings(A):
    named = []
    for b in A["binds"]:
        k = b["kind"]
        if k == "arg":
            named.append((b["name"], enc(S(b["str"]))))
        elif k == "argjson":
            named.append((b["name"], b["wire"]))
        elif k == "slurpfile":
            named.append((b["name"], list(b["wires"])))
        else:
            named.append((b["name"], enc(Str(bytes.fromhex(b["content"]), True))))
    return named


def cli_env(A, home):
    env = {"PATH": "/usr/bin:/bin", "HOME": home, "TZ": "UTC", "C17_A": ENV_A, "C17_B": ENV_B}
    if A["no_color_env"] is not None:
        env["NO_COLOR"] = A["no_color_env"]
    return env


QUIRKS = {   # deviations confirmed by hand: only used to give their violations a canonical key
    "raw0-empty-file": "raw-input0:empty-file:yields-one-empty-string",
    "toml-no-slurp": "slurp:toml:value-not-wrapped-in-array",
    "e-last-file": "exit-status:several-files:only-outputs-of-last-file-counted",
}


def applicable_quirks(A):
    q = []
    srcs = A["sources"]
    if any(s["fmt"] == "raw0" and not s["missing"] and s["content"] == "" and not s["stdin"] for s in srcs):
        q.append("raw0-empty-file")
    if A["slurp"] and any(s["fmt"] == "toml" for s in srcs):
        q.append("toml-no-slurp")
    if A["exit_status"] and len(srcs) > 1:
        q.append("e-last-file")
    return q


def predict(R, c, home="/HOME", quirks=()):
    A = R["A"]
    scen = A["scen"]
    if scen == "usage":
        return Exp([], "error", {2})
    if scen == "bind_io":
        return Exp([], "error", {2})
    if scen == "bind_argjson":
        return Exp([], "error", {2, 5})      # "jaq yields an error": the status is not documented
    if scen == "progfile_missing":
        return Exp([], "error", {2})
    prog = A["prog"] if A["prog"] is not None else "."
    mprog = PRELUDE + prog
    named = bindings(A)
    # order of $ARGS.named: command-line order within one option kind (several kinds: only with -S)
    order = {"arg": 0, "rawfile": 1, "slurpfile": 2, "argjson": 3}
    cmdline = []
    argv = R["argv"]
    i = 0
    while i < len(argv):
        a = argv[i]
        if a == "--":
            break
        if a in ("--arg", "--argjson", "--slurpfile", "--rawfile"):
            if i + 1 < len(argv):
                cmdline.append(argv[i + 1])
            i += 3
        elif a in ("--from", "--to", "--indent"):
            i += 2
        else:
            i += 1
    names = [n for n, _ in named]
    if sorted(cmdline) != sorted(names):
        raise Unjudged("binding-order")
    by_kind = sorted(range(len(named)), key=lambda i: (order[A["binds"][i]["kind"]], cmdline.index(names[i])))
    ARGS = {"o": [[enc(S("positional")), [enc(S(a)) for a in (A["args"] or [])]],
                  [enc(S("named")), {"o": [[enc(S(named[i][0])), named[i][1]] for i in by_kind]}]]}
    env = cli_env(A, home)
    ENVV = {"o": [[enc(S(k)), enc(S(v))] for k, v in env.items()]}
    base_vars = [(n, w) for n, w in named] + [("ARGS", ARGS), ("ENV", ENVV)]
    # does it compile? (nothing is read, nothing is printed otherwise)
    r0 = c.eval(mprog, [], vars=base_vars + [("__fn", None)], take=TAKE)
    if "compile_error" in r0:
        return Exp([], "report", {3})
    if "compile_panic" in r0 or "results" not in r0:
        raise Unjudged("compile:" + ",".join(r0.keys()))
    ex = Exp([], None, {0})
    ev = ex.events
    NOLAST = object()
    last = NOLAST
    for si, s in enumerate(A["sources"]):
        if s["missing"]:
            ex.tail, ex.exits = "error", {2}
            return ex
        vals, err_after = source_stream(s, A, c, quirks)
        ex.nsources_run += 1
        if "e-last-file" in quirks:
            last = NOLAST
        if A["null_input"]:
            cases = [{"input": None, "inputs": vals + ([SENT] if err_after else [])}]
        else:
            cases = [{"input": vals[i], "inputs": vals[i + 1:] + ([SENT] if err_after else [])}
                     for i in range(len(vals))]
        results = []
        if cases:
            r = c.eval(mprog, cases, vars=base_vars + [("__fn", enc(S(s["name"])))], take=TAKE)
            if "results" not in r:
                raise Unjudged("eval:" + ",".join(r.keys()))
            results = r["results"]
        i = 0
        while True:
            if A["null_input"]:
                res, rest_n = results[0], len(vals)
            else:
                if i >= len(vals):
                    break
                res, rest_n = results[i], len(vals) - i - 1
                ex.consumed_main += 1
            if "outs" not in res:
                raise Unjudged("case:" + ",".join(res.keys()))
            limit = rest_n if err_after else None
            fx = res["fx"]
            prev = 0
            for w, fxlen, pulled, _t in res["outs"]:
                if limit is not None and pulled > limit:
                    if fxlen > prev:
                        raise Unjudged("marker-around-input-parse-error")
                    ex.tail, ex.exits = "error", {5}
                    return ex
                for m in fx[prev:fxlen]:
                    ev.append(("m", marker_bytes(m)))
                prev = fxlen
                v = dec(w)
                b = fmt_output(v, A, c)
                if b is None:
                    ex.tail, ex.exits = "error", {2}
                    return ex
                ev.append(("o", b))
                last = v
                ex.last_out_source = si
            if limit is not None and res["pulled"] > limit:
                if len(fx) > prev:
                    raise Unjudged("marker-around-input-parse-error")
                ex.tail, ex.exits = "error", {5}
                return ex
            for m in fx[prev:]:
                ev.append(("m", marker_bytes(m)))
            ex.consumed_input += res["pulled"]
            end = res["end"]
            if end[0] == "error":
                ex.tail, ex.exits, ex.errval = "error", {5}, end[2]
                return ex
            if end[0] == "halt":
                code = int(end[1])
                if not 0 <= code <= 255:
                    raise Unjudged("halt-code-range")
                ex.exits = {code}
                return ex
            if end[0] != "end":
                raise Unjudged("end:" + str(end[0]))
            if A["null_input"]:
                break
            i += 1 + res["pulled"]
        if err_after and not A["null_input"]:
            ex.tail, ex.exits = "error", {5}
            return ex
    if A["exit_status"]:
        ex.exits = {4} if last is NOLAST else {1} if (last is None or last is False) else {0}
    return ex


# ---------------------------------------------------------------------------------------
# running the real binary
# ---------------------------------------------------------------------------------------
_JAQ = None


def mon():
    """per-process jaqmon client; the binary was built once by main() (no cargo call per worker)"""
    p = os.environ.get("C17_JAQMON")
    return par.client("verif", path=p) if p else par.client("verif")


def jaq_path():
    global _JAQ
    if _JAQ is None:
        _JAQ = os.environ.get("C17_JAQ") or build.cli()
    return _JAQ


def materialize(R, d):
    for name, hx in R["files"].items():
        p = os.path.join(d, name)
        os.makedirs(os.path.dirname(p), exist_ok=True)
        with open(p, "wb") as f:
            f.write(bytes.fromhex(hx))


def run_cli(R, d, merged, wrap=None):
    A = R["A"]
    env = cli_env(A, d)
    cmd = (wrap or []) + [jaq_path()] + R["argv"]
    stdin = bytes.fromhex(R["stdin"]) if R["stdin"] is not None else b""
    p = subprocess.Popen(cmd, cwd=d, env=env, stdin=subprocess.PIPE, stdout=subprocess.PIPE,
                         stderr=subprocess.STDOUT if merged else subprocess.PIPE)
    try:
        out, err = p.communicate(stdin, timeout=60)
    except subprocess.TimeoutExpired:
        p.kill()
        p.communicate()
        return None
    return p.returncode, out, err or b""


def tail_ok(tail, exp):
    """the part of stderr after the predicted markers: presence/absence of an error message"""
    if exp.tail is None:
        return tail == b""
    t = SGR.sub(b"", tail)
    if exp.tail == "report":
        return len(t) > 0 and b"Error" in t
    if not (t.startswith(b"Error: ") and t.endswith(b"\n")):
        return False
    multi = False
    if exp.errval is not None:
        try:
            v = dec(exp.errval)
            multi = not (v is None or isinstance(v, (bool, int)) or (isinstance(v, Str) and b"\n" not in v.b))
        except Exception:
            multi = True
    if not multi and t.count(b"\n") != 1:
        return False
    return True


def compare(R, exp, obs, merged):
    """None if the observation matches the prediction, else (phenomenon, details)"""
    rc, out, err = obs
    A = R["A"]
    colour = A["color"] == "C"
    if colour:
        raw_out = out
        out = SGR.sub(b"", out)
    want_o = b"".join(b for k, b in exp.events if k == "o")
    want_m = b"".join(b for k, b in exp.events if k == "m")
    want_all = b"".join(b for _, b in exp.events)
    ph = None
    if merged:
        if not out.startswith(want_all):
            ph = stream_phenomenon(exp, out, merged=True)
        else:
            tail = out[len(want_all):]
            if not tail_ok(tail, exp):
                if tail == b"":
                    ph = "stderr:error-message-missing"
                elif exp.tail is None and SGR.sub(b"", tail).startswith(b"Error"):
                    ph = "stderr:error-message-unexpected"
                else:
                    ph = "stream:output-after-expected-stop"
    else:
        if out != want_o:
            ph = stream_phenomenon(exp, out, merged=False)
        elif not err.startswith(want_m):
            ph = "stderr:markers"
        elif not tail_ok(err[len(want_m):], exp):
            ph = "stderr:error-message-" + ("missing" if exp.tail else "unexpected")
    if ph is None and colour:
        needs = any(k == "o" for k, _ in exp.events) and not all_raw_strings(exp, A)
        if needs and b"\x1b[" not in raw_out:
            ph = "color:-C-without-colour"
    if ph is None and A["color"] != "C" and b"\x1b[" in out and b"\x1b" not in want_all:
        ph = "color:unexpected-colour"
    if ph is None and rc not in exp.exits:
        ph = "exit:expected-%s:observed-%s" % ("|".join(str(e) for e in sorted(exp.exits)), rc)
    return ph


def all_raw_strings(exp, A):
    return out_format(A) != "json" or A["join"]      # conservative: raw strings carry no colour


def stream_phenomenon(exp, out, merged):
    evs = [b for k, b in exp.events if merged or k == "o"]
    want = b"".join(evs)
    outs_only = b"".join(b for k, b in exp.events if k == "o")
    if merged and exp.tail is None and sorted(out) == sorted(want) and out != want:
        # same bytes, other order: can the observed stream be cut into the same events?
        return "order:stdout-vs-stderr-markers"
    if merged:
        # is the stdout part right but placed differently relative to the markers?
        rest = out
        ok = True
        for k, b in sorted(exp.events, key=lambda e: e[0] != "m"):
            if k == "m":
                if b in rest:
                    rest = rest.replace(b, b"", 1)
                else:
                    ok = False
        if ok and rest.startswith(outs_only) and exp.events:
            return "order:stdout-vs-stderr-markers"
    if want.startswith(out) or (merged and len(out) < len(want)):
        return "stream:output-missing"
    if out.startswith(want):
        return "stream:extra-output"
    n_exp = len(evs)
    return "stream:bytes-differ" if n_exp else "stream:unexpected-output"


# ---------------------------------------------------------------------------------------
# canonical keys
# ---------------------------------------------------------------------------------------
def in_class(A):
    srcs = A["sources"]
    n = "stdin" if srcs and srcs[0]["stdin"] else "1file" if len(srcs) == 1 else "files>1"
    fl = []
    if A["null_input"]:
        fl.append("n")
    if A["slurp"]:
        fl.append("s")
    fl.append(A["inmode"] if A["inmode"] != "from:x" else "from:" + str(A["from"]))
    if any(s["trunc"] for s in srcs):
        fl.append("truncated")
    if any(s["missing"] for s in srcs):
        fl.append("missing-file")
    return n + "," + ",".join(fl)


def out_class(A):
    fl = [A["out"]]
    if A["join"]:
        fl.append("j")
    if A["layout"] != "default":
        fl.append(A["layout"].split(":")[0])
    if A["sort"]:
        fl.append("S")
    if A["color"]:
        fl.append(A["color"])
    if A["exit_status"]:
        fl.append("e")
    return ",".join(fl)


def canonical_key(R, exp, obs, ph):
    A = R["A"]
    rc, out, err = obs
    srcs = A["sources"]
    if A["scen"] != "normal":
        return "%s|scenario=%s" % (ph, A["scen"] if A["scen"] != "usage" else "usage:" + " ".join(A["usage_bad"]))
    if ph.startswith("exit:"):
        return "%s|in=%s|e=%s" % (ph, in_class(A), int(A["exit_status"]))
    if ph.startswith("order:"):
        return "%s|out=%s" % (ph, A["out"])
    return "%s|in=%s|out=%s" % (ph, in_class(A), out_class(A))


# ---------------------------------------------------------------------------------------
# judging one invocation
# ---------------------------------------------------------------------------------------
def prog_shape(p):
    if p is None:
        return "<none>"
    p = re.sub(r'"(?:[^"\\]|\\.)*"', '"S"', p)
    p = re.sub(r"\b\d+\b", "N", p)
    return p


def judge(R, c, scratch, tag, do_strace=False):
    """returns a result dict; never raises for model uncertainty"""
    A = R["A"]
    res = {"status": "ok", "scen": A["scen"], "mode": A["mode"]}
    d = os.path.join(scratch, tag)
    os.makedirs(d, exist_ok=True)
    try:
        try:
            exp = predict(R, c, home=d)
        except Unjudged as u:
            res["status"] = "unjudged"
            res["why"] = str(u)
            return res
        except WorkerDied as e:
            res["status"] = "inconc"
            res["why"] = "jaqmon-" + classify_death(e)
            return res
        materialize(R, d)
        merged = A["mode"] == "merged"
        obs = run_cli(R, d, merged)
        if obs is None:
            res["status"] = "inconc"
            res["why"] = "cli-timeout"
            return res
        rc = obs[0]
        both = obs[1] + obs[2]
        if rc < 0 or rc == 134 or (rc == 101 and b"panicked at" in both):
            m = re.search(rb"panicked at ([^\n:]+:\d+)", both)
            exhausted = rc < 0 or rc == 134 or re.search(rb"capacity overflow|memory allocation|overflowed its stack", both)
            if m is None or exhausted:
                res["status"] = "inconc"       # resource exhaustion / signals: exempt
                res["why"] = "cli-crash"
                res["crash"] = {"argv": R["argv"], "rc": rc, "out": both[-300:].decode("utf-8", "replace")}
                return res
            res["status"] = "viol"            # the run neither printed the predicted outcome nor reported an error
            res["key"] = "panic:" + m.group(1).decode("utf-8", "replace")
            res["witness"] = witness(R, exp, obs, "panic")
            return res
        ph = compare(R, exp, obs, merged)
        res["exit"] = rc
        res["n_out"] = sum(1 for k, _ in exp.events if k == "o")
        res["n_mark"] = sum(1 for k, _ in exp.events if k == "m")
        res["tail"] = exp.tail
        res["main"] = exp.consumed_main
        res["input"] = exp.consumed_input
        if ph is not None:
            res["status"] = "viol"
            res["key"] = canonical_key(R, exp, obs, ph)
            res["witness"] = witness(R, exp, obs, ph)
            # does a deviation that was confirmed by hand explain the observation exactly?
            qs = applicable_quirks(A)
            for mask in range(1, 1 << len(qs)):
                sub = [q for i, q in enumerate(qs) if mask >> i & 1]
                try:
                    alt = predict(R, c, home=d, quirks=sub)
                except (Unjudged, WorkerDied):
                    continue
                if compare(R, alt, obs, merged) is None:
                    res["key"] = "+".join(QUIRKS[q] for q in sub)
                    res["known_shape"] = True
                    break
            return res
        if do_strace:
            res["strace"] = strace_check(R, exp, d)
        return res
    finally:
        shutil.rmtree(d, ignore_errors=True)


def witness(R, exp, obs, ph):
    def tx(b):
        return b.decode("utf-8", "backslashreplace")[:1500]
    return {"phenomenon": ph, "argv": R["argv"],
            "files": {k: tx(bytes.fromhex(v)) for k, v in R["files"].items()},
            "stdin": None if R["stdin"] is None else tx(bytes.fromhex(R["stdin"])),
            "mode": R["A"]["mode"],
            "expected_events": [[k, tx(b)] for k, b in exp.events][:60],
            "expected_tail": exp.tail, "expected_exit": sorted(exp.exits),
            "observed_exit": obs[0], "observed_stdout" + ("+stderr" if R["A"]["mode"] == "merged" else ""): tx(obs[1]),
            "observed_stderr": tx(obs[2]), "R": R}


WRITE_RE = re.compile(r'^(?:\d+\s+)?write\((\d+), "((?:[^"\\]|\\.)*)"(\.\.\.)?, \d+\)\s+= (-?\d+)')


def strace_check(R, exp, d):
    """cross-check of the one-pipe technique: the order of write(2) calls on fd 1 / fd 2 equals the
    predicted event order, and every output ends at a write boundary (it was flushed)"""
    log = os.path.join(d, ".strace.log")
    obs = run_cli(R, d, False, wrap=["strace", "-f", "-o", log, "-e", "trace=write", "-s", "1000000", "-xx"])
    if obs is None or not os.path.exists(log):
        return "unavailable"
    seq = []
    for line in open(log, "r", errors="replace"):
        m = WRITE_RE.match(line)
        if not m:
            continue
        fd, body, trunc, n = int(m.group(1)), m.group(2), m.group(3), int(m.group(4))
        if fd not in (1, 2) or n < 0 or trunc:
            continue
        b = bytes(int(x, 16) for x in re.findall(r"\\x([0-9a-f]{2})", body))
        seq.append((fd, b[:n]))
    stream = b"".join(b for _, b in seq)
    if R["A"]["color"] == "C":
        stream = SGR.sub(b"", stream)
    want = b"".join(b for _, b in exp.events)
    if not stream.startswith(want) or not tail_ok(stream[len(want):], exp):
        return "mismatch"
    if R["A"]["color"] == "C":
        return "ok"
    # flush boundaries
    ends = set()
    pos = 0
    for fd, b in seq:
        pos += len(b)
        ends.add(pos)
    pos = 0
    for k, b in exp.events:
        pos += len(b)
        if k == "o" and b and pos not in ends:
            return "ok-but-output-not-at-write-boundary"
    return "ok"


# ---------------------------------------------------------------------------------------
# shrinking (only to make the key of a violation canonical)
# ---------------------------------------------------------------------------------------
def shrink(R, c, scratch, tag, key):
    """drop options / bindings / files while the same phenomenon class persists"""
    A = R["A"]
    ph0 = key.split("|")[0]
    best = R
    best_res = None
    tries = 0

    def attempt(mod):
        nonlocal best, best_res, tries
        if tries > 40:
            return
        A2 = json.loads(json.dumps(best["A"]))
        if not mod(A2):
            return
        tries += 1
        R2 = realize(A2, random.Random("shrink/%d" % tries))
        if R2 is None:
            return
        r = judge(R2, c, scratch, "%s-s%d" % (tag, tries))
        if r["status"] == "viol" and r["key"].split("|")[0] == ph0:
            best = R2
            best_res = r

    def setter(k, v):
        def f(A2):
            if A2.get(k) == v:
                return False
            A2[k] = v
            return True
        return f
    for k, v in (("color", None), ("sort", False), ("layout", "default"), ("join", False), ("out", "json"),
                 ("exit_status", False), ("args", None), ("binds", []), ("from_file", False), ("slurp", False),
                 ("null_input", False), ("no_color_env", "1"), ("mode", "merged")):
        if k == "binds" and best["A"]["scen"].startswith("bind"):
            continue
        if k in ("args", "binds") and re.search(r"\$(x|y|cfg|v1|ARGS)", best["A"]["prog"] or ""):
            continue
        attempt(setter(k, v))

    def drop_source(i):
        def f(A2):
            if len(A2["sources"]) <= 1 or i >= len(A2["sources"]):
                return False
            A2["sources"].pop(i)
            return True
        return f
    for i in (2, 1, 0):
        attempt(drop_source(i))
    return best_res


# ---------------------------------------------------------------------------------------
# worker
# ---------------------------------------------------------------------------------------
def task(t):
    seed, chunk, n, scratch, n_strace, shrink_cap = t
    c = mon()
    out = {"n": 0, "status": {}, "why": {}, "exits": {}, "opts": {}, "scen": {}, "modes": {}, "viol": [],
           "main": 0, "input": 0, "outs": 0, "marks": 0, "distinct": [], "samples": [], "strace": {},
           "crashes": [], "tails": {}, "cons_cases": {"main-only": 0, "input-used": 0}}
    shrunk = 0
    for k in range(n):
        rng = random.Random("c17/%d/%d/%d" % (seed, chunk, k))
        R = None
        for _ in range(5):
            A = gen_abstract(rng)
            R = realize(A, rng)
            if R is not None:
                break
        if R is None:
            continue
        tag = "w%d-%d" % (chunk, k)
        do_strace = k < n_strace
        r = judge(R, c, scratch, tag, do_strace)
        A = R["A"]
        out["n"] += 1
        out["status"][r["status"]] = out["status"].get(r["status"], 0) + 1
        if r["status"] in ("unjudged", "inconc"):
            out["why"][r["status"] + ":" + r["why"]] = out["why"].get(r["status"] + ":" + r["why"], 0) + 1
            if "crash" in r and len(out["crashes"]) < 3:
                out["crashes"].append(r["crash"])
            continue
        if r["status"] == "viol":
            key, w = r["key"], r["witness"]
            if shrunk < shrink_cap and not r.get("known_shape") and not key.startswith("panic:"):
                shrunk += 1
                br = shrink(R, c, scratch, tag, key)
                if br is not None:
                    key, w = br["key"], br["witness"]
            out["viol"].append((key, w))
            continue
        out["exits"][str(r["exit"])] = out["exits"].get(str(r["exit"]), 0) + 1
        out["scen"][A["scen"]] = out["scen"].get(A["scen"], 0) + 1
        out["modes"][A["mode"]] = out["modes"].get(A["mode"], 0) + 1
        out["tails"][str(r["tail"])] = out["tails"].get(str(r["tail"]), 0) + 1
        for o in option_tags(R):
            out["opts"][o] = out["opts"].get(o, 0) + 1
        out["main"] += r["main"]
        out["input"] += r["input"]
        out["outs"] += r["n_out"]
        out["marks"] += r["n_mark"]
        out["cons_cases"]["input-used" if r["input"] else "main-only"] += 1
        if "strace" in r:
            out["strace"][r["strace"]] = out["strace"].get(r["strace"], 0) + 1
        nontrivial = r["n_out"] + r["n_mark"] > 0 or r["exit"] != 0
        if nontrivial:
            sig = hashlib.md5(repr((in_class(A), out_class(A), A["scen"], prog_shape(A["prog"]),
                                    [(len(s.get("values") or []), bool(s["trunc"]), s["missing"], s["fmt"])
                                     for s in A["sources"]], r["exit"])).encode()).hexdigest()[:12]
            out["distinct"].append(sig)
        if len(out["samples"]) < 2 and nontrivial and rng.random() < 0.2:
            out["samples"].append({"argv": R["argv"], "stdin": None if R["stdin"] is None else
                                   bytes.fromhex(R["stdin"]).decode("utf-8", "replace")[:200],
                                   "files": {k: bytes.fromhex(v).decode("utf-8", "replace")[:120]
                                             for k, v in R["files"].items()},
                                   "exit": r["exit"], "outputs": r["n_out"], "stderr_markers": r["n_mark"],
                                   "values_consumed_by_main_loop": r["main"],
                                   "values_consumed_by_input(s)": r["input"], "pipe": A["mode"]})
    return out


def option_tags(R):
    A = R["A"]
    t = []
    argv = R["argv"]
    i = 0
    while i < len(argv):
        a = argv[i]
        if a == "--":
            t.append("-- (end of options)")
            break
        if a.startswith("--") and len(a) > 2 and a[2:].replace("-", "").isalnum():
            t.append(a)
            i += 3 if a in ("--arg", "--argjson", "--slurpfile", "--rawfile") else \
                2 if a in ("--from", "--to", "--indent") else 1
            continue
        if re.fullmatch(r"-[A-Za-z]+", a):
            t.extend("-" + ch for ch in a[1:])
        i += 1
    # only those that the realisation placed as options (a value of --arg may look like a flag)
    known = {"-n", "--null-input", "-s", "--slurp", "-R", "--raw-input", "--raw-input0", "--from", "--to", "-r",
             "--raw-output", "--raw-output0", "-j", "--join-output", "-c", "--compact-output", "--tab", "--indent",
             "-S", "--sort-keys", "-C", "--color-output", "-M", "--monochrome-output", "-e", "--exit-status",
             "--arg", "--argjson", "--slurpfile", "--rawfile", "--args", "-f", "--from-file", "-- (end of options)"}
    t = [x for x in set(t) if x in known]
    if A["prog"] is None:
        t.append("(no FILTER argument)")
    if A["sources"] and A["sources"][0]["stdin"]:
        t.append("(stdin)")
    else:
        t.append("(files:%d)" % len(A["sources"]))
    if A["inmode"] == "ext":
        t.extend("(by extension:%s)" % s["fmt"] for s in A["sources"])
    if A["no_color_env"] != "1":
        t.append("(NO_COLOR %s)" % ("unset" if A["no_color_env"] is None else "empty"))
    return t


# ---------------------------------------------------------------------------------------
def self_test(c):
    """the fixed garbage suffixes must be parse errors that yield no value (model premise)"""
    for g in GARBAGE:
        r = c.request({"op": "fmt", "dir": "read", "format": "json", "bytes": ("7 " + g).encode().hex(), "slurp": False})
        if r.get("vals") != [{"i": "7"}] or r.get("error") is None:
            return "garbage suffix %r is not a plain parse error: %r" % (g, r)
    want = b'{\n  "a": [\n    1,\n    "x\\n"\n  ],\n  "b": {}\n}'
    if fmt_json(Obj([(S("a"), [1, S("x\n")]), (S("b"), Obj([]))]), "  ", False) != want:
        return "formatter self-test"
    return None


def main():
    run = Run("C17")
    os.environ["C17_JAQMON"] = build.jaqmon("verif")
    jaq = build.cli()
    os.environ["C17_JAQ"] = jaq
    scratch = "/tmp/c17-%d-%d" % (os.getpid(), int(time.time()))
    os.makedirs(scratch, exist_ok=True)
    try:
        c = mon()
        bad = self_test(c)
        if run.replay:
            rp = json.load(open(run.replay))
            R = rp["witness"]["R"]
            r = judge(R, c, scratch, "replay")
            print("replay:", r["status"], r.get("key", ""), r.get("why", ""))
            if r["status"] == "viol":
                run.violation(r["key"], r["witness"])
                print(json.dumps({k: v for k, v in r["witness"].items() if k != "R"}, indent=1, ensure_ascii=False)[:3000])
            run.finish({"evaluations": 1, "distinct_nontrivial": 1, "rule": "replay of one stored invocation",
                        "samples": [{"argv": R["argv"]}]})
            return
        total = run.size(3200, 100000)
        per = 50 if run.tier == "quick" else 250
        nchunks = (total + per - 1) // per
        n_strace_total = run.size(48, 400)
        per_strace = max(1, n_strace_total // nchunks)
        tasks = [(run.seed, i, per, scratch, per_strace, 3) for i in range(nchunks)]
        agg = {"n": 0, "status": {}, "why": {}, "exits": {}, "opts": {}, "scen": {}, "modes": {}, "strace": {},
               "tails": {}, "cons_cases": {}}
        main_c = input_c = outs = marks = 0
        distinct = Distinct()
        samples = Samples(8, run.rng("samples"))
        crashes = []
        for out in par.pmap(task, tasks, run.jobs):
            agg["n"] += out["n"]
            for f in ("status", "why", "exits", "opts", "scen", "modes", "strace", "tails", "cons_cases"):
                for k, v in out[f].items():
                    agg[f][k] = agg[f].get(k, 0) + v
            for key, w in out["viol"]:
                if any(key.startswith(q) for q in QUIRKS.values()):
                    for part in key.split("+"):      # several confirmed deviations in one invocation
                        run.violation(part, w)
                else:
                    run.violation(key, w)
            main_c += out["main"]
            input_c += out["input"]
            outs += out["outs"]
            marks += out["marks"]
            for dsig in out["distinct"]:
                distinct.add(dsig)
            for s in out["samples"]:
                samples.add(s)
            crashes += out["crashes"]
        for k, v in agg["why"].items():
            if k.startswith("inconc:"):
                run.inconc(k[7:], v)
        if agg["strace"].get("mismatch"):
            run.violation("strace:write-order-differs-from-prediction", {"count": agg["strace"]["mismatch"]})
        judged = agg["status"].get("ok", 0) + agg["status"].get("viol", 0)
        broken = bad
        want_exits = {"0", "1", "2", "3", "4", "5"}
        if not broken and not run.violations and run.scale >= 1 and not want_exits <= set(agg["exits"]):
            broken = "exit statuses never observed: %s" % sorted(want_exits - set(agg["exits"]))
        if not broken and run.scale >= 1 and (main_c == 0 or input_c == 0 or marks == 0):
            broken = "a consumer kind or the stderr markers were never exercised"
        if not broken and run.scale >= 1 and not agg["strace"].get("ok"):
            broken = "strace cross-check never succeeded: %s" % agg["strace"]
        run.finish({
            "evaluations": agg["n"],
            "distinct_nontrivial": len(distinct),
            "rule": "random invocations: option subset (input/output/variable/exit-status options in random spelling, "
                    "position, short-flag clusters, `--`) x filter composed from families (identity/iteration/empty/"
                    "error/halt/halt_error/input/inputs/limit/first/$vars/$ARGS/$ENV/input_filename with `stderr` "
                    "markers) x input streams of 0-6 values over stdin or 1-3 files (valid, truncated, empty, "
                    "missing; JSON, raw, raw0, other formats by extension/--from); judged = stdout+stderr trace, "
                    "error-message presence and exit status compared with the model; non-trivial = at least one "
                    "output/marker or a non-zero exit; distinct = (input option class, output option class, "
                    "scenario, filter with constants abstracted, per-file shape, exit status)",
            "samples": samples.items,
            "invocations_judged": judged,
            "invocations_not_judged": agg["status"].get("unjudged", 0),
            "not_judged_reasons": {k: v for k, v in agg["why"].items() if k.startswith("unjudged:")},
            "exit_status_histogram": dict(sorted(agg["exits"].items(), key=lambda kv: int(kv[0]))),
            "options_histogram": dict(sorted(agg["opts"].items())),
            "scenario_histogram": agg["scen"],
            "pipe_mode_histogram": agg["modes"],
            "stderr_tail_histogram": agg["tails"],
            "input_values_consumed_by_main_loop": main_c,
            "input_values_consumed_by_input_or_inputs": input_c,
            "invocations_by_consumer": agg["cons_cases"],
            "outputs_compared": outs,
            "stderr_markers_interleaved": marks,
            "strace_write_order_crosscheck": agg["strace"],
            "cli_crashes_seen_not_judged": crashes[:5],
            "null_input_modelled_per_file": NULL_INPUT_PER_FILE,
        }, assumptions=[
            "filter semantics (outputs per input value, how many inputs were pulled before each output) are taken "
            "from the real interpreter through jaqmon; the check is about everything the CLI adds around it",
            "value streams of YAML/TOML/XML/CSV/TSV/CBOR files and the body text of --to yaml/csv/tsv/toml/cbor/xml "
            "come from the library reader/writer (C14's subject); JSON/raw/raw0 input and JSON/raw/raw0 output are "
            "modelled independently",
            "byte order in one shared pipe equals the order of write calls (cross-checked with strace on a sample)",
            "`stderr` is delivered through the default logger configuration (LOG unset); the text of error messages "
            "is not modelled, only presence, the `Error: ` prefix and (for scalar error values) the single line",
            "-n with several files: the filter runs once per file (stdlib.dj: input/inputs/input_filename speak of "
            "the current input file); -j enables raw output as in jq",
        ], broken=broken)
    finally:
        shutil.rmtree(scratch, ignore_errors=True)


if __name__ == "__main__":
    main()
