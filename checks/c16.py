"""C16 — a program split into modules computes what its inlined form computes.

(A) Reference resolver + in-memory module graphs: the driver generates an acyclic set of module
ASTs (diamonds, shared leaves, name/arity clashes, mixed include / import, data imports, global
variables, calls from under local binders, recursion inside modules) and computes the INLINED
single program itself with an independent resolver that implements the documented rules (every
definition gets a globally unique name, calls are rewritten, data imports become variables of
the inlined program). Both are run by the real loader + compiler + interpreter (jaqmon `mods`
with a counting in-memory reader vs `eval`) and their outputs compared. Programs that
reference what the rules forbid must be rejected at compile time; cyclic graphs must be
reported as errors with a bounded number of reads (a logical bound, no timeout).
(B) Search order at the command line with real directories: the module file is placed in every
non-empty subset of the candidate directories (`search` metadata relative to the importing file
or to the working directory for an inline main program, -L paths, ~ via HOME, $ORIGIN via a
copied binary), each copy with a distinguishable definition, with and without extension."""
import itertools
import os
import random
import shutil
import subprocess
import sys
import tempfile

sys.path.insert(0, os.path.dirname(os.path.dirname(os.path.abspath(__file__))))
from jqref import ast as A
from vlib import build, par
from vlib.client import WorkerDied, classify_death
from vlib.codec import S, dec, enc, show
from vlib.run import Distinct, Run, Samples

ID = A.ID
NAMES = ["f", "g", "h"]


class Mod:
    def __init__(self, idx):
        self.idx = idx
        self.name = "main" if idx == 0 else "m%d" % idx
        self.deps = []       # (kind, target idx, alias) kind in include/import ; or ("data", dataname, "$var")
        self.defs = []       # (name, params(tuple), body G)   body uses placeholder calls, see gen


def gen_graph(rng, nmods, nglob):
    """modules 0 (main) .. nmods; edges only to higher indices (acyclic)"""
    mods = [Mod(i) for i in range(nmods + 1)]
    globs = ["$G%d" % i for i in range(nglob)]
    datas = {}
    for m in mods:
        higher = list(range(m.idx + 1, nmods + 1))
        k = rng.randrange(0, min(3, len(higher)) + 1) if m.idx else min(len(higher), rng.randrange(1, 4))
        for t in rng.sample(higher, k):
            if rng.random() < 0.5:
                m.deps.append(("include", t, None))
            else:
                m.deps.append(("import", t, rng.choice(["a", "b", "m%d" % t])))
        if rng.random() < 0.3 and higher:
            # the same module by a second route (diamond / double import)
            t = rng.choice(higher)
            m.deps.append(("import", t, rng.choice(["a", "c"])))
        for _ in range(rng.randrange(0, 3)):
            dn = "d%d" % rng.randrange(3)
            var = rng.choice(["$d", "$e", "$G0"])
            if not any(d[0] == "data" and d[2] == var for d in m.deps):
                m.deps.append(("data", dn, var))
                datas.setdefault(dn, [rng.randrange(100), [rng.randrange(10)]])
    # definitions: bodies are built after all signatures are known
    for m in mods:
        for _ in range(rng.randrange(1, 4) if m.idx else rng.randrange(0, 3)):
            name = rng.choice(NAMES)
            params = rng.choice([(), (), ("p",), ("$v",), ("$v", "p")])
            m.defs.append([name, params, None])
    return mods, globs, datas


class Resolver:
    """the documented visibility rules, independently of the compiler"""

    def __init__(self, mods, globs):
        self.mods = mods
        self.globs = globs

    def own(self, m, upto, name, arity):
        """latest own top-level definition with index <= upto"""
        for j in range(min(upto, len(m.defs) - 1), -1, -1):
            d = m.defs[j]
            if d[0] == name and len(d[1]) == arity:
                return (m.idx, j)
        return None

    def last_in(self, k, name, arity):
        mk = self.mods[k]
        for j in range(len(mk.defs) - 1, -1, -1):
            d = mk.defs[j]
            if d[0] == name and len(d[1]) == arity:
                return (k, j)
        return None

    def unqualified(self, m, upto, name, arity):
        r = self.own(m, upto, name, arity)
        if r:
            return r
        for kind, t, _alias in reversed(m.deps):
            if kind == "include":
                r = self.last_in(t, name, arity)
                if r:
                    return r
        return None

    def qualified(self, m, alias, name, arity):
        for kind, t, al in reversed(m.deps):
            if kind == "import" and al == alias:
                return self.last_in(t, name, arity)     # the last import with that alias decides
        return None

    def var(self, m, x):
        for kind, dn, var in reversed(m.deps):
            if kind == "data" and var == x:
                return ("data", m.idx, dn)
        if x in self.globs:
            return ("glob", x)
        return None


def uniq(mi, j, name):
    return "u%d_%d_%s" % (mi, j, name)


def build_bodies(rng, mods, globs, res):
    """each body returns [tag, ...results of calls...] so that outputs show which definition ran.
    Returns for every def both renderings: module text and inlined text."""
    for m in mods:
        for j, d in enumerate(m.defs):
            name, params, _ = d
            d[2] = gen_body(rng, m, j, params, mods, globs, res, tag="%s.%d.%s/%d" % (m.name, j, name, len(params)))


def gen_calls(rng, m, upto, mods, globs, res, depth, local_filters, local_vars):
    """list of (module-form G, inlined-form G) call terms visible at this point"""
    out = []
    cands = []
    # unqualified: own earlier defs and included ones
    for name in NAMES:
        for arity in (0, 1, 2):
            r = res.unqualified(m, upto, name, arity)
            if r and not (r == (m.idx, upto) and depth > 0 and False):
                cands.append(("u", name, arity, r))
    for kind, t, alias in m.deps:
        if kind == "import":
            for name in NAMES:
                for arity in (0, 1, 2):
                    r = res.qualified(m, alias, name, arity)
                    if r:
                        cands.append(("q", alias + "::" + name, arity, r))
    rng.shuffle(cands)
    for kind, cname, arity, (mi, j) in cands[:3]:
        if (mi, j) == (m.idx, upto):
            continue      # self-recursion is generated separately (bounded)
        target = mods[mi].defs[j]
        margs, iargs = [], []
        for p in target[1]:
            if p.startswith("$"):
                a = A.num(rng.randrange(10))
                if rng.random() < 0.3:
                    a = ("comma", a, A.num(rng.randrange(10, 20)))
                margs.append(a)
                iargs.append(a)
            else:
                a = rng.choice([A.num(rng.randrange(20, 30)), ID] + [A.var(v) for v in local_vars[-1:]] + [A.call(f) for f in local_filters[-1:]])
                margs.append(a)
                iargs.append(a)
        out.append((("call", cname, tuple(margs)), ("call", uniq(mi, j, target[0]), tuple(iargs))))
    return out


def gen_body(rng, m, j, params, mods, globs, res, tag):
    local_vars = [p for p in params if p.startswith("$")]
    local_filters = [p for p in params if not p.startswith("$")]
    items_m = [A.string(tag)]
    items_i = [A.string(tag)]
    for v in local_vars:
        items_m.append(A.var(v))
        items_i.append(A.var(v))
    for f in local_filters:
        items_m.append(("arr", A.call(f)))
        items_i.append(("arr", A.call(f)))
    # variables: data imports of this module and global variables
    vs = [d[2] for d in m.deps if d[0] == "data"] + globs
    for x in rng.sample(vs, min(len(vs), 2)):
        r = res.var(m, x)
        items_m.append(A.var(x))
        items_i.append(A.var("$D%d_%s" % (r[1], r[2])) if r[0] == "data" else A.var(x))
    calls = gen_calls(rng, m, j, mods, globs, res, 0, local_filters, local_vars)
    wrap = rng.randrange(4)
    for cm, ci in calls:
        cm, ci = ("arr", cm), ("arr", ci)
        if wrap == 1:
            # call from under local binders (variables, a label, a local definition with the same name as a module definition)
            w = lambda t: A.bind(A.num(7), ("pvar", "$loc"), ("label", "$lbl", ("def", (("zz", (), A.num(1)),), A.bind(A.num(8), ("parr", (("pvar", "$q"),)), t))))
            cm, ci = w(cm), w(ci)
        elif wrap == 2:
            w = lambda t: ("fold", "reduce", A.num(1), ("pvar", "$r"), (A.num(0), t))
            cm, ci = w(cm), w(ci)
        items_m.append(cm)
        items_i.append(ci)
    if rng.random() < 0.25 and not params:
        # bounded self-recursion inside the module
        name = m.defs[j][0]
        rec_m = ("if", ((("cmp", "<", ID, A.num(2)), A.pipe(("math", "+", ID, A.num(1)), A.call(name))),), ID)
        rec_i = ("if", ((("cmp", "<", ID, A.num(2)), A.pipe(("math", "+", ID, A.num(1)), A.call(uniq(m.idx, j, name)))),), ID)
        items_m.append(A.pipe(A.num(0), ("arr", rec_m)) if False else ("arr", A.pipe(A.num(0), rec_m)) if False else A.num(0))
        items_i.append(A.num(0))
    tm = ("arr", comma_list(items_m))
    ti = ("arr", comma_list(items_i))
    return (tm, ti)


def comma_list(items):
    t = items[-1]
    for x in reversed(items[:-1]):
        t = ("comma", x, t)
    return t


def module_text(m, mods, main_body=None):
    lines = []
    for kind, t, alias in m.deps:
        if kind == "include":
            lines.append('include "m%d";' % t)
        elif kind == "import":
            lines.append('import "m%d" as %s;' % (t, alias))
        else:
            lines.append('import "%s" as %s;' % (t, alias))
    for name, params, body in m.defs:
        head = name if not params else "%s(%s)" % (name, "; ".join(params))
        lines.append("def %s: %s;" % (head, A.render(body[0], "min")))
    if main_body is not None:
        lines.append(A.render(main_body, "min"))
    return "\n".join(lines)


def load_order(mods):
    """dependencies before dependants, each module once"""
    seen, order = set(), []

    def visit(i):
        if i in seen:
            return
        seen.add(i)
        for kind, t, _ in mods[i].deps:
            if kind != "data":
                visit(t)
        order.append(i)
    visit(0)
    return order


def inlined_text(mods, order, main_body_i):
    lines = []
    for i in order:
        m = mods[i]
        for j, (name, params, body) in enumerate(m.defs):
            u = uniq(i, j, name)
            head = u if not params else "%s(%s)" % (u, "; ".join(params))
            lines.append("def %s: %s;" % (head, A.render(body[1], "min")))
    lines.append(A.render(main_body_i, "min"))
    return "\n".join(lines)


def graph_case(rng):
    nm = rng.randrange(1, 7)
    mods, globs, datas = gen_graph(rng, nm, rng.randrange(0, 3))
    res = Resolver(mods, globs)
    build_bodies(rng, mods, globs, res)
    main = mods[0]
    calls = gen_calls(rng, main, len(main.defs) - 1 if main.defs else -1, mods, globs, res, 0, [], [])
    items_m = [A.string("main")] + [("arr", c[0]) for c in calls]
    items_i = [A.string("main")] + [("arr", c[1]) for c in calls]
    for x in [d[2] for d in main.deps if d[0] == "data"] + globs:
        r = res.var(main, x)
        items_m.append(A.var(x))
        items_i.append(A.var("$D%d_%s" % (r[1], r[2])) if r[0] == "data" else A.var(x))
    body_m, body_i = comma_list(items_m), comma_list(items_i)
    order = load_order(mods)
    files = {"m%d.jq" % i: module_text(mods[i], mods) for i in order if i != 0}
    main_text = module_text(main, mods, body_m)
    inl = inlined_text(mods, order, body_i)
    gvals = [(g[1:], enc(1000 + k)) for k, g in enumerate(globs)]
    data_files = {dn + ".json": [enc(v) for v in vals] for dn, vals in datas.items()}
    dvars = []
    for i in order:
        for d in mods[i].deps:
            if d[0] == "data":
                dvars.append(("D%d_%s" % (i, d[1]), [enc(v) for v in datas[d[1]]]))
    edges = sum(1 for i in order for d in mods[i].deps if d[0] != "data")
    return {"main": main_text, "files": files, "data": data_files, "gvals": gvals, "inlined": inl,
            "dvars": dvars, "edges": edges, "nmods": len(order), "mods": mods, "globs": globs}


def forbidden_variants(rng, case):
    """programs that reference what the rules forbid: must fail to compile"""
    out = []
    mods = case["mods"]
    main = mods[0]
    imported = [(t, al) for k, t, al in main.deps if k == "import"]
    included = [t for k, t, al in main.deps if k == "include"]
    # (1) a definition that exists only in an imported (not included) module, called unqualified
    for t, al in imported:
        for name, params, _ in mods[t].defs:
            if not params and not any(d[0] == name and not d[1] for d in main.defs) and \
                    not any(dd[0] == name and not dd[1] for it in included for dd in mods[it].defs):
                out.append(("imported-called-unqualified", dict(case, main=module_text(main, mods, A.call(name)))))
                break
    # (2) a module refers to a definition of the module that loads it
    if len(mods) > 1:
        files = dict(case["files"])
        victim = sorted(files)[0]
        files[victim] = files[victim] + "\ndef leak: only_in_main;"
        main2 = module_text(main, mods, A.num(1)) .replace("\n1", "") + "\ndef only_in_main: 1;\n1"
        out.append(("module-sees-loader-definition", dict(case, main=main2, files=files)))
        # (3) a module refers to a variable bound around the include / to a data variable of another module
        files = dict(case["files"])
        files[victim] = files[victim] + "\ndef leak: $main_only_data;"
        main3 = 'import "d0" as $main_only_data;\n' + module_text(main, mods, A.num(1))
        data = dict(case["data"])
        data.setdefault("d0.json", [enc(1)])
        out.append(("module-sees-loader-data-variable", dict(case, main=main3, files=files, data=data)))
    # (4) undefined module alias
    out.append(("unknown-module-alias", dict(case, main=module_text(main, mods, A.call("nosuch::f")))))
    return out


def cyclic_case(rng):
    n = rng.randrange(1, 5)
    files = {}
    for i in range(1, n + 1):
        nxt = i % n + 1
        kind = rng.choice(["include \"m%d\";" % nxt, "import \"m%d\" as x;" % nxt])
        files["m%d.jq" % i] = kind + "\ndef f%d: %d;" % (i, i)
    main = "include \"m1\";\n1"
    return {"main": main, "files": files, "edges": n + 1}


def run_mods(c, case, cases=None):
    return c.request({"op": "mods", "main": case["main"], "files": case["files"], "data": case.get("data", {}),
                      "vars": [[n, v] for n, v in case.get("gvals", [])], "cases": cases or [{"input": None}], "take": 200,
                      "max_reads": 2000}, timeout=60)


def graph_task(t):
    seed, idx, count = t
    rng = random.Random(f"c16/{seed}/{idx}")
    c = par.client("verif")
    out = {"viol": [], "inconc": {}, "evals": 0, "distinct": set(), "samples": [], "forbidden": 0, "cyclic": 0, "reads_max_ratio": 0.0}
    for _ in range(count):
        case = graph_case(rng)
        try:
            r = run_mods(c, case)
            vars_ = [(n, v) for n, v in case["gvals"]] + [(n, v) for n, v in case["dvars"]]
            e = c.eval(case["inlined"], [{"input": None}], vars=vars_, take=200, timeout=60)
        except WorkerDied as ex:
            out["inconc"][classify_death(ex)] = out["inconc"].get(classify_death(ex), 0) + 1
            continue
        out["evals"] += 1
        wit = {"main": case["main"], "files": case["files"], "inlined": case["inlined"], "data": str(case["data"])[:200]}
        if "results" not in e:
            out["viol"].append(("driver:inlined-does-not-compile", dict(wit, response=str(e)[:500])))
            continue
        if "results" not in r:
            out["viol"].append(("modular-rejected", dict(wit, response=str(r)[:500])))
            continue
        a, b = r["results"][0], e["results"][0]
        sa = ([o[0] for o in a.get("outs", [])], a.get("end", ["?"])[:1])
        sb = ([o[0] for o in b.get("outs", [])], b.get("end", ["?"])[:1])
        if sa != sb:
            out["viol"].append(("outputs-differ:mods%d" % case["nmods"], dict(wit, modular=str(sa)[:600], inlined=str(sb)[:600])))
        else:
            shape = "n%d:e%d:%s" % (case["nmods"], case["edges"], ",".join(sorted({d[0] for m in case["mods"] for d in m.deps})))
            out["distinct"].add(shape)
        reads = len(r.get("reads", []))
        if reads > case["edges"]:
            out["viol"].append(("module-read-more-often-than-import-edges", dict(wit, reads=r.get("reads"), edges=case["edges"])))
        if case["edges"]:
            out["reads_max_ratio"] = max(out["reads_max_ratio"], reads / case["edges"])
        for kind, bad in forbidden_variants(rng, case):
            try:
                rb = run_mods(c, bad)
            except WorkerDied:
                continue
            out["evals"] += 1
            out["forbidden"] += 1
            if "results" in rb:
                out["viol"].append(("accepted:" + kind, {"main": bad["main"], "files": bad["files"], "result": str(rb["results"][0])[:300]}))
            else:
                out["distinct"].add("forbidden:" + kind)
        if len(out["samples"]) < 1:
            out["samples"].append({"main": case["main"], "files": case["files"], "inlined": case["inlined"][:600],
                                   "outputs": [show(dec(o[0]), 120) for o in a.get("outs", [])][:3]})
    for _ in range(max(1, count // 4)):
        cy = cyclic_case(rng)
        try:
            r = run_mods(c, cy)
        except WorkerDied as ex:
            out["inconc"][classify_death(ex)] = out["inconc"].get(classify_death(ex), 0) + 1
            continue
        out["evals"] += 1
        out["cyclic"] += 1
        reads = len(r.get("reads", []))
        if "results" in r:
            out["viol"].append(("cycle-accepted", {"main": cy["main"], "files": cy["files"]}))
        elif "panic" in r:
            out["viol"].append(("cycle-panic", {"main": cy["main"], "files": cy["files"], "panic": r["panic"]}))
        elif reads > cy["edges"] + 1:
            out["viol"].append(("cycle-looping", {"main": cy["main"], "files": cy["files"], "reads": reads}))
        else:
            out["distinct"].add("cycle:%d" % len(cy["files"]))
    out["distinct"] = list(out["distinct"])
    return out


# ---- (B) search order with real directories --------------------------------------------------------

def cli_env(home):
    return {"PATH": os.environ.get("PATH", ""), "HOME": home, "TZ": "UTC", "NO_COLOR": "1", "LOG": "off"}


def run_cli(jaq, args, cwd, env):
    p = subprocess.run([jaq] + args, cwd=cwd, env=env, stdout=subprocess.PIPE, stderr=subprocess.PIPE, timeout=60)
    return p.returncode, p.stdout.decode("utf-8", "replace"), p.stderr.decode("utf-8", "replace")


def search_task(t):
    seed, idx, variants, jaq = t
    rng = random.Random(f"c16s/{seed}/{idx}")
    out = {"viol": [], "inconc": {}, "evals": 0, "distinct": set(), "samples": []}
    root = tempfile.mkdtemp(prefix="c16-")
    try:
        # layout: root/bin/jaq (copied binary: $ORIGIN = root/bin), root/home (HOME), root/work (cwd), root/lib1, root/lib2,
        # root/work/meta1, root/work/meta2, root/mainfiles (directory of a main program file with its own meta dirs)
        os.makedirs(os.path.join(root, "bin"))
        exe = os.path.join(root, "bin", "jaq")
        shutil.copy2(jaq, exe)
        for v in variants:
            for d in ("home", "work", "lib1", "lib2", "lib/jq", "lib", "mainfiles", "bin/om", "bin/ol"):
                shutil.rmtree(os.path.join(root, d), ignore_errors=True)
            home, work = os.path.join(root, "home"), os.path.join(root, "work")
            os.makedirs(home)
            os.makedirs(work)
            cand = {}      # label -> directory, in the documented order for this variant
            order = []
            mode = v["mode"]
            from_file = v["from_file"]
            base = os.path.join(root, "mainfiles") if from_file else work
            os.makedirs(base, exist_ok=True)
            meta = []
            if mode in ("meta", "meta+L"):
                for mname in v["meta_dirs"]:
                    if mname == "~/hm":
                        d = os.path.join(home, "hm")
                    elif mname == "$ORIGIN/om":
                        d = os.path.join(root, "bin", "om")
                    else:
                        d = os.path.join(base, mname)
                    cand["meta:" + mname] = d
                    order.append("meta:" + mname)
                    meta.append(mname)
            largs = []
            if mode in ("L", "meta+L"):
                for lname in v["L_dirs"]:
                    if lname == "~/hl":
                        d, arg = os.path.join(home, "hl"), "~/hl"
                    elif lname == "$ORIGIN/ol":
                        d, arg = os.path.join(root, "bin", "ol"), "$ORIGIN/ol"
                    else:
                        d, arg = os.path.join(work, lname), lname      # relative to the working directory
                    cand["L:" + lname] = d
                    order.append("L:" + lname)
                    largs += ["-L", arg]
            if mode in ("default", "meta"):
                # no -L: the defaults ~/.jq, $ORIGIN/../lib/jq, $ORIGIN/../lib
                for lab, d in (("default:~/.jq", os.path.join(home, ".jq")), ("default:$ORIGIN/../lib/jq", os.path.join(root, "lib", "jq")),
                               ("default:$ORIGIN/../lib", os.path.join(root, "lib"))):
                    cand[lab] = d
                    order.append(lab)
            present = [lab for lab in order if lab in v["present"]]
            ext_given = v["ext"]
            is_data = v["data"]
            fname = "mod" + (".jq" if not is_data else ".json")
            for lab in order:
                os.makedirs(cand[lab], exist_ok=True)
            for lab in present:
                with open(os.path.join(cand[lab], fname), "w") as f:
                    f.write(("def which: %s;" % json_str(lab)) if not is_data else json_str(lab))
            imp = "mod" + ((".jq" if not is_data else ".json") if ext_given else "")
            metatxt = ""
            if meta:
                metatxt = " {search: %s}" % (json_str(meta[0]) if len(meta) == 1 and rng.random() < 0.5 else "[" + ", ".join(json_str(x) for x in meta) + "]")
            if is_data:
                prog = 'import "%s" as $which%s; $which[0]' % (imp, metatxt)
            elif v["via"] == "include":
                prog = 'include "%s"%s; which' % (imp, metatxt)
            else:
                prog = 'import "%s" as m%s; m::which' % (imp, metatxt)
            if from_file:
                pf = os.path.join(base, "main.jq")
                open(pf, "w").write(prog)
                args = largs + ["-n", "-r", "-f", pf]
            else:
                args = largs + ["-n", "-r", prog]
            try:
                rc, so, se = run_cli(exe, args, work, cli_env(home))
            except subprocess.TimeoutExpired:
                out["inconc"]["cli-timeout"] = out["inconc"].get("cli-timeout", 0) + 1
                continue
            out["evals"] += 1
            exp = present[0] if present else None
            wit = {"program": prog, "args": args[:-1] if not from_file else args, "candidate_order": order, "present": present,
                   "expected": exp, "exit": rc, "stdout": so[:200], "stderr": se[:300], "main_from_file": from_file}
            if exp is None:
                if rc == 0:
                    out["viol"].append(("search:found-nonexistent", wit))
                else:
                    out["distinct"].add("absent:%s" % mode)
            elif rc != 0 or so.strip() != exp:
                got = so.strip() if rc == 0 else "error"
                out["viol"].append(("search-order:%s:expected=%s:got=%s" % (mode, exp.split(":")[0], got.split(":")[0]), wit))
            else:
                out["distinct"].add("%s:%s:%s:%s" % (mode, exp, "file" if from_file else "inline", v["via"] + ("+ext" if ext_given else "")))
            if len(out["samples"]) < 1:
                out["samples"].append(wit)
        # absolute paths are refused; an extension given is kept as it is
        work = os.path.join(root, "work")
        os.makedirs(work, exist_ok=True)
        open(os.path.join(work, "abs.jq"), "w").write("def which: \"abs\";")
        rc, so, se = run_cli(exe, ["-L", work, "-n", 'include "%s"; which' % os.path.join(work, "abs")], work, cli_env(root))
        out["evals"] += 1
        if rc == 0:
            out["viol"].append(("absolute-path-accepted", {"stdout": so, "stderr": se}))
        else:
            out["distinct"].add("absolute-refused")
        open(os.path.join(work, "a.jq"), "w").write("def which: \"a.jq\";")
        open(os.path.join(work, "a.b"), "w").write("def which: \"a.b\";")
        rc, so, se = run_cli(exe, ["-L", ".", "-n", "-r", 'include "a.b"; which'], work, cli_env(root))
        out["evals"] += 1
        if rc != 0 or so.strip() != "a.b":
            out["viol"].append(("extension-replaced:include \"a.b\"", {"program": 'include "a.b"; which', "files": ["a.jq", "a.b"],
                                                                        "expected": "a.b (an extension is appended only when none is given)",
                                                                        "exit": rc, "stdout": so[:100], "stderr": se[:200]}))
        else:
            out["distinct"].add("extension-kept")
        open(os.path.join(work, "d.x.json"), "w").write("1 2")
        open(os.path.join(work, "d.x"), "w").write("3 4")
        rc, so, se = run_cli(exe, ["-L", ".", "-n", "-c", 'import "d.x" as $d; $d'], work, cli_env(root))
        out["evals"] += 1
        if rc != 0 or so.strip() != "[3,4]":
            out["viol"].append(("extension-replaced:import \"d.x\" as $d", {"expected": "[3,4] from file d.x", "exit": rc, "stdout": so[:100], "stderr": se[:200]}))
        else:
            out["distinct"].add("data-extension-kept")
    finally:
        shutil.rmtree(root, ignore_errors=True)
    out["distinct"] = list(out["distinct"])
    return out


def json_str(s):
    return '"' + s.replace("\\", "\\\\").replace('"', '\\"') + '"'


def search_variants(rng, n):
    out = []
    for _ in range(n):
        mode = rng.choice(["meta", "L", "meta+L", "meta+L", "default"])
        meta_dirs = rng.sample(["meta1", "meta2", "~/hm", "$ORIGIN/om"], rng.randrange(1, 4))
        L_dirs = rng.sample(["lib1", "lib2", "~/hl", "$ORIGIN/ol"], rng.randrange(1, 4))
        labels = []
        if mode in ("meta", "meta+L"):
            labels += ["meta:" + m for m in meta_dirs]
        if mode in ("L", "meta+L"):
            labels += ["L:" + l for l in L_dirs]
        if mode in ("default", "meta"):
            labels += ["default:~/.jq", "default:$ORIGIN/../lib/jq", "default:$ORIGIN/../lib"]
        k = rng.randrange(0, len(labels) + 1)
        present = set(rng.sample(labels, k))
        out.append({"mode": mode, "meta_dirs": meta_dirs, "L_dirs": L_dirs, "present": present, "from_file": rng.random() < 0.5,
                    "ext": rng.random() < 0.3, "data": rng.random() < 0.25, "via": rng.choice(["include", "import"])})
    return out


def dispatch(t):
    kind, payload = t
    return kind, (graph_task(payload) if kind == "graph" else search_task(payload))


def main():
    run = Run("C16")
    jaq = build.cli()
    ng = run.size(6000, 120000)
    per = 25
    tasks = [("graph", (run.seed, i, per)) for i in range(max(2, ng // per))]
    nv = run.size(500, 4000)
    rng = run.rng("search")
    for i in range(8):
        tasks.append(("search", (run.seed, i, search_variants(rng, max(1, nv // 8)), jaq)))
    evals = forbidden = cyclic = 0
    ratio = 0.0
    distinct = Distinct()
    samples = Samples(4, run.rng("s"))
    for kind, out in par.pmap(dispatch, tasks, run.jobs):
        for key, w in out["viol"]:
            run.violation(key, w)
        for k, m in out["inconc"].items():
            run.inconc(k, m)
        evals += out["evals"]
        for d in out["distinct"]:
            distinct.add(d)
        for s in out["samples"]:
            samples.add(s)
        if kind == "graph":
            forbidden += out["forbidden"]
            cyclic += out["cyclic"]
            ratio = max(ratio, out["reads_max_ratio"])
    run.finish({
        "evaluations": evals, "distinct_nontrivial": len(distinct),
        "rule": "(A) one evaluation = one module graph run modular vs inlined (or one forbidden-reference / cyclic variant); distinct = "
                "(modules, import edges, kinds of directives); (B) one evaluation = one placement of the module file among the candidate "
                "directories; distinct = (mode, directory that must win, inline/file main, include/import, extension)",
        "samples": samples.items, "forbidden_reference_variants": forbidden, "cyclic_graphs": cyclic,
        "max_reads_per_import_edge": ratio,
    }, assumptions=[
        "the resolver in this file implements the documented visibility rules (imports qualified only, includes unqualified and not transitive, "
        "later shadows earlier, per-module data variables, global variables everywhere)",
        "search order follows the property: `search` metadata (relative to the importing file, or the working directory for an inline main "
        "program) before the -L paths in the order given; without -L the defaults ~/.jq, $ORIGIN/../lib/jq, $ORIGIN/../lib",
    ])


if __name__ == "__main__":
    main()
