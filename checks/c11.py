"""C11 — stream combinators and generators satisfy their defining equations.

Metamorphic monitor: every equation of docs/stdlib.dj / docs/corelang.dj about limit, skip,
first, last, nth, isempty, any, all, add, range/1,2,3, repeat, recurse/0,1,2, .., while, until,
select, empty, error, reduce and foreach is one obligation (E01..E17 of DESIGN.md Appendix D);
both sides are evaluated by the real interpreter on the same input, each captured as a stream
with the position and payload of its first error, for argument filters from a generator of
finite streams with embedded errors and multiplicities, counts around 0 and the stream length
and huge, and inputs from the value generator."""
import os
import random
import sys

sys.path.insert(0, os.path.dirname(os.path.dirname(os.path.abspath(__file__))))
from checks.eqlib import NOERR, SS, measure_prog, run_obligation, same_stream, same_value, show_stream, stream_of
from vlib import gen, par, values as V
from vlib.client import WorkerDied, classify_death
from vlib.codec import Big, Obj, S, Str, dec, enc, show
from vlib.run import Distinct, Run, Samples


def gen_stream(rng, depth=0):
    """jq text of a finite stream with embedded errors and multiplicities; (text, may_be_empty)"""
    atoms = ["1", "2", "3", "null", "false", "\"a\"", "[1]", "{\"a\": 1}", "0", "-1", "1.5"]
    r = rng.random()
    if depth > 2 or r < 0.25:
        return rng.choice(atoms)
    if r < 0.5:
        return "(%s, %s)" % (gen_stream(rng, depth + 1), gen_stream(rng, depth + 1))
    if r < 0.58:
        return "(%s, error(%s), %s)" % (gen_stream(rng, depth + 1), rng.choice(["\"e\"", "null", "[1]", "7"]), gen_stream(rng, depth + 1))
    if r < 0.64:
        return "empty"
    if r < 0.7:
        return "(.[]?)"
    if r < 0.76:
        return "(%s | (., .))" % gen_stream(rng, depth + 1)
    if r < 0.82:
        return "range(%d)" % rng.randrange(0, 4)
    if r < 0.88:
        return "(%s | select(. != 2))" % gen_stream(rng, depth + 1)
    if r < 0.92:
        return "."
    if r < 0.96:
        return "(%s, (1 | .[0]))" % gen_stream(rng, depth + 1)      # built-in error at the end
    return "first(%s)" % gen_stream(rng, depth + 1)


def counts(rng):
    return [rng.randrange(-2, 7) for _ in range(3)] + [0, 1, rng.choice([2 ** 63, 10 ** 20, -(10 ** 20), Big(2), -(2 ** 63)])]


def combinator_obligation(rng):
    """E01-E08, E13, E14, E17 for one argument filter f; counts come through the input"""
    f = gen_stream(rng)
    p = rng.choice([". != null", ". == 2", "., false", "error(\"p\")", "true", "not", "type == \"number\""])
    m = [
        ("f", f),
        ("limit", "limit($n; %s)" % f), ("skip", "skip($n; %s)" % f),
        ("limit_skip", "limit($n; %s), skip($n; %s)" % (f, f)),
        ("first", "first(%s)" % f), ("first_def", "label $l | (%s | ., break $l)" % f),
        ("last", "last(%s)" % f),
        ("nth", "nth($n; %s)" % f), ("nth_def", "first(skip($n; %s))" % f),
        ("isempty", "isempty(%s)" % f), ("isempty_def", "first((%s | false), true)" % f),
        ("any2", "any(%s; %s)" % (f, p)), ("any2_def", "isempty(first(%s | %s | select(.))) | not" % (f, p)),
        ("all2", "all(%s; %s)" % (f, p)), ("all2_def", "isempty(first(%s | %s | select(. | not)))" % (f, p)),
        ("add", "add(%s)" % f), ("add_def", "reduce %s as $x (null; . + $x)" % f),
        ("select", "%s | select(%s)" % (f, p)), ("select_def", "%s | if %s then . else empty end" % (f, p)),
        ("error_f", "error(%s)" % f), ("error_f_def", "%s | error" % ("first(%s)" % f)),
        ("arr_first", "[(%s)?] | first" % f), ("arr_first_def", "[(%s)?] | .[0]" % f),
        ("arr_last", "[(%s)?] | last" % f), ("arr_last_def", "[(%s)?] | .[-1]" % f),
        ("arr_any", "[(%s)?] | any" % f), ("arr_any_def", "[(%s)?] | any(.[]; .)" % f),
        ("arr_any1", "[(%s)?] | any(%s)" % (f, p)), ("arr_any1_def", "[(%s)?] | any(.[]; %s)" % (f, p)),
        ("arr_all", "[(%s)?] | all" % f), ("arr_all_def", "[(%s)?] | all(.[]; .)" % f),
        ("arr_all1", "[(%s)?] | all(%s)" % (f, p)), ("arr_all1_def", "[(%s)?] | all(.[]; %s)" % (f, p)),
        ("arr_add", "[(%s)?] | add" % f), ("arr_add_def", "[(%s)?] | add(.[])" % f),
        ("empty_upd", "empty |= (%s)" % f), ("empty_upd_def", "."),
    ]
    prog = ".n as $n | .v | " + measure_prog("", m)

    def judge(v, ms, viol):
        nval = V.ival(v.items[0][1]) if V.is_int(v.items[0][1]) else None
        fv, fe = stream_of(ms["f"])
        # E01
        if not same_stream(ms["limit_skip"], ms["f"]):
            viol("E01:limit-skip-reproduce", "limit($n; f), skip($n; f)", ms["limit_skip"], "f", ms["f"])
        # E02: limit = the first max(n,0) entries of S(f) (an error inside them included)
        if nval is not None:
            k = max(nval, 0)
            lv, le = stream_of(ms["limit"])
            exp_v = fv[:k]
            exp_e = fe if (fe is not NOERR and len(fv) < k) else NOERR
            if not (len(lv) == len(exp_v) and all(same_value(a, b) for a, b in zip(lv, exp_v)) and (le is NOERR) == (exp_e is NOERR)):
                viol("E02:limit-prefix", "limit(%d; f)" % nval, ms["limit"], "f", ms["f"])
            sv, se = stream_of(ms["skip"])
            exp_v = fv[k:]
            if not (len(sv) == len(exp_v) and all(same_value(a, b) for a, b in zip(sv, exp_v)) and (se is NOERR) == (fe is NOERR)):
                viol("E02:skip-rest", "skip(%d; f)" % nval, ms["skip"], "f", ms["f"])
            # E05
            if nval >= 0 and not same_stream(ms["nth"], ms["nth_def"]):
                viol("E05:nth", "nth(%d; f)" % nval, ms["nth"], "first(skip(n; f))", ms["nth_def"])
        # E03
        if not same_stream(ms["first"], ms["first_def"]):
            viol("E03:first", "first(f)", ms["first"], "label $l | (f | ., break $l)", ms["first_def"])
        # E04: last output of an error-free f, nothing for empty, the first error otherwise
        lv, le = stream_of(ms["last"])
        if fe is NOERR:
            ok = le is NOERR and ((not fv and not lv) or (fv and len(lv) == 1 and same_value(lv[0], fv[-1])))
        else:
            ok = le is not NOERR and same_value(le, fe) and not lv
        if not ok:
            viol("E04:last", "last(f)", ms["last"], "f", ms["f"])
        for a, b, k in [("isempty", "isempty_def", "E06:isempty"), ("any2", "any2_def", "E07:any"), ("all2", "all2_def", "E07:all"),
                        ("add", "add_def", "E08:add"), ("select", "select_def", "E13:select"),
                        ("error_f", "error_f_def", "E14:error(f)"), ("arr_first", "arr_first_def", "E03:first/0"),
                        ("arr_last", "arr_last_def", "E03:last/0"), ("arr_any", "arr_any_def", "E07:any/0"),
                        ("arr_all", "arr_all_def", "E07:all/0"), ("arr_add", "arr_add_def", "E08:add/0"),
                        ("arr_any1", "arr_any1_def", "E07:any/1"), ("arr_all1", "arr_all1_def", "E07:all/1"),
                        ("empty_upd", "empty_upd_def", "E14:empty-update")]:
            if not same_stream(ms[a], ms[b]):
                viol(k, a, ms[a], b, ms[b])
        return bool(fv)
    return ("combinators", prog, judge, f)


def range_obligation(rng):
    """E09: range/3 equals its `while` definition for numbers, strings and arrays alike"""
    LIM = 12
    m = [
        ("range3", "limit(%d; range($a; $b; $c))" % LIM),
        ("range3_def", "limit(%d; $a | if $c > 0 then while(. < $b; . + $c) elif $c < 0 then while(. > $b; . + $c) "
                       "else while(. != $b; . + $c) end)" % LIM),
        ("range2", "limit(%d; range($a; $b))" % LIM), ("range2_def", "limit(%d; range($a; $b; 1))" % LIM),
        ("range1", "limit(%d; range($b))" % LIM), ("range1_def", "limit(%d; range(0; $b))" % LIM),
        ("range_multi", "[limit(%d; range($a, 0; $b, 1))]" % LIM),
        ("range_multi_def", "[limit(%d; ($a, 0) as $x | ($b, 1) as $y | range($x; $y))]" % LIM),
    ]
    prog = ". as [$a, $b, $c] | " + measure_prog("", m)

    def judge(v, ms, viol):
        for a, b, k in [("range3", "range3_def", "E09:range/3"), ("range2", "range2_def", "E09:range/2"),
                        ("range1", "range1_def", "E09:range/1"), ("range_multi", "range_multi_def", "E09:range-cartesian")]:
            if not same_stream(ms[a], ms[b]):
                viol(k, a, ms[a], b, ms[b])
        return bool(stream_of(ms["range3"])[0])
    return ("range", prog, judge, "range($a;$b;$c)")


def range_inputs(rng, n):
    nums = [0, 1, 2, 3, 5, -1, -3, 10, 0.5, 1.5, -0.5, 2.0, 2 ** 63, 2 ** 63 - 2, -(2 ** 63), 10 ** 20, 1e18, float("inf"),
            float("-inf"), Big(1)]
    strs = [S(""), S("a"), S("aa"), S("aaa"), S("b"), S("ab")]
    arrs = [[], [1], [1, 1], [1, 1, 1], [2], [[1]]]
    out = []
    for _ in range(n):
        r = rng.random()
        if r < 0.6:
            a, b, c = rng.choice(nums), rng.choice(nums), rng.choice(nums + [0, 1, -1, 2])
        elif r < 0.75:
            a, b, c = rng.choice(strs), rng.choice(strs), rng.choice(strs)
        elif r < 0.9:
            a, b, c = rng.choice(arrs), rng.choice(arrs), rng.choice(arrs)
        else:
            pool = nums + strs + arrs + [None, True]
            a, b, c = rng.choice(pool), rng.choice(pool), rng.choice(pool)
        # keep comparisons inside the documented domain (no NaN; huge ints only among ints/infinities)
        if all(V.cmp_in_domain(x, y) for x in (a, b, c, 0) for y in (a, b, c, 0)):
            out.append([a, b, c])
    return out


def generator_obligation(rng):
    """E10-E12: repeat, recurse/0,1,2, .., while, until against their definitions"""
    K = rng.choice([0, 1, 3, 6])
    g = rng.choice([".+1", "(.[]?)", "(if . < 3 then .+1, .+2 else empty end)", "(.+1 | select(. < 4))", "error(\"g\")",
                    "(if . < 2 then .+1 else error(\"late\") end)", "empty", "(.[1:]?)"])
    p = rng.choice([". < 3", "true", "false", ". != 2", "(true, false)"])
    # until must terminate on every input: the condition becomes true after finitely many steps
    up = rng.choice(["(type != \"number\") or . >= 5", "(type != \"number\") or . >= 5, false", "true", "(type != \"number\") or . > 3 or error(\"c\")"])
    ug = rng.choice([".+1", "(.+1, .+2)", ".+3", "if . == 2 then error(\"g\") else .+1 end", "if . == 1 then empty else .+1 end"])
    f = gen_stream(rng)
    f = "(1, %s)" % f
    if False:
        f = f       # repeat(empty) legitimately never yields: keep f productive
    m = [
        ("repeat", "limit(%d; repeat(%s))" % (K, f)),
        ("repeat_def", "limit(%d; . as $in | range(0; infinite) | $in | %s)" % (K, f)),
        ("recurse1", "limit(%d; recurse(%s))" % (K, g)), ("recurse1_def", "limit(%d; def r: ., (%s | r); r)" % (K, g)),
        ("recurse2", "limit(%d; recurse(%s; %s))" % (K, g, p)),
        ("recurse2_def", "limit(%d; recurse(%s | select(%s)))" % (K, g, p)),
        ("recurse0", "[limit(40; recurse)]"), ("recurse0_def", "[limit(40; recurse(.[]?))]"), ("dotdot", "[limit(40; ..)]"),
        ("while", "limit(%d; while(%s; %s))" % (K + 3, p, g)),
        ("while_def", "limit(%d; def r: if %s then ., (%s | r) else empty end; r)" % (K + 3, p, g)),
        ("until", "limit(%d; until(%s; %s))" % (K + 3, up, ug)),
        ("until_def", "limit(%d; def r: if %s then . else %s | r end; r)" % (K + 3, up, ug)),
    ]
    prog = measure_prog("", m)

    def judge(v, ms, viol):
        for a, b, k in [("repeat", "repeat_def", "E10:repeat"), ("recurse1", "recurse1_def", "E11:recurse/1"),
                        ("recurse2", "recurse2_def", "E11:recurse/2"), ("recurse0", "recurse0_def", "E11:recurse/0"),
                        ("dotdot", "recurse0", "E11:.."), ("while", "while_def", "E12:while"), ("until", "until_def", "E12:until")]:
            if not same_stream(ms[a], ms[b]):
                viol(k, a, ms[a], b, ms[b])
        return bool(stream_of(ms["recurse1"])[0])
    return ("generators", prog, judge, "g=%s p=%s f=%s until(%s; %s)" % (g, p, f, up, ug))


def fold_obligation(rng):
    """E15/E16: reduce / foreach equal their nested-pipe expansion (n = 0..3 items, update with
    0/1/2 outputs, variable / array / object patterns)"""
    n = rng.randrange(0, 4)
    # x1..xn are the *outputs* of xs: every item yields exactly one value (or an error), on the original input
    items = [rng.choice(["1", "2", "[3, 4]", "{\"a\": 5}", "null", "($in | type)", "error(\"x\")", "\"s\"", "[$in]"]) for _ in range(n)]
    pat, use = rng.choice([("$x", "$x"), ("[$x]", "$x"), ("{a: $x}", "$x"), ("[$x, $y]", "[$x, $y]"), ("{(\"a\", \"b\"): $x}", "$x")])
    u = rng.choice([". + [%s]" % use, "(. + [%s], .)" % use, "empty", "if length > 1 then empty else . + [%s] end" % use,
                    "error(\"u\")", ". + [%s] | select(length < 3)" % use, "[%s]" % use])
    proj = rng.choice([".", "length", "(., %s)" % use, "empty", "[%s, length]" % use])
    init = rng.choice(["[]", "([], [0])", "empty", "error(\"i\")", "[.]"])
    xs = "(" + ", ".join(items) + ")" if items else "empty"

    def red(k):
        if k == len(items):
            return ""
        return " | (%s as %s | %s)%s" % (items[k], pat, u, red(k + 1))

    def fe(k):
        if k == len(items):
            return "empty"
        return "(%s as %s | %s | ((%s), %s))" % (items[k], pat, u, proj, fe(k + 1))

    def fe2(k):
        if k == len(items):
            return "empty"
        return "(%s as %s | %s | (., %s))" % (items[k], pat, u, fe2(k + 1))
    if pat.startswith("{(\"a\", \"b\")"):
        # a pattern with several bindings per item: the manual's example
        # (`foreach .[] as {("a", "b"): $x} ([]; . + [$x])` --> [1] [1,2] [1,2,3] [1,2,3,4]) shows that the
        # bindings are folded over one after the other, i.e. like the flattened stream of bound values
        flat = "(%s | .[\"a\", \"b\"])" % xs
        m = [
            ("reduce", "reduce %s as %s (%s; %s)" % (xs, pat, init, u)), ("reduce_def", "reduce %s as $x (%s; %s)" % (flat, init, u)),
            ("foreach3", "foreach %s as %s (%s; %s; %s)" % (xs, pat, init, u, proj)),
            ("foreach3_def", "foreach %s as $x (%s; %s; %s)" % (flat, init, u, proj)),
            ("foreach2", "foreach %s as %s (%s; %s)" % (xs, pat, init, u)), ("foreach2_def", "foreach %s as $x (%s; %s)" % (flat, init, u)),
        ]
    else:
        m = [
            ("reduce", "reduce %s as %s (%s; %s)" % (xs, pat, init, u)), ("reduce_def", "%s%s" % (init, red(0))),
            ("foreach3", "foreach %s as %s (%s; %s; %s)" % (xs, pat, init, u, proj)), ("foreach3_def", "%s | %s" % (init, fe(0))),
            ("foreach2", "foreach %s as %s (%s; %s)" % (xs, pat, init, u)), ("foreach2_def", "%s | %s" % (init, fe2(0))),
        ]
    prog = ". as $in | " + measure_prog("", m)

    def judge(v, ms, viol):
        for a, b, k in [("reduce", "reduce_def", "E15:reduce"), ("foreach3", "foreach3_def", "E16:foreach/3"),
                        ("foreach2", "foreach2_def", "E16:foreach/2")]:
            # error payloads of built-in errors may mention the pattern/value identically on both sides
            if not same_stream(ms[a], ms[b]):
                viol(k, a, ms[a], b, ms[b])
        return bool(stream_of(ms["reduce"])[0] or stream_of(ms["foreach3"])[0])
    return ("folds", prog, judge, "xs=%s pat=%s u=%s proj=%s init=%s" % (xs, pat, u, proj, init))


def plain_inputs(rng, n):
    pool = [None, 0, 1, 2, 3, [1, 2, 3], [[1], [2, [3]]], Obj([(S("a"), 1), (S("b"), [2])]), S("ab"), [], Obj([]), 1.5, [None, False, 2]]
    return [rng.choice(pool) if rng.random() < 0.7 else gen.rand_json_like(rng, 2) for _ in range(n)]


def task(t):
    seed, idx, count, profile = t
    rng = random.Random(f"c11/{seed}/{idx}")
    c = par.client(profile)
    out = {"viol": [], "inconc": {}, "evals": 0, "nontrivial": 0, "distinct": set(), "samples": [], "by": {}}

    def inc(d, k, m=1):
        d[k] = d.get(k, 0) + m
    for i in range(count):
        kind = rng.choice(["combinators", "combinators", "range", "generators", "folds", "folds"])
        if kind == "combinators":
            name, prog, judge, desc = combinator_obligation(rng)
            inputs = [Obj([(S("n"), nn), (S("v"), v)]) for v in plain_inputs(rng, 3) for nn in counts(rng)]
        elif kind == "range":
            name, prog, judge, desc = range_obligation(rng)
            inputs = range_inputs(rng, 40)
        elif kind == "generators":
            name, prog, judge, desc = generator_obligation(rng)
            inputs = plain_inputs(rng, 8)
        else:
            name, prog, judge, desc = fold_obligation(rng)
            inputs = plain_inputs(rng, 6)
        try:
            res, resp = run_obligation(c, prog, inputs)
        except WorkerDied as e:
            inc(out["inconc"], classify_death(e))
            continue
        if res is None:
            out["viol"].append(("compile:" + name, {"program": prog, "response": str(resp)[:400]}))
            continue
        for v, ms, raw in res:
            out["evals"] += 1
            inc(out["by"], name)
            if ms is None:
                if "panic" in raw:
                    out["viol"].append(("panic:" + raw["panic"]["loc"], {"program": prog, "input": show(v), "panic": raw["panic"]}))
                else:
                    out["viol"].append(("run:" + name, {"program": prog, "input": show(v), "result": str(raw)[:400]}))
                continue

            def viol(key, la, a, lb, b, v=v):
                out["viol"].append((key, {"obligation": desc, "input": show(v), la: show_stream(a), lb: show_stream(b),
                                          "program": prog[:1500], "profile": profile}))
            try:
                nt = judge(v, ms, viol)
            except KeyError as e:
                out["viol"].append(("driver:missing-measurement", {"program": prog, "missing": str(e)}))
                continue
            if nt:
                out["nontrivial"] += 1
                out["distinct"].add(name + ":" + desc[:60] + ":" + V.kind(v))
        if len(out["samples"]) < 2:
            out["samples"].append({"obligation": name, "instance": desc, "inputs": [show(x, 60) for x in inputs[:3]]})
    out["distinct"] = list(out["distinct"])
    return out


def main():
    run = Run("C11")
    n = run.size(6000, 90000)
    per = 20
    tasks = [(run.seed, i, per, "verif" if i % 3 else "release") for i in range(max(2, n // per))]
    evals = nontrivial = 0
    by = {}
    distinct = Distinct()
    samples = Samples(8, run.rng("s"))
    for out in par.pmap(task, tasks, run.jobs):
        for key, w in out["viol"]:
            run.violation(key, w)
        for k, m in out["inconc"].items():
            run.inconc(k, m)
        evals += out["evals"]
        nontrivial += out["nontrivial"]
        for k, m in out["by"].items():
            by[k] = by.get(k, 0) + m
        for d in out["distinct"]:
            distinct.add(d)
        for s in out["samples"]:
            samples.add(s)
    run.finish({
        "evaluations": evals, "distinct_nontrivial": len(distinct),
        "rule": "one evaluation = one (obligation instance, input): a program computing all measurements of the instance "
                "(both sides of each equation, each as a stream with the position and payload of its first error); "
                "distinct = (obligation family, instance text, input type); non-trivial = the instantiated stream has outputs",
        "samples": samples.items, "evaluations_by_family": by, "nontrivial": nontrivial,
        "obligation_names": ["E01 limit,skip reproduce f", "E02 limit prefix / skip rest", "E03 first / first,last,nth shorthands",
                        "E04 last", "E05 nth", "E06 isempty", "E07 any/all (0,1,2 args)", "E08 add", "E09 range/1,2,3 vs while",
                        "E10 repeat", "E11 recurse/0,1,2 and ..", "E12 while/until", "E13 select", "E14 empty/error",
                        "E15 reduce expansion", "E16 foreach expansion", "E17 error position in every combinator"],
    }, assumptions=[
        "both sides of an equation are evaluated by the same binary: a defect shared by both sides is invisible here (C01 covers the core constructs against an independent reference)",
    ])


if __name__ == "__main__":
    main()
