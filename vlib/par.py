"""Process-parallel map for the drivers: each worker process keeps its own jaqmon client."""
import multiprocessing as mp
import os
import signal
import sys
import traceback

_clients = {}


def client(profile="verif", features=(), **kw):
    """Per-process cached jaqmon client."""
    from .client import Jaqmon
    key = (profile, tuple(features))
    c = _clients.get(key)
    if c is None:
        c = Jaqmon(profile, features, **kw)
        _clients[key] = c
    return c


def _init():
    signal.signal(signal.SIGINT, signal.SIG_IGN)
    sys.setrecursionlimit(100000)


def _call(args):
    f, task = args
    try:
        return ("ok", f(task))
    except Exception:
        return ("exc", traceback.format_exc())


def pmap(f, tasks, jobs=16):
    """Unordered parallel map of a top-level function over tasks; a Python exception in a
    task is a harness bug and aborts the run loudly (broken check, not a verdict)."""
    tasks = list(tasks)
    if not tasks:
        return
    jobs = max(1, min(jobs, len(tasks)))
    if jobs == 1:
        _init()
        for t in tasks:
            kind, r = _call((f, t))
            if kind == "exc":
                sys.stderr.write(r)
                raise SystemExit("HARNESS BUG in worker (broken check, not a verdict)")
            yield r
        return
    ctx = mp.get_context("fork")
    with ctx.Pool(jobs, initializer=_init) as pool:
        for kind, r in pool.imap_unordered(_call, [(f, t) for t in tasks]):
            if kind == "exc":
                sys.stderr.write(r)
                pool.terminate()
                raise SystemExit("HARNESS BUG in worker (broken check, not a verdict)")
            yield r
