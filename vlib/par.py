"""Process-parallel map for the drivers: each worker process keeps its own jaqmon client."""
import multiprocessing as mp
import os
import signal
import sys
import traceback

_clients = {}


def client(profile="verif", features=(), **kw):
    """Per-process cached jaqmon client."""
    from .client import Jaqmon
    key = (profile, tuple(features))
    c = _clients.get(key)
    if c is None:
        c = Jaqmon(profile, features, **kw)
        _clients[key] = c
    return c


def _init():
    signal.signal(signal.SIGINT, signal.SIG_IGN)
    sys.setrecursionlimit(100000)


class TaskTimeout(Exception):
    pass


def _alarm(_sig, _frm):
    raise TaskTimeout()


# generous wall-clock guard per task (tasks normally take seconds): a task that exceeds it is a
# harness defect (e.g. a model that diverges without using fuel) and makes the run a broken check,
# loudly, instead of hanging for ever; it is never a verdict
TASK_TIMEOUT = int(os.environ.get("VERIF_TASK_TIMEOUT", "3600"))


def _call(args):
    f, task = args
    try:
        import threading
        guarded = threading.current_thread() is threading.main_thread()
        if guarded:
            signal.signal(signal.SIGALRM, _alarm)
            signal.alarm(TASK_TIMEOUT)
        try:
            return ("ok", f(task))
        finally:
            if guarded:
                signal.alarm(0)
    except TaskTimeout:
        return ("exc", "task exceeded VERIF_TASK_TIMEOUT=%ds: %r\n%s" % (TASK_TIMEOUT, str(task)[:300], traceback.format_exc()))
    except Exception:
        return ("exc", traceback.format_exc())


def pmap(f, tasks, jobs=16):
    """Unordered parallel map of a top-level function over tasks; a Python exception in a
    task is a harness bug and aborts the run loudly (broken check, not a verdict)."""
    tasks = list(tasks)
    if not tasks:
        return
    jobs = max(1, min(jobs, len(tasks)))
    if jobs == 1:
        _init()
        for t in tasks:
            kind, r = _call((f, t))
            if kind == "exc":
                sys.stderr.write(r)
                sys.stderr.write("HARNESS BUG in worker (broken check, not a verdict)\n")
                raise SystemExit(2)
            yield r
        return
    ctx = mp.get_context("fork")
    with ctx.Pool(jobs, initializer=_init) as pool:
        for kind, r in pool.imap_unordered(_call, [(f, t) for t in tasks]):
            if kind == "exc":
                sys.stderr.write(r)
                pool.terminate()
                sys.stderr.write("HARNESS BUG in worker (broken check, not a verdict)\n")
                raise SystemExit(2)
            yield r
