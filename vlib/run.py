"""Common frame of every check: arguments, seeds, verdict discipline, evidence, replay files,
known findings.

Verdicts are three-valued: a *violation* (witness stored, exit 1 unless it is a listed known
finding), *held on what was observed* (exit 0), and *inconclusive* cases (counted, shown in the
evidence, never folded into the other two). A run that observed nothing fails as a broken
check (exit 2, no VIOLATION line)."""
import argparse
import hashlib
import json
import os
import random
import re
import sys
import time

VERIF = os.path.dirname(os.path.dirname(os.path.abspath(__file__)))
EVIDENCE = os.path.join(VERIF, "evidence")
REPLAYS = os.path.join(VERIF, "replays")
KNOWN = os.path.join(VERIF, "known_findings.json")


def load_known(pid):
    try:
        data = json.load(open(KNOWN))
    except FileNotFoundError:
        return []
    return [e for e in data.get("findings", []) if e.get("property") == pid and e.get("status") == "known"]


class Run:
    def __init__(self, pid, level="exploration", argv=None):
        ap = argparse.ArgumentParser()
        ap.add_argument("--tier", default=os.environ.get("VERIF_TIER", "quick"))
        ap.add_argument("--replay", default=None)
        ap.add_argument("--jobs", type=int, default=int(os.environ.get("VERIF_JOBS", "16")))
        ap.add_argument("--scale", type=float, default=float(os.environ.get("VERIF_SCALE", "1")))
        a = ap.parse_args(argv)
        self.pid = pid
        self.level = level
        self.tier = "thorough" if a.tier == "thorough" else "quick"
        self.replay = a.replay
        self.jobs = a.jobs
        self.scale = a.scale
        try:
            self.seed = int(os.environ.get("VERIF_SEED", "0"))
        except ValueError:
            self.seed = 0
        # --replay <file>: re-run the deterministic workload of the recorded seed and tier and
        # report whether the recorded violation (same canonical key) shows again
        self.replay_key = None
        if self.replay:
            try:
                rec = json.load(open(self.replay))
                self.seed = int(rec.get("seed", self.seed))
                self.tier = rec.get("tier", self.tier)
                self.replay_key = rec.get("key")
            except (OSError, ValueError) as e:
                print(f"cannot read replay file {self.replay}: {e}")
                sys.exit(2)
        self.t0 = time.time()
        self.known = load_known(pid)
        self.violations = []      # (key, witness, replay path)
        self.known_hits = {}      # finding id -> count
        self.known_samples = {}
        self.inconclusive = {}    # class -> count
        self.notes = []

    # ---- sizes ----------------------------------------------------------------------
    def size(self, quick, thorough):
        n = thorough if self.tier == "thorough" else quick
        return max(1, int(n * self.scale))

    def rng(self, *salt):
        h = hashlib.sha256(repr((self.pid, self.seed) + salt).encode()).digest()
        return random.Random(int.from_bytes(h[:8], "big"))

    # ---- verdict bookkeeping ----------------------------------------------------------
    def inconc(self, cls, n=1):
        self.inconclusive[cls] = self.inconclusive.get(cls, 0) + n

    def _match_known(self, key):
        for e in self.known:
            if key in e.get("keys", []):
                return e
            pat = e.get("pattern")
            if pat and re.fullmatch(pat, key):
                return e
        return None

    def violation(self, key, witness):
        """Record a violation with a canonical `key` (the specific failing input / call
        site / history class) and a JSON-able witness. Known findings are counted and
        printed as KNOWN-FINDING at the end; anything else fails the run."""
        e = self._match_known(key)
        if e is not None:
            fid = e.get("id", e.get("what", "?"))
            self.known_hits[fid] = self.known_hits.get(fid, 0) + 1
            self.known_samples.setdefault(fid, {"what": e.get("what", ""), "key": key})
            return False
        if any(k == key for k, _, _ in self.violations):
            return True
        path = None
        if len(self.violations) < 50 and self.replay is None:
            d = os.path.join(REPLAYS, self.pid)
            os.makedirs(d, exist_ok=True)
            h = hashlib.sha256(key.encode()).hexdigest()[:16]
            path = os.path.join(d, h + ".json")
            with open(path, "w") as f:
                json.dump({"property": self.pid, "key": key, "seed": self.seed, "tier": self.tier,
                           "witness": witness}, f, indent=1, default=str)
        self.violations.append((key, witness, path))
        stop = int(os.environ.get("VERIF_STOP_AFTER", "0") or 0)
        if stop and len(self.violations) >= stop and self.replay is None:
            # development switch (seeded-change matrix): the verdict is settled, do not finish the workload
            self.finish({"evaluations": 0, "distinct_nontrivial": 0, "samples": [],
                         "rule": "stopped after %d violations (VERIF_STOP_AFTER); nothing else is reported" % stop})
        return True

    # ---- finish -----------------------------------------------------------------------
    def finish(self, coverage, assumptions=(), broken=None):
        """Write the evidence file, print verdict lines, exit."""
        wall = time.time() - self.t0
        cov = dict(coverage)
        cov.setdefault("samples", [])
        cov["inconclusive"] = self.inconclusive
        cov["known_findings_matched"] = self.known_hits
        if self.notes:
            cov["notes"] = self.notes[:50]
        ev = {
            "property_id": self.pid,
            "tier": self.tier,
            "seed": self.seed,
            "level": self.level,
            "coverage": cov,
            "assumptions": list(assumptions),
            "wall_s": round(wall, 2),
            "violations": len(self.violations),
        }
        if self.replay is None:
            os.makedirs(EVIDENCE, exist_ok=True)
            tmp = os.path.join(EVIDENCE, f".{self.pid}.json.tmp")
            with open(tmp, "w") as f:
                json.dump(ev, f, indent=1, default=str)
            os.replace(tmp, os.path.join(EVIDENCE, f"{self.pid}.json"))
        for fid, n in sorted(self.known_hits.items()):
            s = self.known_samples[fid]
            print(f"KNOWN-FINDING: property={self.pid} {fid}: {s['what']} (seen {n}x, e.g. {s['key']})")
        if self.replay_key is not None:
            again = [v for v in self.violations if v[0] == self.replay_key]
            print(f"REPLAY property={self.pid} key={self.replay_key} reproduced={'yes' if again else 'no'}")
            if again:
                print(json.dumps(again[0][1], indent=1, default=str)[:4000])
                print(f"VIOLATION property={self.pid} replay={self.replay} key={self.replay_key}")
            sys.stdout.flush()
            sys.exit(1 if again else 0)
        for key, _w, path in self.violations[:50]:
            print(f"VIOLATION property={self.pid} replay={path} key={key}")
        nt = cov.get("distinct_nontrivial", 0)
        print(f"[{self.pid}] tier={self.tier} seed={self.seed} evaluations={cov.get('evaluations')} "
              f"distinct_nontrivial={nt} violations={len(self.violations)} "
              f"inconclusive={sum(self.inconclusive.values())} wall={wall:.1f}s")
        sys.stdout.flush()
        if self.violations:
            sys.exit(1)
        if broken:
            print(f"BROKEN-CHECK: {broken}")
            sys.exit(2)
        if self.replay is None and (cov.get("evaluations", 0) < 1 or nt < 2):
            print("BROKEN-CHECK: the run observed nothing non-trivial")
            sys.exit(2)
        sys.exit(0)


class Distinct:
    """Counts distinct non-trivial cases by a caller-supplied abstraction key."""

    def __init__(self, cap=2_000_000):
        self.seen = set()
        self.cap = cap

    def add(self, key):
        if len(self.seen) < self.cap:
            self.seen.add(key if isinstance(key, (str, bytes, int)) else hashlib.md5(repr(key).encode()).digest())

    def update(self, other):
        self.seen |= other.seen if isinstance(other, Distinct) else set(other)

    def __len__(self):
        return len(self.seen)


class Samples:
    """Reservoir of actual cases for the evidence file."""

    def __init__(self, k=8, rng=None):
        self.k = k
        self.items = []
        self.n = 0
        self.rng = rng or random.Random(0)

    def add(self, item):
        self.n += 1
        if len(self.items) < self.k:
            self.items.append(item)
        else:
            j = self.rng.randrange(self.n)
            if j < self.k:
                self.items[j] = item


def with_big_stack(main, mb=512):
    """Run `main` in a thread with a large stack (deep Python recursion of the reference
    interpreter), propagating its exit status."""
    import threading
    sys.setrecursionlimit(100000)
    threading.stack_size(mb * 1024 * 1024)
    box = {"code": 0}

    def body():
        try:
            main()
        except SystemExit as e:
            c = e.code
            box["code"] = c if isinstance(c, int) else (0 if c is None else 1)
            if c is not None and not isinstance(c, int):
                sys.stderr.write(str(c) + "\n")
        except BaseException:
            import traceback
            traceback.print_exc()
            box["code"] = 2
    t = threading.Thread(target=body)
    t.start()
    t.join()
    sys.stdout.flush()
    sys.exit(box["code"])
