"""C05 workload 2: programs (every native / prelude definition / syntactic operator form) and the
argument tuples they are run on. A program is `. as [$i,$a,$b,$c] | $i | BODY`; a case is the tuple."""
import math

from .codec import Big, Dec, Obj, Str
from . import c05_pool as P

SLOT_VARS = ["$a", "$b", "$c", "$d"]
# choices for a filter-typed parameter; "$" = a pool constant (takes a tuple slot), "2$" = two outputs
FUN_CHOICES = ["$", ".", ".[]", "empty", "error", "2$"]

REGEX_NAMES = {"test", "scan", "match", "capture", "split", "splits", "sub", "gsub", "matches", "split_matches", "split_"}
MATH2 = {"atan2", "copysign", "fdim", "fmax", "fmin", "fmod", "hypot", "jn", "ldexp", "nextafter", "pow", "remainder", "scalbln", "yn", "drem", "nexttoward",
         "scalb", "fma"}
COUNT_NAMES = {"range", "limit", "skip", "nth", "combinations", "flatten"}
PATH_NAMES = {"getpath", "setpath", "delpaths", "paths", "pick", "del", "path", "path_value", "to_entries", "from_entries", "with_entries"}

# syntactic forms (label, body, number of slots)
OPS = [
    ("op:index", ".[$a]", 1), ("op:index?", ".[$a]?", 1), ("op:slice", ".[$a:$b]", 2), ("op:slice-from", ".[$a:]", 1), ("op:slice-to", ".[:$a]", 1),
    ("op:slice?", ".[$a:$b]?", 2), ("op:index=", ".[$a] = $b", 2), ("op:index|=", ".[$a] |= $b", 2), ("op:index|=empty", ".[$a] |= empty", 1),
    ("op:index|=2", ".[$a] |= (., $b)", 2), ("op:slice=", ".[$a:$b] = $c", 3), ("op:slice|=", ".[$a:$b] |= $c", 3), ("op:slice|=id", ".[$a:$b] |= .", 2),
    ("op:slice|=empty", ".[$a:$b] |= empty", 2), ("op:slice|=rev", ".[$a:$b] |= (.[1:] + .[:1])?", 2), ("op:del-index", "del(.[$a])", 1),
    ("op:del-slice", "del(.[$a:$b])", 2), ("op:del-two", "del(.[$a, $b])", 2), ("op:iter=", ".[] = $a", 1), ("op:iter|=", ".[] |= $a", 1),
    ("op:iter|=empty", ".[] |= empty", 0), ("op:rec|=", ".. |= $a", 1), ("op:rec=", "(.. | select(type == \"number\")) = $a", 1),
    ("op:add", ". + $a", 1), ("op:sub", ". - $a", 1), ("op:mul", ". * $a", 1), ("op:div", ". / $a", 1), ("op:rem", ". % $a", 1), ("op:neg", "-.", 0),
    ("op:add3", ". + $a + $b", 2), ("op:mul3", ". * $a * $b", 2), ("op:+=", ".[0] += $a", 1), ("op:-=", ".a -= $a", 1), ("op:*=", ".[] *= $a", 1), ("op:/=", ".[] /= $a", 1),
    ("op:%=", ".[] %= $a", 1), ("op://=", ".[] //= $a", 1), ("op:cmp", "[. < $a, . <= $a, . == $a, . != $a, . >= $a, . > $a]", 1), ("op:alt", ". // $a", 1),
    ("op:andor", "[(. and $a), (. or $a), (. | not)]", 1), ("op:obj", "{(.): $a}", 1), ("op:obj2", "{($a): ., ($b): 1}", 2), ("op:objvar", "{$a, $b}", 2),
    ("op:arr", "[., $a, $b]", 2), ("op:interp", "\"x\\(.)y\\($a)\"", 1), ("op:destr-arr", ". as [$x, [$y]] | [$x, $y]", 0), ("op:destr-obj", ". as {a: $x, ($a): [$y]} | [$x, $y]", 1),
    ("op:destr-key", ". as {($a): $x} | $x", 1), ("op:reduce", "reduce .[] as $x ($a; . + $x)", 1),
    ("op:foreach", "foreach .[] as $x ($a; . + $x; [., $x])", 1), ("op:reduce-upd", "reduce $a[]? as $p (.; .[$p] = 1)", 1), ("op:recurse", "[..]", 0), ("op:iter", ".[]", 0),
    ("op:iter?", "[.[]?]", 0), ("op:try", "try error catch .", 0), ("op:try-err", "try error($a) catch .", 1), ("op:label", "label $o | (., $a) | if . == $a then break $o else . end", 1),
    ("op:if", "if . then $a elif $a then . else [.] end", 1), ("op:path-expr", "[paths]", 0), ("op:path-get", "path(.[$a]?)", 1), ("op:path-slice", "[path(.[$a:$b]?)]", 2),
    ("op:path-rec", "[path(..)] | length", 0), ("op:getpath-path", "[path(getpath($a)?)]", 1), ("op:limit-path", "path(limit($a; .[]?))", 1), ("op:first-path", "path(first(.[]?))", 0),
    ("op:tojson-fromjson", "tojson | fromjson", 0), ("op:tostring", "tostring", 0), ("op:tostring-tonumber", "tostring | tonumber", 0), ("op:ltrimstr-x", "ltrimstr($a) | rtrimstr($a)", 1),
    ("op:explode-implode", "explode | implode", 0), ("op:tobytes-index", "tobytes | [.[$a], .[$a:$b]]", 2), ("op:fmt-interp-base64", "@base64 \"a\\(.)b\"", 0),
    ("op:fmt-interp-base64d", "@base64d \"\\(.)\"", 0), ("op:fmt-interp-uri", "@uri \"\\(.)\\($a)\"", 1), ("op:fmt-interp-urid", "@urid \"\\(.)\"", 0), ("op:fmt-interp-sh", "@sh \"echo \\(.)\"", 0),
    ("op:fmt-interp-html", "@html \"<\\(.)>\"", 0), ("op:fmt-interp-htmld", "@htmld \"\\(.)\"", 0), ("op:fmt-interp-csv", "@csv \"\\(.)\"", 0), ("op:fmt-interp-tsv", "@tsv \"\\(.)\"", 0),
    ("op:fmt-interp-json", "@json \"\\(.)\"", 0), ("op:fmt-interp-text", "@text \"\\(.)\"", 0), ("op:env", "env | type", 0),
    ("op:todate-chain", "todate | fromdate", 0), ("op:gmtime-chain", "gmtime | mktime", 0), ("op:gmtime-todate", "gmtime | todate", 0), ("op:mktime-gmtime", "mktime | gmtime", 0),
    ("op:strptime-mktime", "strptime($a) | mktime", 1), ("op:strftime-strptime", "strftime($a) | strptime($a)", 1), ("op:localtime-mktime", "localtime | mktime", 0),
    ("op:gmtime-strftime", "gmtime | strftime($a)", 1),
    ("op:yaml-rt", "toyaml | fromyaml", 0), ("op:cbor-rt", "tocbor | fromcbor", 0), ("op:toml-rt", "totoml | fromtoml", 0), ("op:xml-rt", "toxml | fromxml", 0),
    ("op:csv-rt", "tocsv | fromcsv", 0), ("op:tsv-rt", "totsv | fromtsv", 0), ("op:sort-family", "[sort, unique, (group_by(.) | length), min, max]", 0),
    ("op:sort_by-a", "[sort_by(.a?), unique_by(.[0]?), min_by(.a?), max_by(.[0]?), (group_by(.a?) | length)]", 0), ("op:sort_by-$a", "sort_by($a), group_by(.[$a]?)", 1),
    ("op:sort_by-2", "sort_by(.[]?)", 0), ("op:sort_by-multi", "sort_by(.a?, .b?), group_by(.[0]?, .[1]?)", 0), ("op:sort_by-error", "try sort_by(error) catch \"e\"", 0),
    ("op:keys-has", "keys as $k | [$k[] as $x | has($x)]", 0), ("op:to_entries-rt", "to_entries | from_entries", 0), ("op:bsearch-self", ".[] as $x | bsearch($x)", 0),
    ("op:indices-self", ".[1:]? as $x | indices($x)", 0), ("op:contains-self", "contains(.), inside(.)", 0), ("op:splits-self", "[splits(.)?]", 0), ("op:join", "join($a)", 1),
    ("op:ascii", "ascii_downcase, ascii_upcase, (explode | length), utf8bytelength, length", 0), ("op:trim", "trim, ltrim, rtrim", 0), ("op:abs-family", "[abs?, floor?, ceil?, round?, trunc?, sqrt?, fabs?]", 0),
    ("op:tonumber", "tonumber, toboolean?", 0), ("op:getpath-setpath", "getpath($a) as $v | setpath($a; $v)", 1), ("op:paths-getpath", "[paths] as $ps | [$ps[] as $p | getpath($p)] | length", 0),
    ("op:delpaths-paths", "delpaths([paths])", 0), ("op:leaf_paths", "[paths(type == \"number\")]", 0), ("op:limit-neg", "[limit($a; .[]?, 1, 2)]", 1), ("op:skip", "[skip($a; .[]?, 1, 2)]", 1),
    ("op:nth", "nth($a; .[]?, 1, 2)", 1), ("op:range1", "[limit(5; range($a))]", 1), ("op:range2", "[limit(5; range($a; $b))]", 2), ("op:range3", "[limit(5; range($a; $b; $c))]", 3),
    ("op:range-rev", "[limit(5; range($a; .; $b))]", 2), ("op:input", "input", 0), ("op:inputs", "[inputs]", 0), ("op:halt_error", "halt_error", 0), ("op:halt_error1", "halt_error($a)", 1),
    ("op:error", "error", 0), ("op:error1", "error($a)", 1), ("op:debug", "debug, debug($a), stderr", 1), ("op:splits-g", "[match($a; \"g\")] | length", 1),
    ("op:sub-named", "sub($a; \"<\\(.x? // .)>\"; $b)", 2), ("op:gsub-empty", "gsub($a; \"\"; $b)", 2), ("op:gsub-self", "gsub($a; .[\"0\"]? // \"y\")", 1), ("op:ascii-char", "[.[] | [.] | implode]?", 0),
    ("op:getpath-nested", "getpath([$a, $b])", 2), ("op:setpath-nested", "setpath([$a, $b]; $c)", 3), ("op:delpaths-two", "delpaths([[$a], [$b]])", 2), ("op:pick-index", "pick(.[$a])", 1),
    ("op:pick-slice", "pick(.[$a:$b])?", 2), ("op:to_entries-upd", "with_entries(.value |= $a)", 1), ("op:walk-upd", "walk(if type == \"number\" then . + $a else . end)", 1),
    ("op:tojson-big", "[., $a] | tojson | fromjson", 1), ("op:tojson-precision", "tojson, (tojson | tojson), @json, @text", 0), ("op:add-gen", "add(., $a, $b)", 2), ("op:add-arr", "[., $a, $b] | add", 2),
    ("op:any-all", "[any, all, any(. == $a), all(. == $a)]?", 1), ("op:flatten", "flatten, flatten($a)", 1), ("op:transpose", "transpose", 0), ("op:combinations", "[limit(5; combinations)]", 0),
    ("op:in", "in($a), inside($a)", 1), ("op:index-rindex", "index($a), rindex($a), indices($a)", 1), ("op:min_by-$a", "min_by(.[$a]?), max_by(.[$a]?), unique_by(.[$a]?)", 1),
    ("op:ltrimstr-self", "ltrimstr(.[:$a]?), rtrimstr(.[$a:]?)", 1), ("op:startswith-slice", "startswith(.[:$a]?), endswith(.[$a:]?)", 1), ("op:split-self", ".[$a:$b]? as $s | split($s)", 2),
    ("op:tobytes-concat", "tobytes + ($a | tobytes)", 1), ("op:bytes-cmp", "[tobytes < $a, tobytes == $a]", 1), ("op:str-mul-div", "(. * $a) / .", 1), ("op:obj-mul", ". * $a * .", 1),
    ("op:obj-add-keys", ". + $a | keys_unsorted, keys, length", 1), ("op:isvalid", "try (.[$a] | true) catch false", 1), ("op:significand-family", "[significand?, logb?, gamma?, lgamma?, tgamma?, frexp?, modf?, exp10?, pow10?, ilogb?]", 0),
    ("op:ldexp-family", "[ldexp(.; $a)?, scalb(.; $a)?, scalbln(.; $a)?, nearbyint?, rint?]", 1), ("op:toarray", "[.] | flatten | first", 0), ("op:getpath-str", "getpath([\"a\", 0, \"b\"])", 0),
    ("op:splits-flags-null", "[splits($a; null)]", 1), ("op:test-arr", "test([$a, $b])?", 2), ("op:ascii-alt", "@text, @json, @html, @uri, @csv?, @tsv?, @sh?, @base64, @base64d?, @urid?, @htmld?", 0),
]

# values that may be used as "count"-like arguments without exhausting memory/time legitimately
MAX_COUNT = 1 << 16


def num_of(v):
    """numeric value of a model number, else None"""
    if isinstance(v, bool) or v is None:
        return None
    if isinstance(v, Big):
        return v.n
    if isinstance(v, int):
        return v
    if isinstance(v, float):
        return v
    if isinstance(v, Dec):
        try:
            return float(v.text)
        except Exception:
            return None
    return None


def big_count(v):
    x = num_of(v)
    if x is None:
        return False
    if isinstance(x, float) and (math.isnan(x)):
        return False
    return abs(x) > MAX_COUNT


def strlen(v):
    return len(v.b) if isinstance(v, Str) else None


def falsy(v):
    return v is None or v is False


class Prog:
    __slots__ = ("label", "name", "arity", "body", "slots", "family", "funsig", "tame", "kind")

    def __init__(self, label, name, arity, body, slots, kind, funsig=""):
        self.label, self.name, self.arity, self.body, self.slots, self.kind, self.funsig = label, name, arity, body, slots, kind, funsig
        self.family = family_of(name, label)
        self.tame = tame_rule(self)

    def text(self):
        vs = ["$i"] + SLOT_VARS[:self.slots]
        return ". as [" + ", ".join(vs) + "] | $i | " + self.body


def family_of(name, label):
    if name in REGEX_NAMES:
        return "regex"
    if name in MATH2:
        return "math"
    if name in COUNT_NAMES or label.startswith(("op:range", "op:limit", "op:skip", "op:nth")):
        return "count"
    if "slice" in label or label.startswith("op:tobytes-index") or label.startswith("op:split-self"):
        return "slice"
    if name in PATH_NAMES or "path" in label or label.startswith(("op:index=", "op:index|=", "op:del-two", "op:pick")):
        return "path"
    if name in ("strftime", "strflocaltime", "strptime") or "strftime" in label or "strptime" in label:
        return "time"
    return "general"


def tame_rule(p):
    """-> predicate(values tuple [i, a, b, ...]) -> keep?  Only removes tuples whose *legitimate*
    behaviour is to run (practically) forever or to allocate without bound."""
    name, label = p.name, p.label
    if name == "combinations" and p.arity == 1:
        return lambda t: num_of(t[1]) is None or (num_of(t[1]) == num_of(t[1]) and abs(num_of(t[1])) <= 64)
    if label in ("op:mul", "op:mul3", "op:str-mul-div", "op:obj-mul"):
        def ok(t):
            fs = {"op:mul": [t[0], t[1]], "op:str-mul-div": [t[0], t[1]], "op:obj-mul": [t[0], t[1], t[0]]}.get(label) or [t[0], t[1], t[2]]
            s = max([strlen(v) or 0 for v in fs])
            if not s:
                return True
            tot = s
            for v in fs:
                x = num_of(v)
                if x is None:
                    continue
                if isinstance(x, float):
                    continue      # evaluation is left to right: an earlier (string * integer) is built before a float is seen
                tot *= max(1, abs(x))
            return tot <= (1 << 17)
        return ok
    if name in ("jn", "yn"):
        def ok(t):
            n = num_of(t[1]) if len(t) > 1 else None
            x = num_of(t[2]) if len(t) > 2 else None
            if n is None or isinstance(n, float) or abs(n) <= (1 << 20):
                return True
            return x is not None and (x == 0 or (isinstance(x, float) and (math.isnan(x) or math.isinf(x))))
        return ok
    if name == "repeat" and ".[]" in p.funsig:
        return lambda t: (isinstance(t[0], list) and len(t[0]) > 0) or (isinstance(t[0], Obj) and len(t[0].items) > 0) or not isinstance(t[0], (list, Obj))
    if label in ("op:*=",):
        def ok(t):
            def has_str(v):
                return isinstance(v, Str) and len(v.b) > 0 or isinstance(v, list) and any(has_str(x) for x in v) or isinstance(v, Obj) and any(has_str(x) for _k, x in v.items)
            return not (big_count(t[1]) and has_str(t[0])) and not (isinstance(t[1], Str) and len(t[1].b) > 0 and any(big_count(x) for x in (t[0] if isinstance(t[0], list) else [x for _k, x in t[0].items] if isinstance(t[0], Obj) else [])))
        return ok
    if name in ("sub", "gsub") and ("2$" in p.funsig or ".[]" in p.funsig):
        return lambda t: (strlen(t[0]) or 0) <= 12
    if label in ("op:flatten",) or name == "flatten":
        return None
    if name == "transpose" or label == "op:transpose":
        # `transpose` ranges over the maximal `length` of the members: numbers count by magnitude
        def ok(t):
            v = t[0]
            items = v if isinstance(v, list) else [x for _, x in v.items] if isinstance(v, Obj) else []
            return not any(big_count(x) or (isinstance(num_of(x), float) and math.isinf(num_of(x))) for x in items)
        return ok
    return None


def progs_for(natives, defs):
    """all programs: one per (callable, choice of filter arguments), plus the syntactic forms"""
    out = []
    seen = set()
    callables = []
    for name, kinds in natives:
        callables.append((name, ["var" if k == "var" else "fun" for k in kinds], "native"))
    for name, args in defs:
        callables.append((name, ["var" if a.startswith("$") else "fun" for a in args], "def"))
    for name, kinds, kind in callables:
        key = (name, len(kinds))
        if key in seen:
            continue
        seen.add(key)
        funpos = [k for k, x in enumerate(kinds) if x == "fun"]
        combos = [tuple("$" for _ in funpos)]
        for fp in range(len(funpos)):
            for ch in FUN_CHOICES[1:]:
                c = ["$"] * len(funpos)
                c[fp] = ch
                combos.append(tuple(c))
        if len(funpos) >= 2:
            combos += [tuple("." for _ in funpos), tuple(".[]" for _ in funpos), tuple("empty" for _ in funpos), tuple("error" for _ in funpos)]
        if name == "repeat":
            # `def repeat(f): def rec: f, rec; rec;` never ends without output when f yields nothing
            combos = [c for c in combos if c[0] != "empty"]
        if name == "until":
            combos = [c for c in combos if (c[1] in ("error", "empty")) or (c[0] in ("error", "empty"))]
            combos += [("$", "error"), (".", "error"), (".[]", "empty"), ("2$", "error")]
            combos = sorted(set(combos))
        for combo in combos:
            slot = 0
            args = []
            fi = 0
            for x in kinds:
                if x == "var":
                    args.append(SLOT_VARS[slot])
                    slot += 1
                else:
                    ch = combo[fi]
                    fi += 1
                    if ch == "$":
                        args.append(SLOT_VARS[slot])
                        slot += 1
                    elif ch == "2$":
                        args.append("(%s, .)" % SLOT_VARS[slot])
                        slot += 1
                    else:
                        args.append(ch)
                if slot > 3:
                    break
            if slot > 3:
                continue
            body = name + ("(" + "; ".join(args) + ")" if args else "")
            sig = ",".join(combo)
            label = f"{name}/{len(kinds)}" + (f"[{sig}]" if sig else "")
            out.append(Prog(label, name, len(kinds), body, slot, kind, sig))
    for label, body, slots in OPS:
        out.append(Prog(label, label, slots, body, slots, "op"))
    return out


# ---------------------------------------------------------------------------------------------
# tuple plans

def thin(pool, per_cat, rng):
    """stratified subset: up to per_cat values of every category (first ones + random ones)"""
    by = {}
    for idx, (cat, _v) in enumerate(pool):
        if cat != "slow":
            by.setdefault(cat, []).append(idx)
    out = []
    for cat, idxs in by.items():
        if len(idxs) <= per_cat:
            out += idxs
        else:
            head = idxs[:max(1, per_cat // 3)]
            rest = [i for i in idxs if i not in head]
            out += head + rng.sample(rest, per_cat - len(head))
    return sorted(out)


def cats(pool, names):
    return [i for i, (c, _v) in enumerate(pool) if c in names]


def domain_slots(p, pool, rng, scale, slow_only=False):
    """family-specific products: list of index lists [inputs, slot1, slot2, ...] or None"""
    k = p.slots
    if slow_only:
        if p.family != "regex" or k < 1:
            return None
    elif k < 2:
        return None
    S = lambda idxs, n: idxs if len(idxs) <= n else sorted(rng.sample(idxs, n))
    strs = cats(pool, {"str", "mbstr", "badutf8", "bytes"})
    nums = cats(pool, P.NUM_CATS)
    if p.family == "regex":
        re_ = cats(pool, {"regex"}) + cats(pool, {"str"})[:6]
        if slow_only:
            return [S(strs, 6), cats(pool, {"slow"})] + [S(cats(pool, {"flags", "null"}), 4)] * (k - 1)
        fl = cats(pool, {"flags", "null"})
        if k == 2:
            return [S(strs, int(60 * scale)), re_, fl]
        return [S(strs, int(30 * scale)), S(re_, int(40 * scale)), S(cats(pool, {"str", "mbstr", "null", "struct"}), int(12 * scale)), fl][:k + 1]
    if p.family == "math":
        if k == 2:
            return [S(nums, 3) + cats(pool, {"null"}), S(nums, int(140 * scale)), S(nums, int(140 * scale))]
        return [S(nums, 2), S(nums, int(40 * scale)), S(nums, int(40 * scale)), S(nums, int(40 * scale))]
    if p.family in ("count", "slice"):
        cont = cats(pool, {"str", "mbstr", "badutf8", "bytes", "struct", "cparr", "null"})
        small = [i for i in nums if num_of(pool[i][1]) is not None and abs(num_of(pool[i][1])) <= 8] + cats(pool, {"null"})
        bnd = S([i for i in nums if i not in small], int(30 * scale))
        a = small + bnd
        if k == 2:
            return [S(cont, int(110 * scale)), a, a]
        return [S(cont, int(40 * scale)), S(a, int(35 * scale)), S(a, int(35 * scale)), S(a + cats(pool, {"str", "struct"})[:10], int(30 * scale))]
    if p.family == "path":
        st = cats(pool, {"struct", "path", "xmlobj", "null", "str", "timearr"})
        pa = cats(pool, {"path", "smallint", "int", "str", "null", "struct"})
        if k == 2:
            return [S(st, int(110 * scale)), S(pa, int(110 * scale)), S(pa, int(90 * scale))]
        return [S(st, int(40 * scale)), S(pa, int(40 * scale)), S(pa, int(30 * scale)), S(list(range(len(pool))), int(25 * scale))]
    if p.family == "time":
        return [nums + cats(pool, {"timearr", "date"}), cats(pool, {"fmt", "date"}), cats(pool, {"fmt"})][:k + 1]
    return None


def plan_size(plan):
    n = 0
    for kind, lists, extra in plan:
        if kind == "prod":
            m = 1
            for l in lists:
                m *= len(l)
            n += m
        else:
            n += extra
    return n
