"""Value generators: boundary atoms, exhaustive small trees, random larger trees."""
import itertools
import math
import struct

from .codec import Big, Dec, Obj, S, Str

INTS = [0, 1, -1, 2, -2, 3, 7, 255, 256, 2 ** 31 - 1, 2 ** 31, -(2 ** 31), -(2 ** 31) - 1, 2 ** 32,
        2 ** 53 - 1, 2 ** 53, 2 ** 53 + 1, -(2 ** 53), -(2 ** 53) - 1,
        2 ** 63 - 1, 2 ** 63, 2 ** 63 + 1, -(2 ** 63), -(2 ** 63) - 1, -(2 ** 63) + 1,
        2 ** 64 - 1, 2 ** 64, 2 ** 64 + 1, -(2 ** 64), 2 ** 70, -(2 ** 70), 10 ** 20, -(10 ** 20), 2 ** 130]


def f_from_bits(h):
    return struct.unpack(">d", bytes.fromhex(h))[0]


FLOATS = [0.0, -0.0, 1.0, -1.0, 0.5, -0.5, 1.5, 2.5, -2.5, 0.1, 1e-7, 1e21, 1e22, 123456789.125,
          float(2 ** 53), float(2 ** 53) + 2, -float(2 ** 53), float(2 ** 63), -float(2 ** 63),
          float(2 ** 64), 1.7976931348623157e308, -1.7976931348623157e308,
          5e-324, -5e-324, 2.2250738585072014e-308, 2.225073858507201e-308,
          math.inf, -math.inf, 3.0, 255.0, 4096.0, 1e15, 1e16, 1e17, 0.30000000000000004]

NAN = math.nan

DECS = [Dec("1.0"), Dec("1e0"), Dec("1.00"), Dec("1.10"), Dec("0.0"), Dec("-0.0"), Dec("0e0"),
        Dec("1e1000"), Dec("-1e1000"), Dec("0.1e-400"), Dec("1.5"), Dec("2.50"), Dec("100e-2"),
        Dec("9007199254740992.0"), Dec("1E2"), Dec("1e+2"), Dec("3.0"), Dec("1e-7")]

STR_BYTES = [b"", b"a", b"b", b"ab", b"A", b" ", b"\"", b"\\", b"\x00", b"\x1f", b"\x7f", b"\n", b"\t",
             "é".encode(), "€".encode(), "𝄞".encode(), b"\xff", b"a\xffb", " ".encode(), b"0", b"1",
             b"null", b"true", b"a b", b"/", "￿".encode(), b"\xc3", b"\xed\xa0\x80"]


def strings(text=True):
    return [Str(b, text) for b in STR_BYTES]


def scalar_pool(nan=False, decs=True, bigreps=True, bytestr=True):
    pool = [None, False, True]
    pool += INTS
    if bigreps:
        pool += [Big(0), Big(1), Big(-1), Big(2 ** 53)]
    pool += FLOATS
    if nan:
        pool.append(NAN)
    if decs:
        pool += DECS
    pool += strings(True)
    if bytestr:
        pool += strings(False)[:12]
    return pool


def small_trees(atoms, keys, max_nodes):
    """All trees with at most max_nodes nodes: atoms, arrays of trees, objects with distinct
    keys (by position in `keys`) -> trees. Deterministic order."""
    by_size = {1: list(atoms) + [[], Obj([])]}

    def seqs(total, parts):
        # all tuples of `parts` trees whose sizes sum to total
        if parts == 0:
            if total == 0:
                yield ()
            return
        for s in range(1, total - parts + 2):
            for head in by_size.get(s, []):
                for rest in seqs(total - s, parts - 1):
                    yield (head,) + rest

    for n in range(2, max_nodes + 1):
        cur = []
        for parts in range(1, n):
            for children in seqs(n - 1, parts):
                cur.append(list(children))
            for ks in itertools.permutations(keys, parts):
                for children in seqs(n - 1, parts):
                    cur.append(Obj(list(zip(ks, children))))
        by_size[n] = cur
    out = []
    for n in range(1, max_nodes + 1):
        out += by_size[n]
    return out


def rand_value(rng, depth=3, pool=None, keys=None, width=4, nan=False):
    pool = pool or scalar_pool(nan=nan)
    if depth <= 0 or rng.random() < 0.45:
        return rng.choice(pool)
    if rng.random() < 0.5:
        return [rand_value(rng, depth - 1, pool, keys, width) for _ in range(rng.randrange(width + 1))]
    n = rng.randrange(width + 1)
    items = []
    used = []
    from . import values as V
    for _ in range(n):
        if keys is not None:
            k = rng.choice(keys)
        elif rng.random() < 0.7:
            k = Str(rng.choice([b"a", b"b", b"c", b"", b"k", b"start", b"end", b"\xff"]), True)
        else:
            k = rand_value(rng, depth - 2, pool, keys, 2)
        if V.has_nan(k) or any(V.eq(k, u) for u in used):
            continue
        used.append(k)
        items.append((k, rand_value(rng, depth - 1, pool, keys, width)))
    return Obj(items)


def rand_json_like(rng, depth=3):
    """values of the plain-JSON kind (string keys, ints/floats, text strings)"""
    pool = [None, False, True, 0, 1, -1, 2, 3, 10, 1.5, -0.5, S("a"), S("b"), S(""), S("é"), S("x y")]
    keys = [S("a"), S("b"), S("c"), S("d")]
    return rand_value(rng, depth, pool, keys)
