"""C06 runners: scratch fixtures, traced executions of `jaqmon phase` and of the real `jaq`,
and the analysis of their strace logs with the policy automaton of c06_trace."""
import hashlib
import json
import os
import re
import shutil
import signal
import subprocess
import tempfile
import time

from . import c06_trace as T

OLD_ATIME_NS = 978307200 * 10 ** 9      # 2001-01-01: a later read moves atime (relatime)


# ---------------------------------------------------------------------------------------
# scratch directory, fixtures, canaries
def make_scratch():
    scr = tempfile.mkdtemp(prefix="c06-", dir="/tmp")
    scr = os.path.realpath(scr)
    for d in ("cwd", "canary", "home/.cache", "fix/lib", "fix/docs", "inplace/a", "inplace/b", "tz", "logs"):
        os.makedirs(os.path.join(scr, d))
    return scr


def w(path, data):
    with open(path, "wb") as f:
        f.write(data if isinstance(data, bytes) else data.encode())


INPLACE_FAIL_FILES = {"err.json": "[1, 2, 3]\n", "halt.json": "[1, 2]\n", "parse.json": "1 2 ]\n", "later.json": "[4]\n",
                      "empty-out.json": "[5]\n"}


def make_fixtures(scr):
    fix = os.path.join(scr, "fix")
    w(fix + "/lib/m.jq", 'def f: "/etc/passwd";\n')
    w(fix + "/lib/inc.jq", 'def g: "%s/canary/secret.txt";\n' % scr)
    w(fix + "/lib/dat.json", '["/etc/passwd"]\n')
    w(fix + "/prog.jq", 'import "m" as m; import "dat" as $d; include "inc";\n[m::f, g, $d, $r, $s, .] | tojson\n')
    w(fix + "/prog_meta.jq", 'import "m" as m {search: "./lib"}; import "dat" as $d {search: ["./lib"]};\n[m::f, $d, .] | tojson\n')
    w(fix + "/raw.txt", "/etc/passwd\n%s/canary/secret.txt\n" % scr)
    w(fix + "/slurp.json", '"/etc/passwd" {"path": "%s/canary/secret.txt"}\n' % scr)
    w(fix + "/in1.json", '{"a": "/etc/passwd", "b": "%s/canary/secret.txt"}\n"| sh"\n' % scr)
    w(fix + "/in2.json", '["file:///etc/passwd", "$(touch %s/cwd/pwn-in2)"]\n' % scr)
    for sub, name in (("a", "f.json"), ("b", "g.json")):
        w(os.path.join(scr, "inplace", sub, name), '{"a": 1, "p": "/etc/passwd"}\n')
    # inputs of --in-place runs that end early (filter error, halt, malformed later value): one file per case
    os.makedirs(os.path.join(scr, "inplace", "fail"), exist_ok=True)
    for name, text in INPLACE_FAIL_FILES.items():
        w(os.path.join(scr, "inplace", "fail", name), text)
    tzsrc = "/usr/share/zoneinfo/Europe/Berlin"
    if os.path.exists(tzsrc):
        shutil.copyfile(tzsrc, scr + "/tz/Custom")
    # canaries: content known without reading the file back; atime set in the past
    can = {}
    for name, content in (("secret.txt", "c06 canary secret\n"), ("secret.json", '{"canary": true}\n'),
                          ("x.dtd", '<!ENTITY leaked "c06 canary dtd">\n')):
        p = os.path.join(scr, "canary", name)
        w(p, content)
        st = os.stat(p)
        os.utime(p, ns=(OLD_ATIME_NS, st.st_mtime_ns))
        st = os.stat(p)
        can[p] = {"sha": hashlib.sha256(content.encode()).hexdigest(), "mtime": st.st_mtime_ns, "ino": st.st_ino,
                  "size": st.st_size, "mode": st.st_mode, "atime": st.st_atime_ns}
    return can


def atime_sensitive(scr):
    """does this file system move atime on a read (relatime/strictatime)?"""
    p = os.path.join(scr, "logs", "atime-probe")
    w(p, "x")
    st = os.stat(p)
    os.utime(p, ns=(OLD_ATIME_NS, st.st_mtime_ns))
    with open(p, "rb") as f:
        f.read()
    return os.stat(p).st_atime_ns != OLD_ATIME_NS


def listing(scr):
    out = {}
    for top in ("cwd", "canary", "home", "fix", "tz"):
        for d, dirs, files in os.walk(os.path.join(scr, top)):
            for n in dirs + files:
                p = os.path.join(d, n)
                try:
                    st = os.lstat(p)
                    out[os.path.relpath(p, scr)] = (st.st_ino, st.st_size, st.st_mtime_ns, st.st_mode)
                except OSError:
                    pass
    return out


def check_canaries(can, atime_works):
    """-> list of (key, witness)"""
    out = []
    for p, old in can.items():
        try:
            st = os.stat(p)
        except OSError as e:
            out.append(("fs-state:canary-removed", {"path": p, "error": str(e)}))
            continue
        new = {"mtime": st.st_mtime_ns, "ino": st.st_ino, "size": st.st_size, "mode": st.st_mode}
        atime = st.st_atime_ns
        sha = hashlib.sha256(open(p, "rb").read()).hexdigest()
        changed = {k: (old[k], new[k]) for k in new if old[k] != new[k]}
        if sha != old["sha"]:
            changed["sha"] = (old["sha"], sha)
        if changed:
            out.append(("fs-state:canary-modified", {"path": p, "changed": changed}))
        if atime_works and atime != old["atime"]:
            out.append(("fs-state:canary-read", {"path": p, "atime_before": old["atime"], "atime_after": atime,
                                                 "note": "access time moved: some process read the canary"}))
    return out


# ---------------------------------------------------------------------------------------
# strace
def strace_config():
    """-> (argv prefix, trace set) or raises SystemExit for a broken environment"""
    if shutil.which("strace") is None:
        return None
    sets = ["%file,%network,%process,%desc,io_uring_setup,io_uring_enter,io_uring_register",
            "%file,%network,%process,%desc"]
    # (--seccomp-bpf was measured to cost ~0.5 s of start-up per traced process with this trace set: not used)
    for seccomp in (False,):
        for ts in sets:
            cmd = ["strace"] + (["--seccomp-bpf"] if seccomp else []) + ["-f", "-y", "-s", "48", "-o", "/dev/null",
                                                                         "-e", "trace=" + ts, "--", "/bin/true"]
            try:
                p = subprocess.run(cmd, stdout=subprocess.DEVNULL, stderr=subprocess.PIPE, timeout=30)
            except (OSError, subprocess.TimeoutExpired):
                continue
            if p.returncode == 0 and b"invalid" not in p.stderr.lower():
                return {"prefix": ["strace"] + (["--seccomp-bpf"] if seccomp else []) + ["-f", "-y", "-s", "48"],
                        "trace": ts, "seccomp": seccomp}
    return None


def base_env(scr, tz="UTC", extra=None):
    env = {"PATH": "/usr/bin:/bin", "HOME": os.path.join(scr, "home"), "NO_COLOR": "1", "LANG": "C",
           "JAQMON_STACK_MB": "256",
           # one malloc arena: glibc reads /proc/sys/vm/overcommit_memory when it trims a non-main heap
           "MALLOC_ARENA_MAX": "1"}
    if tz is not None:
        env["TZ"] = tz
    if extra:
        env.update(extra)
    return env


def _pre():
    import resource
    os.setsid()
    lim = 6 << 30
    resource.setrlimit(resource.RLIMIT_AS, (lim, lim))
    resource.setrlimit(resource.RLIMIT_CORE, (0, 0))


_TICK = os.sysconf("SC_CLK_TCK")


_KIDS = {}


def _stat_fields(pid):
    with open("/proc/%s/stat" % pid) as f:
        st = f.read()
    return st[st.rindex(")") + 2:].split()


def _tracee_cpu(strace_pid):
    """CPU seconds (user+system, all threads) consumed so far by the children of strace
    (found by scanning /proc for the parent pid once; /proc/<pid>/task/<tid>/children may be absent)"""
    ent = _KIDS.get(strace_pid)
    kids = ent[0] if ent else None
    if ent:
        ent[1] += 1
    # re-scan until the tracee is there, then now and then
    if not kids or ent[1] % 10 == 0:
        kids = []
        for d in os.listdir("/proc"):
            if d.isdigit():
                try:
                    if int(_stat_fields(d)[1]) == strace_pid:
                        kids.append(d)
                except (OSError, ValueError, IndexError):
                    pass
        n = ent[1] if ent else 0
        _KIDS.clear()
        _KIDS[strace_pid] = [kids, n]
    total = 0.0
    for k in kids:
        try:
            f = _stat_fields(k)
            if int(f[1]) != strace_pid:      # the pid was recycled
                continue
            total += (int(f[11]) + int(f[12])) / _TICK
        except (OSError, ValueError, IndexError):
            pass
    return total


def run_traced(cfg, argv, env, cwd, log, stdin=None, timeout=60, stdout_path=None, stall=None):
    """-> (returncode or None on timeout, stdout bytes, stderr tail, wall)
    stall: kill when the tracee has used that many CPU seconds while the strace log did not grow
    (every case writes a marker line); `timeout` is only a last-resort wall-clock cap"""
    cmd = cfg["prefix"] + ["-o", log, "-e", "trace=" + cfg["trace"], "--"] + argv
    t0 = time.time()
    _KIDS.clear()                          # pids are recycled quickly on a busy machine
    out_f = open(stdout_path, "wb") if stdout_path else subprocess.PIPE
    p = subprocess.Popen(cmd, env=env, cwd=cwd, stdin=subprocess.PIPE if stdin is not None else subprocess.DEVNULL,
                         stdout=out_f, stderr=subprocess.PIPE, preexec_fn=_pre)
    try:
        if stall is None:
            so, se = p.communicate(stdin, timeout=timeout)
        else:
            last_size, last_cpu = -1, 0.0
            while True:
                try:
                    so, se = p.communicate(timeout=0.5)
                    break
                except subprocess.TimeoutExpired:
                    pass
                try:
                    size = os.path.getsize(log)
                except OSError:
                    size = -1
                cpu = _tracee_cpu(p.pid)
                if size != last_size:
                    last_size, last_cpu = size, cpu
                # load-independent: the tracee burnt `stall` CPU seconds without a single traced call
                if cpu - last_cpu > stall or time.time() - t0 > timeout:
                    run_traced.last_kill = "cpu %.1f -> %.1f, log size %d, wall %.0f" % (last_cpu, cpu, size, time.time() - t0)
                    raise subprocess.TimeoutExpired(cmd, timeout)
        rc = p.returncode
    except subprocess.TimeoutExpired:
        try:
            os.killpg(p.pid, signal.SIGKILL)
        except OSError:
            pass
        so, se = p.communicate()
        rc = None
    if stdout_path:
        out_f.close()
        so = b""
    return rc, so or b"", (se or b"")[-400:].decode("utf-8", "replace"), time.time() - t0


run_traced.last_kill = ""


def tz_files_of(tz, cwd):
    """files the TZ variable may name: jiff reads TZ=:path, TZ=/path and - when the value is not a
    known zone - the value itself as a path relative to the working directory"""
    if not tz:
        return set()
    out = set()
    for v in (tz, tz[1:] if tz.startswith(":") else tz):
        if v:
            out.add(os.path.normpath(os.path.join(cwd, v)))
    return out


# ---------------------------------------------------------------------------------------
# jaqmon phase shards
def analyse_phase_log(log, reqs_by_id, control_ids, tz, cwd="/"):
    """Cut the log into per-case execution phases and judge every event inside a phase.
    -> dict(observed={(id,k)}, findings=[...], hist={syscall:n}, statlike=n, done=set, inflight, all_done,
            markers=n, lines=n, noise=set, phase_events={(id,k): [raw...]}, death)"""
    tzf = tz_files_of(tz, cwd)
    cur = None
    observed = set()
    started = set()
    done = set()
    all_done = False
    markers = 0
    hist = {}
    statlike = 0
    findings = []
    noise = set()
    phase_events = {}
    death = None
    lines = 0
    pol_cache = {}
    last_marker_id = None
    for ev in T.iter_events(log):
        lines += 1
        if ev.name == "+++":
            if "killed" in ev.raw or ("exited with" in ev.raw and not ev.raw.startswith("+++ exited with 0")):
                death = ev.raw
            continue
        if ev.name == "---":
            if cur is not None:
                hist["signal"] = hist.get("signal", 0) + 1
            continue
        mk = T.is_marker(ev)
        if mk is not None:
            markers += 1
            parts = mk.split("/")
            kind = parts[2] if len(parts) > 2 else ""
            if kind == "EXEC-PHASE":
                rid = int(parts[3])
                started.add(rid)
                last_marker_id = rid
                cur = (rid, -1)
            elif kind == "CASE":
                if cur is not None and cur[1] >= 0:
                    observed.add(cur)
                cur = (int(parts[3]), int(parts[4]))
                last_marker_id = cur[0]
            elif kind == "EXEC-DONE":
                if cur is not None and cur[1] >= 0:
                    observed.add(cur)
                done.add(int(parts[3]))
                last_marker_id = int(parts[3])
                cur = None
            elif kind == "ALL-DONE":
                all_done = True
                cur = None
            continue
        if cur is None:
            continue
        hist[ev.name] = hist.get(ev.name, 0) + 1
        if ev.name in T.STATLIKE:
            statlike += 1
        rid = cur[0]
        evs = phase_events.setdefault(cur, [])
        if len(evs) < 12:
            evs.append(ev.raw[:300])
        req = reqs_by_id.get(rid)
        is_control = rid in control_ids
        if is_control:
            pol = pol_cache.get("control")
            if pol is None:
                pol = pol_cache["control"] = T.Policy(zone_ok=False, tz_file=tzf)
        else:
            zone_ok = bool(req and T.ZONE_FILTERS.search(req["prog"]))
            pol = pol_cache.get(zone_ok)
            if pol is None:
                pol = pol_cache[zone_ok] = T.Policy(zone_ok=zone_ok, tz_file=tzf, read_ok=noise)
            pol.read_ok = noise
        v = pol.judge(ev)
        if v is None:
            continue
        cls, detail = v
        if is_control and cls == "open-read" and T.runtime_path(detail.get("path")):
            # runtime noise learned from the control program `.`
            noise.add(detail["path"])
            res = (ev.ret or "").split(" ")[0]
            _fd, rp = T.fd_parts(res)
            if rp:
                noise.add(rp)
            continue
        findings.append({"cls": cls, "detail": detail, "id": rid, "k": cur[1], "raw": ev.raw[:400],
                         "control": is_control})
    inflight = None
    if not all_done:
        cand = sorted(started - done)
        inflight = cand[-1] if cand else None
    return {"observed": observed, "findings": findings, "hist": hist, "statlike": statlike, "done": done,
            "started": started, "inflight": inflight, "all_done": all_done, "markers": markers, "lines": lines,
            "noise": noise, "phase_events": phase_events, "death": death, "last_marker_id": last_marker_id,
            "unparsed": T.iter_events.unparsed}


# second control program: pure, allocation-heavy (teaches the allocator's own /proc reads, if any)
CONTROL_ALLOC = '[range(200000)] | length, ("a" * 2000000 | length), ([limit(20000; repeat("x"))] | length)'
CONTROL_INPUTS = [None, {"s": "2f6574632f706173737764"}, [{"i": "1"}, {"s": "78"}]]


def run_phase_shard(task):
    """task: dict(tag, reqs=[{prog, cases, meta, vars?}], tz, scr, jaqmon, cfg, timeout, inputs)
    Requests get ids; three control requests (program `.`) are put in front of every process.
    A process that dies or hangs makes the request in flight inconclusive; the rest is re-run."""
    scr, cfg, tz = task["scr"], task["cfg"], task["tz"]
    reqs = []
    nctl = 4
    for i in range(nctl - 1):
        reqs.append({"id": i, "prog": ".", "cases": [{"input": x} for x in CONTROL_INPUTS], "meta": None})
    reqs.append({"id": nctl - 1, "prog": CONTROL_ALLOC, "cases": [{"input": None}, {"input": None}], "meta": None})
    for j, r in enumerate(task["reqs"]):
        q = dict(r)
        q["id"] = nctl + j
        reqs.append(q)
    extra_inputs = task.get("inputs") or []
    res = {"tag": task["tag"], "tz": tz, "observed": [], "findings": [], "hist": {}, "statlike": 0, "inconc": [],
           "markers": 0, "lines": 0, "unparsed": 0, "noise": [], "samples": [], "ends": {}, "rounds": 0,
           "requests": len(task["reqs"]), "cases": sum(len(r["cases"]) for r in task["reqs"]),
           "compile_errors": 0, "broken": None, "wall": 0.0, "control_phases": 0}
    by_id = {r["id"]: r for r in reqs}
    order = [r["id"] for r in reqs]
    control_ids = set(range(nctl))
    remaining = list(order)
    t0 = time.time()
    while remaining and res["rounds"] < 30:
        res["rounds"] += 1
        todo = list(remaining)
        if res["rounds"] > 1:
            todo = list(range(nctl)) + [i for i in remaining if i >= nctl]
        base = os.path.join(scr, "logs", "%s-r%d" % (task["tag"], res["rounds"]))
        with open(base + ".jsonl", "w") as f:
            for rid in todo:
                r = by_id[rid]
                cases = [dict(c, inputs=extra_inputs) for c in r["cases"]]
                f.write(json.dumps({"id": rid, "prog": r["prog"], "vars": r.get("vars", []), "take": 8,
                                    "cases": cases}) + "\n")
        env = base_env(scr, tz)
        rc, _so, se, _wall = run_traced(cfg, [task["jaqmon"], "phase", base + ".jsonl", base + ".out"], env,
                                        os.path.join(scr, "cwd"), base + ".log", timeout=task["timeout"],
                                        stall=task.get("stall", 6))
        a = analyse_phase_log(base + ".log", by_id, control_ids, tz, os.path.join(scr, "cwd"))
        res["markers"] += a["markers"]
        res["lines"] += a["lines"]
        res["unparsed"] += a["unparsed"]
        res["statlike"] += a["statlike"]
        for k, n in a["hist"].items():
            res["hist"][k] = res["hist"].get(k, 0) + n
        res["noise"] = sorted(set(res["noise"]) | a["noise"])
        for (rid, k) in a["observed"]:
            if rid in control_ids:
                res["control_phases"] += 1
                continue
            site, argc = by_id[rid]["meta"][k]
            res["observed"].append((site, argc))
        for fd in a["findings"]:
            r = by_id[fd["id"]]
            k = fd["k"]
            case = r["cases"][k] if 0 <= k < len(r["cases"]) else None
            meta = ("control", "control") if fd["control"] else (r["meta"][k] if 0 <= k < len(r["meta"]) else (r["meta"][0][0], "?"))
            res["findings"].append({"cls": fd["cls"], "detail": fd["detail"], "raw": fd["raw"], "site": meta[0],
                                    "argclass": meta[1], "prog": r["prog"], "case": case, "tz": tz,
                                    "inputs": extra_inputs})
        # outcome histogram from the helper's own report (when it got that far)
        try:
            for line in open(base + ".out"):
                d = json.loads(line)
                if d["id"] in control_ids:
                    continue
                if d.get("compile_error") or d.get("compile_panic"):
                    res["compile_errors"] += 1
                    continue
                for e, _n in d.get("ends", []):
                    res["ends"][str(e)] = res["ends"].get(str(e), 0) + 1
        except (OSError, ValueError):
            pass
        if not res["samples"]:
            quiet = sorted(x for x in a["observed"] if x not in a["phase_events"] and x[0] not in control_ids)
            if quiet:
                rid, k = quiet[len(quiet) // 2]
                res["samples"].append({"program": by_id[rid]["prog"], "case": by_id[rid]["meta"][k], "tz": tz,
                                       "input_wire": by_id[rid]["cases"][k]["input"], "syscalls_in_phase": []})
        if len(res["samples"]) < 3:
            for (rid, k), evs in sorted(a["phase_events"].items()):
                if rid not in control_ids and len(res["samples"]) < 3:
                    res["samples"].append({"program": by_id[rid]["prog"], "case": by_id[rid]["meta"][k] if k >= 0 else None,
                                           "tz": tz, "syscalls_in_phase": evs})
        if res["rounds"] == 1 and a["markers"] == 0 and task.get("_retry", 0) < 2:
            return run_phase_shard(dict(task, _retry=task.get("_retry", 0) + 1))
        if res["rounds"] == 1 and a["markers"] == 0:
            res["broken"] = "no marker syscall found in %s.log (rc=%s, stderr=%s, watchdog=%s)" % (
                base, rc, se[-200:], run_traced.last_kill)
            break
        for ext in (".log", ".jsonl", ".out"):
            try:
                os.unlink(base + ext)
            except OSError:
                pass
        if a["all_done"]:
            remaining = []
            break
        # the process died or hung: find the request in flight
        if a["inflight"] is not None:
            culprit = a["inflight"]
        else:
            last = a["last_marker_id"]
            idx = todo.index(last) + 1 if last in todo else 0
            # requests without markers (compile errors) directly after `last` cannot be told apart
            # from the one that killed the process: skip one request
            culprit = todo[idx] if idx < len(todo) else None
        if culprit is None:
            remaining = []
            break
        why = "timeout" if rc is None else ("died: " + (a["death"] or "rc=%s" % rc))
        if culprit >= nctl:
            res["inconc"].append({"site": by_id[culprit]["meta"][0][0], "prog": by_id[culprit]["prog"], "why": why,
                                  "stderr": se[-160:]})
        pos = todo.index(culprit)
        remaining = [i for i in todo[pos + 1:] if i >= nctl]
    res["wall"] = time.time() - t0
    res["observed"] = sorted(set(res["observed"])), len(res["observed"])
    return res


# ---------------------------------------------------------------------------------------
# the real jaq binary
def analyse_cli_log(log, case, noise, learn=False):
    """Whole-run policy for one CLI execution.
    case: dict(name, named=[abs paths], inputs=[abs paths], inplace=bool, zone_ok, tz)
    -> dict(findings, hist, exec_hist, learned, first_input_line, opens, order_ok)"""
    named = set(os.path.realpath(p) for p in case.get("named", [])) | set(case.get("named", []))
    inputs = [os.path.realpath(p) for p in case.get("inputs", [])]
    input_set = set(inputs) | set(case.get("inputs", []))
    tzf = tz_files_of(case.get("tz"), case.get("cwd", "/"))
    write_ok = None
    if case.get("inplace"):
        dirs = {os.path.dirname(p) for p in inputs}

        def write_ok(p, _what, dirs=dirs, ins=set(inputs)):
            if p in ins:
                return True
            return os.path.dirname(p) in dirs and os.path.basename(p).startswith("jaq")
    pol = T.Policy(zone_ok=case.get("zone_ok", False), tz_file=tzf, read_ok=set(noise) | named | input_set,
                   write_ok=write_ok)
    findings = []
    hist = {}
    exec_hist = {}
    learned = set()
    first = True
    exec_started = False
    late_named = []
    opened = set()
    lines = 0
    inplace_events = []
    for ev in T.iter_events(log):
        lines += 1
        if ev.name in ("+++", "---"):
            continue
        if first and ev.name == "execve":
            first = False
            continue
        first = False
        hist[ev.name] = hist.get(ev.name, 0) + 1
        if exec_started:
            exec_hist[ev.name] = exec_hist.get(ev.name, 0) + 1
        paths, flags = T.ev_paths(ev) if (ev.name in T.OPEN or ev.name in T.MUTATE) else ([], None)
        if ev.name in T.OPEN and paths and paths[0]:
            p = paths[0]
            opened.add(p)
            if p in input_set:
                exec_started = True
            elif exec_started and p in named:
                late_named.append(p)
        if ev.name in T.READ_FD:
            fd, _fp = T.fd_of(ev)
            if fd == 0:
                exec_started = True
        if case.get("inplace") and (ev.name in T.MUTATE or (ev.name in T.OPEN and flags and any(f in flags for f in T.WRITE_FLAGS))):
            inplace_events.append(ev.raw[:200])
        v = pol.judge(ev)
        if v is None:
            continue
        cls, detail = v
        if learn and cls == "open-read" and T.runtime_path(detail.get("path")):
            learned.add(detail["path"])
            _fd, rp = T.fd_parts((ev.ret or "").split(" ")[0])
            if rp:
                learned.add(rp)
                learned.add(re.sub(r"^/proc/\d+/", "/proc/self/", rp))
            continue
        if cls == "read-fd" and learn:
            continue
        findings.append({"cls": cls, "detail": detail, "raw": ev.raw[:400], "exec_phase": exec_started})
    for p in late_named:
        findings.append({"cls": "cli-order", "detail": {"path": p, "note": "module/data/option file opened after the first input was read"},
                         "raw": p, "exec_phase": True})
    return {"findings": findings, "hist": hist, "exec_hist": exec_hist, "learned": learned, "lines": lines,
            "exec_started": exec_started, "opened_named": sorted(opened & named), "inplace_events": inplace_events,
            "unparsed": T.iter_events.unparsed}


def run_cli_case(task):
    """task: dict(case, scr, jaq, cfg, noise, learn, idx) -> result dict"""
    case, scr, cfg = task["case"], task["scr"], task["cfg"]
    log = os.path.join(scr, "logs", "cli-%s.log" % task["idx"])
    env = base_env(scr, case.get("tz", "UTC"), case.get("env"))
    if case.get("log_off", True):
        env["LOG"] = "off"
    stdin = bytes.fromhex(case["stdin_hex"]) if case.get("stdin_hex") is not None else None
    rc, so, se, wall = run_traced(cfg, [task["jaq"]] + case["argv"], env, os.path.join(scr, "cwd"), log, stdin=stdin,
                                  timeout=case.get("timeout", 180))
    case = dict(case, cwd=os.path.join(scr, "cwd"))
    a = analyse_cli_log(log, case, task["noise"], learn=task.get("learn", False))
    try:
        os.unlink(log)
    except OSError:
        pass
    return {"name": case["name"], "site": case["site"], "argclass": case["argclass"], "rc": rc, "wall": wall,
            "stdout": so[:200].decode("utf-8", "replace"), "stderr": se[-200:], "findings": a["findings"],
            "hist": a["hist"], "exec_hist": a["exec_hist"], "learned": sorted(a["learned"]), "lines": a["lines"],
            "exec_started": a["exec_started"], "opened_named": a["opened_named"], "inplace_events": a["inplace_events"],
            "case": case, "unparsed": a["unparsed"]}
