"""C05 infrastructure: streaming jaqmon client (op evalc), panic classification, single-case
execution (used for reproduction in a fresh worker and for --replay), CLI runner."""
import json
import os
import re
import select
import signal
import subprocess
import tempfile
import time

from . import build
from .client import Jaqmon, WorkerDied, classify_death

EXEMPT_PANIC = re.compile(r"capacity overflow|memory allocation of \d+ bytes failed|TryReserve|CapacityOverflow|AllocError|"
                          r"LayoutError|out of memory")


def canon_loc(loc):
    """'/repo/jaq-std/src/time.rs:8' -> 'jaq-std/src/time.rs:8'; registry and rustc paths shortened;
    a column, if any, is dropped."""
    loc = loc.strip()
    m = re.match(r"^(.*?):(\d+)(?::\d+)?$", loc)
    path, line = (m.group(1), m.group(2)) if m else (loc, "?")
    repo = build.REPO.rstrip("/") + "/"
    if path.startswith(repo):
        path = path[len(repo):]
    else:
        m2 = re.search(r"/repo/((?:jaq[^/]*)/.*)$", path)
        if m2:
            path = m2.group(1)
        else:
            m3 = re.search(r"/registry/src/[^/]+/(.*)$", path)
            if m3:
                path = m3.group(1)
            else:
                m4 = re.search(r"/rustc/[0-9a-f]+/(.*)$", path)
                if m4:
                    # a site inside the Rust standard library: its line number depends on the toolchain
                    # version and says nothing about jaq, so the key carries the file only
                    return m4.group(1)
    return f"{path}:{line}"


def msg_class(msg):
    s = (msg or "").split("\n")[0]
    for cut in ("; it is inside", " when slicing", " of `", " in `"):
        k = s.find(cut)
        if k >= 0:
            s = s[:k]
    m = re.match(r"(called `(?:Result|Option)::\w+\(\)` on an? `\w+` value)", s)
    if m:
        s = m.group(1)
    s = re.sub(r"-?\d+", "N", s)
    s = re.sub(r"\s+", " ", s).strip()
    return s[:90]


_BIGINT = re.compile(r'"i": ?(-?\d{16,})|"I": ?"(-?\d+)"|(?<![\w.])(\d{16,})(?![\w.])')
_FLOATISH = re.compile(r'"f": ?"|"d": ?"|\d\.\d|\de[-+]?\d|infinite|nan|tonumber|todate|now|sqrt|pow|/')


def total_order_cause(case):
    """The one known cause of the `total order` panic of std's sort is documented behaviour: an integer
    equals a float when it *rounds* to it (corelang §Equality), so integers beyond 2^53 that round to the
    same float are unequal among themselves yet all equal to that float.  A case is attributed to that
    cause only if its data shows both an integer beyond 2^53 and a non-integer number; anything else is a
    different defect and gets its own key."""
    text = json.dumps(case, ensure_ascii=True, default=str) if not isinstance(case, str) else case
    if isinstance(case, dict):
        for h in [case.get("stdin_hex") or ""] + list((case.get("files") or {}).values()):
            try:
                text += " " + bytes.fromhex(h).decode("latin-1")
            except (ValueError, TypeError):
                pass
    big = False
    for m in _BIGINT.finditer(text):
        d = next(g for g in m.groups() if g)
        if abs(int(d)) > 2 ** 53:
            big = True
            break
    if big and _FLOATISH.search(text):
        return "integers-beyond-2^53-mixed-with-floats"
    return "other-cause"


def panic_key(msg, loc, case=None):
    key = f"panic:{canon_loc(loc)}:{msg_class(msg)}"
    if case is not None and "total order" in (msg or ""):
        key += ":" + total_order_cause(case)
    return key


def is_exempt_panic(msg):
    return bool(EXEMPT_PANIC.search(msg or ""))


def is_harness_loc(loc):
    c = canon_loc(loc)
    return c.startswith("src/") or "/harness/src/" in loc or c.startswith("/verif")


_PATHS = {}


def bin_path(kind):
    """binary paths are resolved once per process tree (main resolves them before forking):
    building takes the global build lock, which other checks may hold for minutes"""
    p = _PATHS.get(kind)
    if p is None and os.environ.get("C05_SKIP_BUILD"):
        # development only: use whatever is already built (no cargo, no build lock)
        p = {"cli": os.path.join(build.TARGET, "cli", "debug", "jaq"), "cli_release": os.path.join(build.TARGET, "cli", "release", "jaq")}.get(
            kind, os.path.join(build.TARGET, kind, "jaqmon"))
        _PATHS[kind] = p
    if p is None:
        if kind == "cli":
            p = build.cli()
        elif kind == "cli_release":
            p = build.cli_release()
        else:
            p = build.jaqmon(kind)
        _PATHS[kind] = p
    return p


class Mon(Jaqmon):
    """Jaqmon whose stderr goes to a file (natives may write to stderr; a pipe would fill up),
    with the streamed `evalc` protocol."""

    def __init__(self, profile="verif", mem_gb=4, stack_mb=512):
        super().__init__(profile, (), mem_gb=mem_gb, stack_mb=stack_mb, path=bin_path(profile))
        self.profile = profile
        fd, self.errpath = tempfile.mkstemp(prefix="c05-stderr-", dir=os.environ.get("C05_TMPDIR") or None)
        os.close(fd)
        self.errf = None

    def start(self):
        env = dict(os.environ)
        env["JAQMON_STACK_MB"] = str(self.stack_mb)
        env["TZ"] = "UTC"
        env.pop("RUST_BACKTRACE", None)
        lim = self.mem_gb * (1 << 30)

        def pre():
            import resource
            resource.setrlimit(resource.RLIMIT_AS, (lim, lim))
            resource.setrlimit(resource.RLIMIT_CORE, (0, 0))
        if self.errf:
            self.errf.close()
        self.errf = open(self.errpath, "wb")
        self.p = subprocess.Popen([self.path, "serve"], stdin=subprocess.PIPE, stdout=subprocess.PIPE,
                                  stderr=self.errf, env=env, preexec_fn=pre)
        self._buf = b""
        self.fresh = True       # the first answer of a new process may take long on a loaded machine

    def stop(self):
        if self.p is not None:
            try:
                self.p.kill()
            except Exception:
                pass
            try:
                self.p.wait(timeout=5)
            except Exception:
                pass
            for f in (self.p.stdin, self.p.stdout):
                try:
                    f.close()
                except Exception:
                    pass
            self.p = None

    def close(self):
        self.stop()
        try:
            if self.errf:
                self.errf.close()
            os.unlink(self.errpath)
        except Exception:
            pass

    def _send(self, obj, raw_cases=None):
        if self.p is None or self.p.poll() is not None:
            self.stop()
            self.start()
        if raw_cases is not None:
            # cases given as pre-serialised JSON texts (json.dumps of millions of small dicts is the bottleneck)
            head = json.dumps(obj)
            data = (head[:-1] + ', "cases": [' + ",".join(raw_cases) + "]}\n").encode()
        else:
            data = (json.dumps(obj) + "\n").encode()
        try:
            self.p.stdin.write(data)
            self.p.stdin.flush()
        except (BrokenPipeError, OSError):
            pass

    def _recv(self, timeout):
        if getattr(self, "fresh", False):
            timeout += 30
        line = self._readline(timeout)
        self.fresh = False
        if line is None:
            self.stop()
            self.restarts += 1
            raise WorkerDied("timeout", f"no answer within {timeout}s")
        if line == b"":
            rc = None
            try:
                rc = self.p.wait(timeout=10)
            except Exception:
                pass
            err = b""
            try:
                with open(self.errpath, "rb") as f:
                    f.seek(0, 2)
                    f.seek(max(0, f.tell() - 800))
                    err = f.read()
            except Exception:
                pass
            self.stop()
            self.restarts += 1
            kind = "signal" if (rc is not None and rc < 0) else "exit"
            name = ""
            if rc is not None and rc < 0:
                try:
                    name = signal.Signals(-rc).name
                except Exception:
                    name = str(-rc)
            raise WorkerDied(kind, f"rc={rc} {name} stderr={err.decode('utf-8', 'replace')}")
        return json.loads(line)

    def request(self, obj, timeout=30.0):
        self._send(obj)
        return self._recv(timeout)

    def evalc(self, prog, cases, vars=(), take=4, stream=(), chunk=32, timeout=5.0, death_budget=12, stop_on_death=False, max_seconds=None, raw=False, pool=None):
        """`raw`: cases are JSON texts. -> dict(status, codes(list of 1-char codes; 'D' = worker died on that case, 'S' = skipped),
        panics{idx:(msg,loc)}, deaths{idx:class}, report?)"""
        n = len(cases)
        out = {"status": "ok", "codes": [None] * n, "panics": {}, "deaths": {}}
        start = 0
        ndeaths = 0
        t_begin = time.monotonic()
        trace = [] if os.environ.get("C05_TRACE") else None
        while True:
            if trace is not None:
                trace.append(("send", start, chunk, round(time.monotonic() - t_begin, 2)))
            req = {"op": "evalc", "prog": prog, "vars": [[a, b] for a, b in vars], "take": take, "stream": list(stream), "chunk": chunk}
            if pool is not None:
                req["pool"] = pool      # cases are index tuples into this list of wire values
            if raw:
                self._send(req, cases[start:])
            else:
                req["cases"] = cases[start:]
                self._send(req)
            done_upto = start
            first = True
            try:
                while True:
                    # the first answer also pays for reading and parsing the whole request
                    r = self._recv(timeout + (5 + (n - start) / 5000.0 if first else 0))
                    first = False
                    if "p" in r:
                        k0 = start + r["p"]
                        out["codes"][k0:k0 + len(r["c"])] = r["c"]
                        for k, msg, loc in r["panics"]:
                            out["panics"][start + k] = (msg, loc)
                        done_upto = k0 + len(r["c"])
                        if max_seconds is not None and time.monotonic() - t_begin > max_seconds and done_upto < n:
                            # wall-clock guard: the rest of the batch is not run (inconclusive, never a verdict)
                            self.stop()
                            for k in range(done_upto, n):
                                out["codes"][k] = "S"
                            out["time_guard"] = n - done_upto
                            if trace is not None:
                                with open("/tmp/c05-trace.log", "a") as f:
                                    f.write(json.dumps({"prog": prog[:80], "n": n, "guard_at": done_upto, "dt": round(time.monotonic() - t_begin, 2), "trace": trace[:30]}) + "\n")
                            return out
                        continue
                    if "done" in r:
                        if trace is not None and time.monotonic() - t_begin > 5:
                            with open("/tmp/c05-trace.log", "a") as f:
                                f.write(json.dumps({"prog": prog[:80], "n": n, "dt": round(time.monotonic() - t_begin, 2), "trace": trace[:30]}) + "\n")
                        return out
                    if "compile_error" in r:
                        out["status"] = "compile_error"
                        out["report"] = r["compile_error"]
                        return out
                    if "compile_panic" in r:
                        out["status"] = "compile_panic"
                        out["panic"] = (r["compile_panic"].get("msg", "?"), r["compile_panic"].get("loc", "?"))
                        return out
                    out["status"] = "harness_error"
                    out["report"] = r
                    return out
            except WorkerDied as e:
                cls = classify_death(e)
                if trace is not None:
                    trace.append(("died", cls, done_upto, round(time.monotonic() - t_begin, 2)))
                if n == 0 or done_upto >= n:
                    # died while compiling (or after the last case, while dropping)
                    out["status"] = "compile_death"
                    out["death"] = (cls, e.detail[-400:])
                    return out
                if chunk == 1:
                    out["codes"][done_upto] = "D"
                    out["deaths"][done_upto] = (cls, e.detail[-300:])
                    ndeaths += 1
                    start = done_upto + 1
                else:
                    b = min(n, done_upto + chunk)
                    sub = self.evalc(prog, cases[done_upto:b], vars, take, stream, 1, timeout, death_budget - ndeaths, stop_on_death, None, raw, pool)
                    if sub["status"] != "ok":
                        out["status"] = sub["status"]
                        for key in ("report", "panic", "death"):
                            if key in sub:
                                out[key] = sub[key]
                        return out
                    for j, ch in enumerate(sub["codes"]):
                        out["codes"][done_upto + j] = ch
                    for k, v in sub["panics"].items():
                        out["panics"][done_upto + k] = v
                    for k, v in sub["deaths"].items():
                        out["deaths"][done_upto + k] = v
                    # (a chunk that died as a whole while no single case does is simply complete now)
                    ndeaths += max(len(sub["deaths"]), 1)
                    start = b
                if start >= n:
                    return out
                if ndeaths >= death_budget or (stop_on_death and ndeaths):
                    for k in range(start, n):
                        out["codes"][k] = "S"
                    return out


_fresh = {}


def fresh_mon(profile, mem_gb=4, stack_mb=512):
    return Mon(profile, mem_gb=mem_gb, stack_mb=stack_mb)


# ---------------------------------------------------------------------------------------------
# single cases (reproduction, replay)

def outcome_of_response(r):
    """generic jaqmon response -> ('ok',) | ('panic', msg, loc) | ('span', info)"""
    if not isinstance(r, dict):
        return ("ok",)
    for key in ("panic", "compile_panic"):
        if key in r and isinstance(r[key], dict):
            return ("panic", r[key].get("msg", "?"), r[key].get("loc", "?"))
    ce = r.get("compile_error")
    if isinstance(ce, dict) and ce.get("spans_ok") is False:
        return ("span", {"spans": ce.get("spans"), "code_len": ce.get("code_len"), "report": (ce.get("report") or "")[:600]})
    for res in r.get("results", []) or []:
        if isinstance(res, dict) and "panic" in res:
            return ("panic", res["panic"].get("msg", "?"), res["panic"].get("loc", "?"))
    return ("ok",)


def span_key(info):
    rep = info.get("report", "")
    first = rep.split("\n")[0] if rep else "?"
    return "span-outside:" + msg_class(first)


def run_single(case, mon=None, timeout=20.0):
    """Execute one case description. -> ('ok', detail) | ('panic', msg, loc) | ('span', info) |
    ('death', cls, detail). With mon=None a fresh worker is started (and closed)."""
    k = case["k"]
    if k == "cli":
        return run_cli_case(case)
    own = mon is None
    if own:
        mon = fresh_mon(case.get("profile", "verif"), case.get("mem_gb", 4), case.get("stack_mb", 512))
    try:
        if k == "evalc":
            r = mon.evalc(case["prog"], [case["input"]] if "input" in case else [], vars=case.get("vars", ()), take=case.get("take", 4),
                          stream=case.get("stream", ()), chunk=1, timeout=timeout)
            if r["status"] == "compile_panic":
                return ("panic",) + tuple(r["panic"])
            if r["status"] == "compile_death":
                return ("death",) + tuple(r["death"])
            if r["status"] == "compile_error":
                o = outcome_of_response({"compile_error": r["report"]})
                return o if o[0] != "ok" else ("ok", "compile_error")
            if r["status"] != "ok":
                return ("ok", r["status"])
            if 0 in r["panics"]:
                return ("panic",) + tuple(r["panics"][0])
            if 0 in r["deaths"]:
                return ("death",) + tuple(r["deaths"][0])
            return ("ok", "".join(c or "?" for c in r["codes"]))
        if k == "req":
            try:
                r = mon.request(case["req"], timeout)
            except WorkerDied as e:
                return ("death", classify_death(e), e.detail[-400:])
            o = outcome_of_response(r)
            return o if o[0] != "ok" else ("ok", "")
        raise ValueError(k)
    finally:
        if own:
            mon.close()


# ---------------------------------------------------------------------------------------------
# the real CLI

PANIC_RE = re.compile(r"panicked at ([^\n]*?):\s*\n([^\n]*)")


def cli_env(home):
    return {"PATH": "/usr/bin:/bin", "HOME": home, "TZ": "UTC", "NO_COLOR": "1", "LOG": "off"}


def run_cli_case(case, timeout=20.0):
    """case: {k:'cli', bin:'debug'|'release', args:[...], stdin_hex:..., files:{name:hex}}; `@F:name`
    in args is replaced by the path of that scratch file."""
    exe = bin_path("cli") if case.get("bin", "debug") == "debug" else bin_path("cli_release")
    d = tempfile.mkdtemp(prefix="c05-cli-")
    try:
        for name, hx in (case.get("files") or {}).items():
            with open(os.path.join(d, name), "wb") as f:
                f.write(bytes.fromhex(hx))
        args = [a.replace("@F:", d + "/") if a.startswith("@F:") else a for a in case["args"]]

        def pre():
            import resource
            lim = 4 << 30
            resource.setrlimit(resource.RLIMIT_AS, (lim, lim))
            resource.setrlimit(resource.RLIMIT_CORE, (0, 0))
        try:
            p = subprocess.run([exe] + args, input=bytes.fromhex(case.get("stdin_hex", "")), stdout=subprocess.DEVNULL,
                               stderr=subprocess.PIPE, env=cli_env(d), cwd=d, timeout=timeout, preexec_fn=pre)
        except subprocess.TimeoutExpired:
            return ("death", "timeout", "cli timeout")
        err = p.stderr.decode("utf-8", "replace")
        m = PANIC_RE.search(err)
        if m:
            return ("panic", m.group(2).strip(), m.group(1).strip())
        if p.returncode == 101:
            return ("panic", err[-200:], "?")
        if p.returncode < 0:
            sig = signal.Signals(-p.returncode).name
            e = WorkerDied("signal", f"rc={p.returncode} {sig} stderr={err[-400:]}")
            return ("death", classify_death(e), e.detail[-400:])
        return ("ok", f"rc={p.returncode}")
    finally:
        import shutil
        shutil.rmtree(d, ignore_errors=True)
