"""Client for a jaqmon `serve` subprocess: JSON lines over pipes, with a watchdog.

A worker that dies (stack overflow, abort on allocation failure, watchdog kill) is reported
as an *inconclusive* outcome for the request in flight, never as a verdict, and restarted."""
import json
import os
import select
import signal
import subprocess
import time

from . import build


class WorkerDied(Exception):
    def __init__(self, kind, detail):
        super().__init__(f"{kind}: {detail}")
        self.kind = kind      # 'timeout' | 'signal' | 'exit'
        self.detail = detail


class Jaqmon:
    def __init__(self, profile="verif", features=(), mem_gb=6, stack_mb=512, path=None, env=None):
        self.path = path or build.jaqmon(profile, features)
        self.mem_gb = mem_gb
        self.stack_mb = stack_mb
        self.extra_env = env or {}
        self.p = None
        self.restarts = 0
        self._buf = b""

    def start(self):
        env = dict(os.environ)
        env["JAQMON_STACK_MB"] = str(self.stack_mb)
        env.setdefault("TZ", "UTC")
        env.update(self.extra_env)
        lim = self.mem_gb * (1 << 30)

        def pre():
            import resource
            resource.setrlimit(resource.RLIMIT_AS, (lim, lim))
            resource.setrlimit(resource.RLIMIT_CORE, (0, 0))
        self.p = subprocess.Popen([self.path, "serve"], stdin=subprocess.PIPE, stdout=subprocess.PIPE,
                                  stderr=subprocess.PIPE, env=env, preexec_fn=pre)
        self._buf = b""

    def stop(self):
        if self.p is not None:
            try:
                self.p.kill()
            except Exception:
                pass
            try:
                self.p.wait(timeout=5)
            except Exception:
                pass
            for f in (self.p.stdin, self.p.stdout, self.p.stderr):
                try:
                    f.close()
                except Exception:
                    pass
            self.p = None

    def _readline(self, timeout):
        fd = self.p.stdout.fileno()
        deadline = time.monotonic() + timeout
        while b"\n" not in self._buf:
            left = deadline - time.monotonic()
            if left <= 0:
                return None
            r, _, _ = select.select([fd], [], [], min(left, 1.0))
            if r:
                chunk = os.read(fd, 1 << 16)
                if not chunk:
                    return b""
                self._buf += chunk
        line, self._buf = self._buf.split(b"\n", 1)
        return line

    def request(self, obj, timeout=60.0):
        """Send one request, return the response dict. Raises WorkerDied."""
        if self.p is None or self.p.poll() is not None:
            self.stop()
            self.start()
        data = (json.dumps(obj) + "\n").encode()
        try:
            self.p.stdin.write(data)
            self.p.stdin.flush()
        except BrokenPipeError:
            pass
        line = self._readline(timeout)
        if line is None:
            self.stop()
            self.restarts += 1
            raise WorkerDied("timeout", f"no answer within {timeout}s")
        if line == b"":
            rc = None
            try:
                rc = self.p.wait(timeout=10)
            except Exception:
                pass
            err = b""
            try:
                err = self.p.stderr.read()[-600:]
            except Exception:
                pass
            self.stop()
            self.restarts += 1
            kind = "signal" if (rc is not None and rc < 0) else "exit"
            name = ""
            if rc is not None and rc < 0:
                try:
                    name = signal.Signals(-rc).name
                except Exception:
                    name = str(-rc)
            raise WorkerDied(kind, f"rc={rc} {name} stderr={err.decode('utf-8', 'replace')}")
        return json.loads(line)

    def eval(self, prog, cases, vars=(), take=64, timeout=60.0):
        """cases: list of dicts {input: wire, inputs: [wire], take, arm, probe_cap, ...};
        vars: list of (name, wire)."""
        return self.request({"op": "eval", "prog": prog, "vars": [[n, v] for n, v in vars],
                             "cases": cases, "take": take}, timeout)

    def __enter__(self):
        return self

    def __exit__(self, *a):
        self.stop()


def classify_death(e):
    """Resource exhaustion signatures (README exempts them from the no-crash guarantee)."""
    d = e.detail
    if e.kind == "timeout":
        return "timeout"
    if "has overflowed its stack" in d or "SIGSEGV" in d:
        return "stack-exhaustion"
    if "memory allocation of" in d or "SIGABRT" in d and "alloc" in d:
        return "memory-exhaustion"
    if "SIGKILL" in d:
        return "killed"
    return "died"
