"""Model values and the typed wire codec shared with jaqmon.

Model values (Python side):
  None, True, False            null / booleans
  int                          integer (any size)
  float                        IEEE double (incl. nan, inf, -0.0)
  Dec(text)                    decimal literal kept as text ("1.10", "1e1000")
  Str(bytes, text=True)        text string (interpreted as UTF-8, may be invalid) / byte string
  list                         array
  Obj([(k, v), ...])           object in insertion order, arbitrary keys
  Big(n)                       injection only: force the big-integer representation of n

Wire form: null/true/false, {"i":dec} machine int, {"I":dec} big int, {"f":hex bits},
{"d":text}, {"s":hex} text string, {"b":hex} byte string, [..], {"o":[[k,v],..]}."""
import math
import struct

ISIZE_MIN = -(2 ** 63)
ISIZE_MAX = 2 ** 63 - 1


class Dec:
    __slots__ = ("text",)

    def __init__(self, text):
        self.text = text

    def __repr__(self):
        return f"Dec({self.text!r})"

    def __eq__(self, o):
        return isinstance(o, Dec) and o.text == self.text

    def __hash__(self):
        return hash(("Dec", self.text))


class Big:
    __slots__ = ("n",)

    def __init__(self, n):
        self.n = n

    def __repr__(self):
        return f"Big({self.n})"

    def __eq__(self, o):
        return isinstance(o, Big) and o.n == self.n

    def __hash__(self):
        return hash(("Big", self.n))


class Str:
    __slots__ = ("b", "text")

    def __init__(self, b, text=True):
        if isinstance(b, str):
            b = b.encode("utf-8")
        self.b = bytes(b)
        self.text = text

    def __repr__(self):
        return ("" if self.text else "b") + repr(self.b)[1:]

    def __eq__(self, o):
        return isinstance(o, Str) and o.b == self.b and o.text == self.text

    def __hash__(self):
        return hash(("Str", self.b, self.text))


class Obj:
    __slots__ = ("items",)

    def __init__(self, items=()):
        self.items = list(items)

    def __repr__(self):
        return "Obj(" + repr(self.items) + ")"

    def __eq__(self, o):
        return isinstance(o, Obj) and o.items == self.items

    def __hash__(self):
        return hash(("Obj", tuple(map(lambda kv: (freeze(kv[0]), freeze(kv[1])), self.items))))


def S(s):
    """text string from a Python str"""
    return Str(s.encode("utf-8"), True)


def freeze(v):
    """hashable structural identity (representation-exact)"""
    if isinstance(v, list):
        return ("A",) + tuple(freeze(x) for x in v)
    if isinstance(v, Obj):
        return ("O",) + tuple((freeze(k), freeze(x)) for k, x in v.items)
    if isinstance(v, float):
        return ("F", struct.pack(">d", v))
    if isinstance(v, bool):
        return ("B", v)
    if isinstance(v, int):
        return ("I", v)
    return v


def fbits(f):
    return struct.pack(">d", f).hex()


def bits_f(h):
    return struct.unpack(">d", bytes.fromhex(h))[0]


def enc(v):
    if v is None or v is True or v is False:
        return v
    if isinstance(v, int):
        if ISIZE_MIN <= v <= ISIZE_MAX:
            return {"i": str(v)}
        return {"I": str(v)}
    if isinstance(v, Big):
        return {"I": str(v.n)}
    if isinstance(v, float):
        return {"f": fbits(v)}
    if isinstance(v, Dec):
        return {"d": v.text}
    if isinstance(v, Str):
        return {"s" if v.text else "b": v.b.hex()}
    if isinstance(v, list):
        return [enc(x) for x in v]
    if isinstance(v, Obj):
        return {"o": [[enc(k), enc(x)] for k, x in v.items]}
    raise TypeError(f"cannot encode {v!r}")


def dec(w):
    if w is None or w is True or w is False:
        return w
    if isinstance(w, list):
        return [dec(x) for x in w]
    if isinstance(w, dict):
        (k, x), = w.items()
        if k == "i" or k == "I":
            return int(x)
        if k == "f":
            return bits_f(x)
        if k == "d":
            return Dec(x)
        if k == "s":
            return Str(bytes.fromhex(x), True)
        if k == "b":
            return Str(bytes.fromhex(x), False)
        if k == "o":
            return Obj([(dec(a), dec(b)) for a, b in x])
    raise TypeError(f"cannot decode {w!r}")


def show(v, limit=200):
    """Human-readable rendering for evidence samples and witnesses (not jaq's printer)."""
    def go(v):
        if v is None:
            return "null"
        if v is True:
            return "true"
        if v is False:
            return "false"
        if isinstance(v, Big):
            return f"big({v.n})"
        if isinstance(v, int):
            return str(v)
        if isinstance(v, float):
            if math.isnan(v):
                return "nan"
            if math.isinf(v):
                return "infinite" if v > 0 else "-infinite"
            return repr(v)
        if isinstance(v, Dec):
            return f"dec({v.text})"
        if isinstance(v, Str):
            try:
                t = v.b.decode("utf-8")
                body = "".join(c if 0x20 <= ord(c) < 0x7f and c not in '"\\' else f"\\u{ord(c):04x}" if ord(c) < 0x10000 else c for c in t)
                return ('"' if v.text else 'b"') + body + '"'
            except UnicodeDecodeError:
                return ("hex" if v.text else "bhex") + '"' + v.b.hex() + '"'
        if isinstance(v, list):
            return "[" + ",".join(go(x) for x in v) + "]"
        if isinstance(v, Obj):
            return "{" + ",".join(f"({go(k)}):{go(x)}" for k, x in v.items) + "}"
        return repr(v)
    s = go(v)
    return s if len(s) <= limit else s[:limit] + "…"
