"""Workload generator for C19: small jq programs + inputs.

Two sources: (a) *families* — templates with seeded constants that aim at state a thread-unsafe
implementation would plausibly share (regex compilation, time formatting, @formats, big-int
arithmetic, sorting/grouping, object hashing, string scratch buffers, JSON printing/parsing) and
at the interpreter's own machinery (definitions, closures, recursion/TCO, reduce/foreach,
label/break, try/catch, destructuring, paths, updates); (b) a random *core-language* expression
generator (bounded: no unbounded recursion/loops, no clock/environment/input-stream filters,
no size blow-ups).

Every program is deterministic by construction (no now/env/$ENV/input/inputs/input_filename/
debug/stderr); whatever it yields — values, an error, a halt — is a legitimate outcome."""
from . import gen
from .codec import Dec, Obj, S, Str, enc

REGEXES = ["a+b", "[a-c]+", "\\\\d+", "(?<x>[a-z]+)(?<n>\\\\d*)", "^\\\\s*", "b|c", ".", "", "(a)(b)?",
           "\\\\bfoo\\\\b", "[^ ]+ ", "é+", "(?i)abc", "[0-9a-f]{2}", "x*", "(?<y>.)\\\\s", "^$", "o{2,}", "\\\\w+@\\\\w+",
           "(", "[a", "*a"]
FLAGS = ["", "g", "i", "x", "gi", "n", "s", "l", "gn", "q"]
WORDS = ["", "a", "ab", "aab", "abc", "foo bar", "foo  baz ", "Abc aab", "x1y22z333", "é€𝄞", "0a1b2c", " lead", "trail ",
         "a,b,c", "foo@bar baz@qux", "aaaaaaaaaaaaaaaaaaaaaaaaaaaaaaaaaaaaaaab", "line1\nline2", "tab\there", "ff00a1",
         "The quick brown fox", "ooo oo o", "\u00e9\u00e9", "\"quoted\"", "back\\slash", "<a href='x'>&amp;</a>", "a=b&c=d e",
         "%41%zz", "YWJj", "YWJjZA==", "!!!", "null", "123", "-1.5e3", "[1,2", "{\"a\":1}"]
TIMES = [0, 1, -1, 86399, 86400, 951782400, 1425599621, 1700000000, 2147483647, 2147483648, -2208988800, 4102444800,
         1e9 + 0.5, 1425599621.678, -0.5, 253402300799, 10 ** 11, -(10 ** 11)]
DATES = ["2015-03-05T23:51:47Z", "1970-01-01T00:00:00Z", "2000-02-29T12:00:00Z", "1999-12-31T23:59:59Z", "2038-01-19T03:14:08Z",
         "2024-02-30T00:00:00Z", "not a date", "2015-03-05 23:51:47", "1900-01-01T00:00:00Z"]
STRFTIME = ["%Y-%m-%dT%H:%M:%SZ", "%A, %B %d, %Y", "%j %U %a %b", "%H:%M:%S %Z", "%e %y %C %u %w", "%s", "%F %T", "%%", "%I %p"]
BIGS = [2 ** 62, 2 ** 63 - 1, 2 ** 63, -(2 ** 63) - 1, 2 ** 64, 10 ** 20, -(10 ** 20), 2 ** 130, 3 ** 100, 10 ** 40 + 7, 7, 0, -1]


def q(s):
    """jq string literal for s (already regex-escaped where needed by the caller)"""
    return '"' + s.replace('"', '\\"') + '"'


def lit(s):
    return '"' + s.replace("\\", "\\\\").replace('"', '\\"').replace("\n", "\\n").replace("\t", "\\t") + '"'


# ---- inputs -----------------------------------------------------------------------------
def in_strs(rng):
    return [S(w) for w in rng.sample(WORDS, rng.randrange(3, 9))]


def in_str(rng):
    return S(rng.choice(WORDS))


def in_times(rng):
    return [float(t) if isinstance(t, float) else t for t in rng.sample(TIMES, rng.randrange(3, 8))]


def in_dates(rng):
    return [S(w) for w in rng.sample(DATES, rng.randrange(2, 6))]


def in_bigs(rng):
    return rng.sample(BIGS, rng.randrange(2, 6))


def in_big(rng):
    return rng.choice(BIGS)


def in_any(rng):
    return gen.rand_value(rng, depth=rng.randrange(1, 4))


def in_json(rng):
    return gen.rand_json_like(rng, depth=rng.randrange(1, 4))


def in_arr(rng):
    return [gen.rand_value(rng, depth=rng.randrange(0, 3)) for _ in range(rng.randrange(0, 9))]


def in_jarr(rng):
    return [gen.rand_json_like(rng, depth=rng.randrange(0, 3)) for _ in range(rng.randrange(0, 9))]


def in_objs(rng):
    ks = ["a", "b", "c"]
    return [Obj([(S(k), rng.choice([0, 1, 2, 3, None, S("x"), S("y"), [1], 1.5, Dec("1.0")]))
                 for k in rng.sample(ks, rng.randrange(1, 4))]) for _ in range(rng.randrange(2, 9))]


def in_nums(rng):
    pool = [0, 1, 2, 3, 5, 7, 10, 12, -1, -3, 1.5, -0.5, 100, 2 ** 31, 2 ** 53, 10 ** 20]
    return [rng.choice(pool) for _ in range(rng.randrange(1, 9))]


def in_small(rng):
    return rng.choice([0, 1, 2, 3, 5, 8, 13, 21])


def in_obj_big(rng):
    n = rng.choice([17, 64, 200])
    return Obj([(S("k%d" % (i * 7919 % 1009)), i) for i in range(n)])


def in_null(rng):
    return None


def in_pairs(rng):
    return [[rng.randrange(-5, 6), rng.randrange(-5, 6)] for _ in range(rng.randrange(0, 7))]


def in_nested(rng):
    return Obj([(S("a"), Obj([(S("b"), [1, 2, Obj([(S("c"), None)])]), (S("d"), S("x"))])), (S("e"), [[], [0.5]]),
                (S(rng.choice(["f", "g", "a b"])), rng.choice([None, True, 3, S("s")]))])


# ---- families: (name, input kind, maker(rng) -> program text [, vars]) --------------------
def fam_regex(rng):
    re_, fl = rng.choice(REGEXES), rng.choice(FLAGS)
    re2 = rng.choice(REGEXES[:19])
    return [
        ("regex.test", in_strs, '[.[] | try test(%s; %s) catch "E"]' % (q(re_), q(fl))),
        ("regex.match", in_strs, '[.[] | try (match(%s; %s) | [.offset, .length, .string, (.captures | map(.string, .name))]) catch "E"]'
         % (q(re_), q(rng.choice(["g", "", "gi"])))),
        ("regex.sub", in_strs, '[.[] | try sub(%s; "<\\(.x // "-")>") catch "E"]' % q(rng.choice(["(?<x>[a-z]+)(?<n>\\\\d*)", "(?<x>.)\\\\s", re_]))),
        ("regex.gsub", in_strs, '[.[] | try gsub(%s; %s; %s) catch "E"]' % (q(re_), rng.choice(['""', '"_"', '"[\\(.)]"']), q(rng.choice(["", "i", "x"])))),
        ("regex.splits", in_strs, '[.[] | try [splits(%s)] catch "E"]' % q(re2)),
        ("regex.split2", in_strs, '[.[] | try split(%s; %s) catch "E"]' % (q(re2), q(rng.choice(["g", "", "gi"])))),
        ("regex.capture", in_strs, '[.[] | try capture("(?<a>[a-z]+)(?<n>[0-9]*)"; %s) catch "E"]' % q(rng.choice(["", "g", "i"]))),
        ("regex.scan", in_strs, '[.[] | try [scan(%s)] catch "E"]' % q(re2)),
        ("regex.two", in_strs, '[.[] | [test(%s), test(%s)]]' % (q(rng.choice(REGEXES[:19])), q(re2))),
        ("regex.dynamic", in_strs, '. as $s | [$res[] as $re | try [$s[] | test($re)] catch "bad"]',
         [("res", [S(r.replace("\\\\", "\\")) for r in rng.sample(REGEXES, 5)])]),
    ]


def in_flag_strs(rng):
    return [S("caaat baaad"), S("cAAat"), S("a  aa"), S("a\nb\na"), S(""), S("aaa")]


def fam_regex_flag_pairs(rng):
    """Neighbouring programs that differ in exactly one regex flag (or only in the regex), on inputs where every
    flag matters: state kept from one regex call to the next (a cache keyed on less than everything that
    influences compilation) shows as a difference between run orders."""
    res = ["a+", "a +", "a.b", "^a", "a*?", "(a)|b"]
    re_ = rng.choice(res)
    base = rng.choice(["g", "", "gn"])
    out = []
    flags = list("gnixslmp")
    rng.shuffle(flags)
    for k, f in enumerate(flags):
        fl = base.replace(f, "") if f in base else base + f
        for flv in (base, fl):
            # (the trailing identities only make the program texts distinct)
            out.append(("state.regex-flags", in_flag_strs,
                        '[.[] | try [match(%s; %s) | .string] catch "E"]%s' % (q(re_), q(flv), " | ." * k)))
    out.append(("state.regex-flags", in_flag_strs, '[.[] | try [match(%s; %s) | .string] catch "E"]' % (q(rng.choice(res)), q(base))))
    return out


def fam_time(rng):
    f1, f2 = rng.choice(STRFTIME), rng.choice(STRFTIME)
    return [
        ("time.todate", in_times, '[.[] | try todate catch "E"]'),
        ("time.gmtime", in_times, '[.[] | try gmtime catch "E"]'),
        ("time.gmtime-mktime", in_times, '[.[] | try (gmtime | mktime) catch "E"]'),
        ("time.strftime", in_times, '[.[] | try strftime(%s) catch "E"]' % q(f1)),
        ("time.strftime-broken", in_times, '[.[] | try (gmtime | strftime(%s)) catch "E"]' % q(f2)),
        ("time.localtime", in_times, '[.[] | try (localtime | mktime) catch "E"]'),
        ("time.strflocaltime", in_times, '[.[] | try strflocaltime(%s) catch "E"]' % q(f1)),
        ("time.fromdate", in_dates, '[.[] | try fromdate catch "E"]'),
        ("time.strptime", in_dates, '[.[] | try (strptime("%Y-%m-%dT%H:%M:%SZ") | ., mktime) catch "E"]'),
        ("time.iso8601", in_dates, '[.[] | try (fromdateiso8601 | todateiso8601) catch "E"]'),
    ]


def fam_format(rng):
    return [
        ("format.base64", in_strs, '[.[] | @base64, (try @base64d catch "E")]'),
        ("format.uri", in_strs, '[.[] | @uri, (try @urid catch "E")]'),
        ("format.html", in_strs, '[.[] | @html, @htmld]'),
        ("format.sh", in_strs, '[.[] | @sh], (try @sh catch "E")'),
        ("format.json-text", in_arr, '[.[] | @json, @text]'),
        ("format.csv-tsv", in_jarr, '[.[] | try ([.[]?] | @csv, @tsv) catch "E"]'),
        ("format.interp", in_strs, '[.[] | @base64 "x\\(.)y", @uri "q=\\(.)&n=\\(length)", @html "<b>\\(.)</b>", @json "v: \\(.)"]'),
        ("format.tojson-fromjson", in_any, '[., [.]] | tojson | ., fromjson'),
        ("format.fromjson", in_strs, '[.[] | try fromjson catch "E"]'),
        ("format.cbor", in_any, 'try (tocbor | ., fromcbor) catch "E"'),
        ("format.yaml", in_json, 'try (toyaml | ., fromyaml) catch "E"'),
        ("format.toml", in_json, 'try ({a: ., b: {c: [1, "x"]}} | totoml | ., fromtoml) catch "E"'),
        ("format.xml", in_strs, '[.[] | try ({t: "a", a: {k: .}, c: [., {t: "b"}]} | toxml | ., fromxml) catch "E"]'),
        ("format.csv-read", in_strs, '[.[] | try [fromcsv] catch "E", try [fromtsv] catch "E"]'),
        ("format.tostring", in_arr, 'map(tostring), (map(tojson) | join(","))'),
    ]


def fam_bigint(rng):
    n = rng.randrange(15, 45)
    return [
        ("bigint.ops", in_bigs, '[.[] | . as $x | [$x * $x, $x + 1, $x - 1, ($x | tostring | length), $x %% %d, ($x / 7 | floor), -$x, ($x | abs)]]'
         % rng.choice([1000007, 97, 2 ** 32 + 1])),
        ("bigint.factorial", in_null, 'reduce range(1; %d) as $i (1; . * $i) | ., tostring, (. %% 1000003)' % n),
        ("bigint.recurse", in_big, '[limit(%d; recurse(. * %d + 1))] | ., (map(tostring | length))' % (rng.randrange(5, 40), rng.choice([3, 7, 2 ** 40]))),
        ("bigint.cmp", in_bigs, '[.[] as $x | .[] as $y | [$x < $y, $x == $y, $x - $y]] | length, (map(.[2]) | add), (sort | unique | length)'),
        ("bigint.json", in_bigs, 'tojson | ., fromjson, (fromjson | map(. + 1) | tojson)'),
        ("bigint.tonumber", in_bigs, 'map(tostring | tonumber), map(tostring | ltrimstr("-") | explode | implode)'),
        ("bigint.float", in_bigs, 'map(. * 1.5, . / 3, (. | sqrt? // "neg"), floor)'),
    ]


def fam_sort(rng):
    k = rng.choice(["a", "b", "c"])
    return [
        ("sort.sort", in_arr, 'sort, (sort | reverse), unique, (map(tojson) | sort)'),
        ("sort.sort_by", in_objs, 'sort_by(.%s), sort_by(.a, .b), (sort_by(.%s) | map(.%s))' % (k, k, k)),
        ("sort.group_by", in_objs, 'group_by(.%s) | ., map(length)' % k),
        ("sort.unique_by", in_arr, 'unique_by(type), unique_by(tojson | length), (map(type) | unique)'),
        ("sort.minmax", in_objs, 'min_by(.%s), max_by(.%s), (map(.%s) | min, max)' % (k, k, k)),
        ("sort.bsearch", in_nums, 'sort as $s | [.[] | . as $x | $s | bsearch($x)], ($s | bsearch(4))'),
        ("sort.minus", in_arr, '. - [.[0], null, 1], (. - . | length), (. + . | unique | length)'),
        ("sort.big", in_null, '[range(%d) | (. * 7919 %% 1009 | tostring)] | sort | .[0:5], (unique | length), (group_by(length) | map(length))' % rng.choice([200, 500, 1000])),
    ]


def fam_object(rng):
    n = rng.choice([30, 100, 300])
    return [
        ("object.build", in_null, '[range(%d)] | map({(tostring): .}) | add | [length, .["17"], has("x"), (keys | length), (to_entries | map(.value) | add)]' % n),
        ("object.setdel", in_null, 'reduce range(%d) as $i ({}; .[$i | tostring] = $i) | del(.["3", "5"]) | (keys_unsorted | length), .["7"], (with_entries(.value += 1) | .["8"])' % n),
        ("object.nonstring-keys", in_null, 'reduce range(%d) as $i ({}; . + {($i): ($i * 2), ([$i]): null}) | length, .[3], has([4]), (keys | .[0:3])' % rng.choice([20, 60])),
        ("object.lookup", in_obj_big, '[.k1, .k7, .nope, has("k8"), length, (keys | .[0:3]), (to_entries | map(.value) | add), (map_values(. + 1) | .k7)]'),
        ("object.merge", in_obj_big, '. * {k7: {z: 1}} + {zz: 1} | length, .k7, ([.[] | numbers] | add)'),
        ("object.entries", in_objs, 'map(to_entries), map(with_entries(.value |= tostring)), (map(keys) | add | unique)'),
        ("object.cartesian", in_nums, '[{a: .[0:2][], b: (.[0:3][] | tostring), (.[0:2][] | tostring): 1}] | length, .[0], .[-1]'),
        ("object.contains", in_objs, '[.[] as $x | .[] | contains($x), inside($x)] | map(select(.)) | length'),
    ]


def fam_string(rng):
    w = rng.choice(["a", "ab", "foo", " ", "é", ""])
    return [
        ("string.trimstr", in_strs, '[.[] | ltrimstr(%s), rtrimstr(%s), startswith(%s), endswith(%s)]' % ((lit(w),) * 4)),
        ("string.explode", in_strs, '[.[] | explode, (explode | implode), (explode | reverse | implode)]'),
        ("string.case", in_strs, '[.[] | ascii_downcase, ascii_upcase, ltrim, rtrim, trim]'),
        ("string.split-join", in_strs, '[.[] | split(%s) | ., join("-")]' % lit(rng.choice([",", " ", "a", ""]))),
        ("string.indices", in_strs, '[.[] | indices(%s), index(%s), rindex(%s)]' % ((lit(rng.choice(["a", "ab", "o", " "])),) * 3)),
        ("string.slice", in_strs, '[.[] | .[1:3], .[-2:], .[:1], length, utf8bytelength]'),
        ("string.bytes", in_strs, '[.[] | tobytes | ., length, .[0:2], (tostring? // "E"), (. + .)]'),
        ("string.interp", in_arr, '[.[] | "\\(.)-\\(type):\\(length? // "n")"]'),
        ("string.repeat", in_strs, '[.[] | . * 3, (. * 0), ([., .] | add)]'),
        ("string.tonumber", in_strs, '[.[] | try tonumber catch "E"]'),
        ("string.contains", in_strs, '[.[] as $x | .[] | contains($x)] | map(select(.)) | length'),
        ("string.add", in_strs, 'add, (map(length) | add), (reduce .[] as $s (""; . + $s + ",")), join("/")'),
    ]


def fam_paths(rng):
    return [
        ("paths.paths", in_any, '[paths], [paths(type == "number")], [path(..)] | length'),
        ("paths.getpath", in_nested, 'getpath(["a", "b", 2, "c"]), getpath(["e", 1, 0]), getpath(["x", "y"]), [paths | length]'),
        ("paths.roundtrip", in_any, '. as $d | [paths] | map(. as $p | $d | getpath($p)) | length'),
        ("paths.setpath", in_nested, 'setpath(["a", "b", 0]; 9), setpath(["n", "m"]; 1), (try setpath([0]; 1) catch "E"), delpaths([["a", "d"], ["e", 0]])'),
        ("paths.rebuild", in_any, 'reduce path(..) as $p (.; setpath($p; getpath($p)))'),
        ("paths.update-rec", in_any, '(.. | select(type == "number")) |= . + 1'),
        ("paths.update", in_nested, '.a.b[1] |= . * 10, (.e[1] += [1]), (.a.d //= 3), (.zz //= 3), (.a.b[2].c = {x: 1})'),
        ("paths.del", in_nested, 'del(.a.b[0, 2]), del(.e[]), del(.. | nulls), (del(.a) | keys)'),
        ("paths.slices", in_arr, 'try (.[1:] = ["x"]) catch "E", (try (.[-1] |= 5) catch "E"), del(.[0, 2]), (.[2:4] |= map(tostring))'),
        ("paths.update-empty", in_arr, '(.[] |= empty), (.[] |= (numbers // empty)), map(select(. != null))'),
        ("paths.walk", in_any, 'walk(if type == "number" then . + 1 elif type == "array" then reverse else . end)'),
        ("paths.pick", in_nested, 'pick(.a.b[1]), pick(.e[0]), pick(.q), (to_entries | map(.key))'),
        ("paths.tree", in_any, '[..] | length, (map(type) | unique), [limit(5; .[] | scalars)]'),
        ("paths.flatten", in_arr, 'flatten, flatten(1), (try transpose catch "E"), ([.[] | arrays] | try combinations catch "E")'),
        ("paths.map_values", in_any, 'try map_values(. // 0) catch "E", (try map_values(empty) catch "E"), (try to_entries catch "E")'),
        ("paths.global-update", in_small, '$g | .a |= . + $n, (.b[1:] = [.]), (.c.d |= tostring), .', None,),
    ]


def fam_core(rng):
    k = rng.randrange(3, 12)
    big = rng.choice([100, 1000, 5000])
    return [
        ("core.fac", in_null, 'def fac: if . <= 1 then 1 else . * (. - 1 | fac) end; [range(%d) | fac]' % (k + 12)),
        ("core.fib-closure", in_null, 'def fib(n): if n < 2 then n else fib(n - 1) + fib(n - 2) end; fib(%d)' % k),
        ("core.iter", in_arr, 'def iter($n; g): if $n <= 0 then . else g | iter($n - 1; g) end; iter(%d; . + [length])' % k),
        ("core.tco", in_small, 'def count($n): if . >= $n then . else . + 1 | count($n) end; count(%d)' % big),
        ("core.tco-acc", in_small, 'def sum($acc): if . <= 0 then $acc else . as $x | . - 1 | sum($acc + $x) end; . * %d | sum(0)' % rng.choice([10, 100])),
        ("core.nested-defs", in_small, 'def outer($a): def inner($b): $a + $b; def twice(f): f | f; [range(3) | inner(.) | twice(. * 2)]; outer(.), outer(10)'),
        ("core.closure-capture", in_arr, 'def each(f): [.[] | f]; . as $all | each(. as $x | [$all[] | select(. == $x)] | length)'),
        ("core.shadow", in_small, '. as $x | (. + 1) as $x | [$x, (2 as $x | $x), $x] | . as [$a, $b, $c] | {$a, $b, $c}'),
        ("core.reduce", in_nums, 'reduce .[] as $x (0; . + $x), reduce .[] as $x ([]; [$x] + .), reduce empty as $x (3; 4)'),
        ("core.foreach", in_nums, '[foreach .[] as $x (0; . + $x)], [foreach .[] as $x (0; . + $x; [$x, .])], [limit(%d; foreach range(100) as $i (0; . + $i; [$i, .]))]' % k),
        ("core.foreach-multi", in_nums, '[foreach (.[], .[]) as $x ({n: 0}; .n += 1 | .last = $x; select(.n % 2 == 0) | .last)]'),
        ("core.label", in_nums, 'label $out | foreach .[] as $x (0; . + 1; if . > %d then ., break $out else $x end)' % (k % 5)),
        ("core.label-nested", in_nums, '[label $a | label $b | (.[] | if . > 5 then break $a elif . < 0 then break $b else . end), "x"]'),
        ("core.destructure", in_objs, '[.[] as {a: $x, b: $y} | [$x, $y]], [.[] as {$a, c: [$c]} | [$a, $c]], [.[] as {"a": $x, ("b", "c"): $y} | [$x, $y]]'),
        ("core.destructure-arr", in_pairs, '[.[] as [$a, $b] | {s: ($a + $b), p: ($a * $b)}], reduce .[] as [$a, $b] (0; . + $a * $b)'),
        ("core.try", in_arr, '[.[] | try (if . == null then error("nul") elif type == "string" then error({s: .}) else . end) catch (.s? // .)]'),
        ("core.try-nested", in_arr, 'try ([.[] | try error(.) catch (if type == "number" then error("num") else . end)]) catch "outer: \\(.)"'),
        ("core.error-value", in_any, 'try error catch ., (try error(null) catch "null"), ([.[]?] | length)'),
        ("core.error-out", in_arr, '.[0], (.[1] | error), .[2]'),
        ("core.alt", in_arr, '[.[] | . // "d"], (.[0] // .[1] // "none"), [(.[] | select(. == null)) // "all-null"], (first(.[] | numbers) // "nonum")'),
        ("core.limit", in_arr, '[limit(3; .[])], [first(.[])], [limit(0; error)], [limit(2; repeat(.[0]))], isempty(.[]), [nth(1; .[])], [skip(2; .[])]'),
        ("core.range", in_small, '[range(.)], [range(0; 10; 3)], [range(5; 0; -2)], [range(.; . + 2)], first(range(10; 0; -3))'),
        ("core.until", in_small, '[while(. < 100; . * 2 + 1)], until(. > 50; . + 7), [recurse(if . < 3 then . + 1 else empty end)], [limit(5; recurse(. + 1; . < 100))]'),
        ("core.logic", in_arr, '[.[] | [(. and true), (. or false), (. | not), (. == null), (. < 1), (. >= "a")]], all, any, (map(type) | all(. == "number"))'),
        ("core.ifelif", in_arr, '[.[] | if type == "number" then (if . > 1 then "big" else "small" end) elif type == "string" then length elif . then "truthy" else "falsy" end]'),
        ("core.cartesian", in_nums, '[(.[0:3][], 10) + (.[0:2][] * 2, 100)], [.[0:2][] as $x | .[1:3][] as $y | [$x, $y]]'),
        ("core.comma-pipe", in_any, '(., [.]) | (type, length?) | tostring'),
        ("core.opt", in_any, '[.[]?], [.a?], [.[0]?], [..?] | length, [.[]?.a?], (try .a catch "E"), [.["a", "b"]?]'),
        ("core.arith", in_nums, 'map(. + 1, . - 1, . * 2, . / 2, (. % 3)?) | add, (map(tostring) | add), ([.[] | -.] | add), (map(floor?, sqrt?, fabs?) | length)'),
        ("core.math", in_nums, 'map(select(. < 1e6) | sin, cos, log2?, exp2?, pow(.; 2), atan2(.; 3), fma(.; 2; 1), (frexp | .[1]), significand?, round, ceil, trunc)'),
        ("core.global-vars", in_small, '[$g.a, $n, ($g.b | length), ($g | keys), . + $n, ([$g.b[] | select(. == $n)] | length)]', None),
        ("core.global-share", in_arr, '[., $g.b] | add | unique | length, ($g.b | map(. + 1)), ($g | tojson | length), ($g.c | has("d"))', None),
        ("core.halt", in_arr, '.[0], (if .[1] == null then halt else .[1] end), "after"'),
        ("core.deep", in_small, 'reduce range(%d) as $i (.; [.]) | [paths] | length' % rng.choice([10, 40])),
        ("core.tostream-like", in_any, '[paths(scalars) as $p | [$p, getpath($p)]] | ., (reduce .[] as [$p, $v] (null; setpath($p; $v)))'),
        ("core.recursive-walk", in_any, 'def w(f): if type == "array" then map(w(f)) | f elif type == "object" then map_values(w(f)) | f else f end; w(if type == "number" then -(.) else . end)'),
        ("core.mutual", in_small, 'def ev: def od: if . == 0 then false else . - 1 | ev end; if . == 0 then true else . - 1 | od end; [range(.) | ev]'),
        ("core.generator-args", in_nums, 'def f(g; h): [g, (h | g)]; f(.[]?; map(tostring)) | length, (def z($a; $b): [$a, $b]; [z(.[0:2][]; .[0:2][])])'),
        ("core.string-keys", in_any, '{a: ., "b c": 1, ("x" + "y"): [.], @base64 "k": 2, "i\\(1 + 1)": 3} | keys, .xy'),
        ("core.getpath-multi", in_nested, '[getpath(["a", "b"], ["e"], ["a", "d"])], [.a["b", "d"]], [.e[][]?]'),
        ("core.assign-multi", in_nested, '(.a.b[0], .e[1][0]) = (1, 2)'),
        ("core.in-has", in_any, '[has("a")?, has(0)?], (try ("a" | in({a: 1})) catch "E"), [.[]? | type] , (keys? // "nokeys")'),
    ]


FAMILIES = [fam_regex, fam_regex_flag_pairs, fam_time, fam_format, fam_bigint, fam_sort, fam_object, fam_string, fam_paths, fam_core]
# families whose natives look at files / the process environment (jiff's time zone database):
# kept out of the Miri workload
MIRI_AVOID = ("time.",)


def global_vars(rng):
    g = Obj([(S("a"), rng.choice([1, 5, 2 ** 70])), (S("b"), [rng.randrange(0, 4) for _ in range(rng.randrange(1, 6))]),
             (S("c"), Obj([(S("d"), rng.choice([None, 1.5, S("s")])), (S("e"), [[1, 2], Obj([(S("f"), S("é"))])])]))])
    return [("g", g), ("n", rng.randrange(0, 4))]


# ---- random core-language expressions ------------------------------------------------------
class ExprGen:
    """Bounded random expressions: no recursion, loops only over finite streams, constants small."""

    def __init__(self, rng):
        self.rng = rng
        self.nvar = 0
        self.nlabel = 0
        self.nfun = 0

    def const(self):
        r = self.rng
        return r.choice(["0", "1", "2", "-1", "3", "10", "1.5", "null", "true", "false", '"a"', '"b"', '"ab"', '""',
                         "[]", "{}", "[1,2,3]", '{"a":1,"b":[2]}', "100000000000000000000", '"x y"', "[[0],[1,[2]]]"])

    def path(self, d, env):
        r = self.rng
        if d <= 0:
            return r.choice([".", ".a", ".b", ".[0]", ".[1]", ".[-1]", ".[]?", '.["a"]?', ".[1:]?", ".a?", ".[0]?"])
        k = r.randrange(9)
        if k == 0:
            return "%s | %s" % (self.path(d - 1, env), self.path(d - 1, env))
        if k == 1:
            return "(%s, %s)" % (self.path(d - 1, env), self.path(d - 1, env))
        if k == 2:
            return "(%s | select(%s))" % (self.path(d - 1, env), self.expr(d - 1, env))
        if k == 3:
            return "(if %s then %s else %s end)" % (self.expr(d - 1, env), self.path(d - 1, env), self.path(d - 1, env))
        if k == 4:
            return "(%s // %s)" % (self.path(d - 1, env), self.path(d - 1, env))
        if k == 5:
            return "(.. | select(type == %s))" % r.choice(['"number"', '"array"', '"string"', '"object"', '"null"'])
        if k == 6:
            return "first(%s)" % self.path(d - 1, env)
        if k == 7:
            return "getpath([%s])" % r.choice(['"a"', '"a", "b"', "0", '"b", 0', ""])
        return r.choice([".a", ".b", ".[0]", ".[1]", ".[-1]", ".[]?", ".a?", ".[0]?"]) + r.choice(["", ".a?", "[0]?", "[]?", ".b?"])

    def expr(self, d, env):
        r = self.rng
        vs, fs, labels = env
        if d <= 0:
            k = r.randrange(10)
            if k < 3:
                return self.const()
            if k < 5 and vs:
                return "$" + r.choice(vs)
            if k == 5 and fs:
                name, ar = r.choice(fs)
                return name if ar == 0 else "%s(%s)" % (name, "; ".join(self.path(0, env) for _ in range(ar)))
            if k == 6 and labels:
                return "break $" + r.choice(labels)
            if k == 7:
                return r.choice(["empty", 'error("e")', "error", "length?", "type", "keys?", "tojson", "tostring", "not", "add?",
                                 "floor?", "reverse?", "sort?", "unique?", "to_entries?", "flatten?", "ascii_downcase?", "explode?",
                                 "min?", "max?", "first?", "last?", "tonumber?", "abs?", "utf8bytelength?", "ltrimstr(\"a\")"])
            return self.path(0, env)
        e = lambda: "(" + self.expr(d - 1, env) + ")"   # noqa: E731
        k = r.randrange(34)
        if k == 0:
            return "%s | %s" % (self.expr(d - 1, env), self.expr(d - 1, env))
        if k == 1:
            return "(%s, %s)" % (e(), e())
        if k == 2:
            return "[%s]" % e()
        if k == 3:
            return "{a: %s, (%s | tostring): %s}" % (e(), e(), e())
        if k == 4:
            return "(%s %s %s)" % (e(), r.choice(["+", "-", "/", "%", "+", "-"]), e())
        if k == 5:
            return "(%s * %s)" % (e(), r.choice(["0", "1", "2", "3", "{}", '{"a":{"c":1}}', "1.5", "-1"]))
        if k == 6:
            return "(%s %s %s)" % (e(), r.choice(["==", "!=", "<", "<=", ">", ">="]), e())
        if k == 7:
            return "(%s %s %s)" % (e(), r.choice(["and", "or", "//"]), e())
        if k == 8:
            return "(if %s then %s else %s end)" % (e(), e(), e())
        if k == 9:
            return "(if %s then %s elif %s then %s end)" % (e(), e(), e(), e())
        if k == 10:
            return "(try %s catch %s)" % (e(), e())
        if k == 11:
            return "(%s)?" % e()
        if k in (12, 13):
            self.nvar += 1
            v = "v%d" % self.nvar
            return "(%s as $%s | %s)" % (e(), v, self.expr(d - 1, (vs + [v], fs, labels)))
        if k == 14:
            self.nvar += 2
            a, b = "v%d" % (self.nvar - 1), "v%d" % self.nvar
            pat = r.choice(["[$%s, $%s]" % (a, b), "{a: $%s, b: $%s}" % (a, b), "{$%s, b: [$%s]}" % (a, b),
                            "[[$%s], {c: $%s}]" % (a, b)])
            both = [a, b]
            return "(%s as %s | %s)" % (e(), pat, self.expr(d - 1, (vs + both, fs, labels)))
        if k == 15:
            self.nvar += 1
            v = "v%d" % self.nvar
            return "(reduce %s as $%s (%s; %s))" % (e(), v, e(), self.expr(d - 1, (vs + [v], fs, labels)))
        if k == 16:
            self.nvar += 1
            v = "v%d" % self.nvar
            env2 = (vs + [v], fs, labels)
            if r.random() < 0.5:
                return "(foreach %s as $%s (%s; %s))" % (e(), v, e(), self.expr(d - 1, env2))
            return "(foreach %s as $%s (%s; %s; %s))" % (e(), v, e(), self.expr(d - 1, env2), self.expr(d - 1, env2))
        if k == 17:
            return "limit(%d; %s)" % (r.randrange(0, 4), e())
        if k == 18:
            return r.choice(["first(%s)", "[%s] | last", "isempty(%s)", "[%s] | length", "nth(1; %s)", "[skip(1; %s)]"]) % e()
        if k == 19:
            self.nlabel += 1
            lb = "l%d" % self.nlabel
            return "(label $%s | %s)" % (lb, self.expr(d - 1, (vs, fs, labels + [lb])))
        if k in (20, 21):
            self.nfun += 1
            name = "f%d" % self.nfun
            kind = r.randrange(3)
            if kind == 0:
                body = self.expr(d - 1, (vs, fs, []))
                return "(def %s: %s; %s)" % (name, body, self.expr(d - 1, (vs, fs + [(name, 0)], labels)))
            if kind == 1:
                body = self.expr(d - 1, (vs, fs + [("g", 0)], []))
                return "(def %s(g): %s; %s)" % (name, body, self.expr(d - 1, (vs, fs + [(name, 1)], labels)))
            self.nvar += 1
            p = "p%d" % self.nvar
            body = self.expr(d - 1, (vs + [p], fs + [("h", 0)], []))
            return "(def %s($%s; h): %s; %s)" % (name, p, body, self.expr(d - 1, (vs, fs + [(name, 2)], labels)))
        if k == 22:
            return "(%s |= %s)" % (self.path(d - 1, env), e())
        if k == 23:
            return "(%s %s %s)" % (self.path(d - 1, env), r.choice(["=", "+=", "-=", "*=", "//=", "/=", "%="]),
                                   self.const() if r.random() < 0.6 else e())
        if k == 24:
            return r.choice(["[path(%s)]", "[paths(%s)]", "del(%s)", "pick(first(%s))?"]) % self.path(d - 1, env)
        if k == 25:
            return r.choice(["map(%s)?", "map_values(%s)?", "[.[]? | select(%s)]", "with_entries(.value |= (%s))?", "walk(%s)?",
                             "sort_by(%s)?", "group_by(%s)?", "unique_by(%s)?", "min_by(%s)?", "any(%s)?", "all(%s)?",
                             "[recurse(.[]?; %s)]", "to_entries? | map(%s)"]) % e()
        if k == 26:
            return "[range(%d)] | map(%s)" % (r.randrange(0, 5), e())
        if k == 27:
            return r.choice(["[limit(%d; recurse(%s))]", "[limit(%d; repeat(1, %s))]"]) % (r.randrange(0, 5), e())
        if k == 28:
            return "-(%s)" % e()
        if k == 29:
            return '"s\\(%s)-\\(%s)"' % (e(), e())
        if k == 30:
            return "(%s)[%s]?" % (e(), r.choice(["0", "-1", '"a"', "1:", ":1", self.const()]))
        if k == 31:
            return "%s | %s" % (e(), r.choice(["tojson", "tojson | fromjson", "tostring", "@json", "@base64?", "@uri?", "@html?", "@sh?",
                                               "ltrimstr(\"a\")", "test(\"a\")?", "sub(\"a\"; \"b\")?", "split(\"a\")?", "join(\",\")?",
                                               "ascii_downcase?", "explode?", "todate?", "tobytes?", "type", "length?",
                                               "keys?", "has(\"a\")?", "contains(%s)?" % self.const(), "indices(%s)?" % self.const(),
                                               "flatten?", "add?", "sort?", "unique?", "transpose?", "to_entries?", "from_entries?"]))
        if k == 32:
            return "getpath(%s)?" % r.choice(['["a"]', '["a", "b"]', "[0]", '["b", 0]', "[]", "[paths] | first?"])
        return self.path(d, env)

    def program(self):
        self.nvar = self.nlabel = self.nfun = 0
        d = self.rng.choice([2, 3, 3, 4])
        return self.expr(d, (["g", "n"], [], []))


def workload(rng, rounds, n_random, inputs_per_prog=3, miri=False):
    """-> list of {"family", "prog", "vars":[(name, value)], "inputs":[value]} (model values)"""
    out = []
    seen = set()
    for _ in range(rounds):
        for fam in FAMILIES:
            for t in fam(rng):
                name, inp, prog = t[0], t[1], t[2]
                if miri and name.startswith(MIRI_AVOID):
                    continue
                if len(t) > 3:
                    vs = t[3] if t[3] is not None else global_vars(rng)
                else:
                    vs = []
                if prog in seen and not vs:
                    continue
                seen.add(prog)
                out.append({"family": name, "prog": prog, "vars": vs,
                            "inputs": [inp(rng) for _ in range(inputs_per_prog)]})
    eg = ExprGen(rng)
    tries = 0
    while n_random > 0 and tries < n_random * 20:
        tries += 1
        prog = eg.program()
        if len(prog) > 900 or prog in seen:
            continue
        seen.add(prog)
        n_random -= 1
        kinds = [in_any, in_json, in_arr, in_nested, in_objs, in_nums]
        out.append({"family": "random.core", "prog": prog, "vars": global_vars(rng),
                    "inputs": [rng.choice(kinds)(rng) for _ in range(inputs_per_prog)]})
    return out


def wire(progs):
    """request form of a workload"""
    return [{"prog": p["prog"], "vars": [[n, enc(v)] for n, v in p["vars"]], "inputs": [enc(v) for v in p["inputs"]]}
            for p in progs]
