"""C06: strace log parser and system-call policy automaton.

The log comes from `strace -f -y -o LOG -e trace=%file,%network,%process,%desc,...`.
Lines: `PID name(args) = ret ...`, `PID name(args <unfinished ...>`, `PID <... name resumed>rest`,
`PID --- SIG... ---`, `PID +++ exited with N +++` / `+++ killed by SIG +++`."""
import os
import re

OPEN = {"open", "openat", "openat2", "creat", "open_by_handle_at"}
MUTATE = {
    "rename", "renameat", "renameat2", "link", "linkat", "symlink", "symlinkat", "unlink", "unlinkat",
    "mkdir", "mkdirat", "rmdir", "chmod", "fchmod", "fchmodat", "fchmodat2", "chown", "fchown", "lchown",
    "fchownat", "truncate", "ftruncate", "utime", "utimes", "utimensat", "futimesat", "mknod", "mknodat",
    "setxattr", "lsetxattr", "fsetxattr", "removexattr", "lremovexattr", "fremovexattr", "fallocate",
    "mount", "umount", "umount2", "pivot_root", "chroot", "swapon", "swapoff", "acct", "mount_setattr",
    "move_mount", "fsopen", "fsmount", "fsconfig", "open_tree", "quotactl",
}
NETWORK = {
    "socket", "socketpair", "bind", "connect", "listen", "accept", "accept4", "getsockname", "getpeername",
    "sendto", "recvfrom", "sendmsg", "recvmsg", "sendmmsg", "recvmmsg", "shutdown", "setsockopt",
    "getsockopt", "socketcall",
}
PROC_CREATE = {"execve", "execveat", "fork", "vfork", "clone", "clone3"}
WRITE_FD = {"write", "pwrite64", "writev", "pwritev", "pwritev2", "sendfile", "sendfile64",
            "copy_file_range", "splice", "tee", "vmsplice"}
READ_FD = {"read", "pread64", "readv", "preadv", "preadv2", "getdents", "getdents64", "readahead"}
IOURING = {"io_uring_setup", "io_uring_enter", "io_uring_register"}
STATLIKE = {"stat", "lstat", "fstat", "newfstatat", "statx", "access", "faccessat", "faccessat2", "readlink",
            "readlinkat", "getcwd", "statfs", "fstatfs", "getxattr", "lgetxattr", "fgetxattr", "listxattr",
            "llistxattr", "flistxattr", "chdir", "fchdir", "inotify_add_watch"}
WRITE_FLAGS = ("O_WRONLY", "O_RDWR", "O_CREAT", "O_TRUNC", "O_APPEND", "O_TMPFILE")

ZONE_DIRS = ("/usr/share/zoneinfo", "/usr/lib/zoneinfo", "/usr/share/lib/zoneinfo", "/etc/zoneinfo")
ZONE_FILES = ("/etc/localtime", "/etc/timezone")
ZONE_FILTERS = re.compile(r"(?<![A-Za-z0-9_])(localtime|strflocaltime|strptime)(?![A-Za-z0-9_])")
RUNTIME_PREFIXES = ("/proc/", "/sys/", "/dev/")

_LINE = re.compile(r"^(\d+)\s+(.*)$")
_ESC = {"n": 10, "t": 9, "r": 13, "v": 11, "f": 12, "a": 7, "b": 8, "e": 27, "\\": 92, '"': 34, "'": 39}


class Ev:
    __slots__ = ("pid", "name", "args", "ret", "raw", "lineno")

    def __init__(self, pid, name, args, ret, raw, lineno):
        self.pid, self.name, self.args, self.ret, self.raw, self.lineno = pid, name, args, ret, raw, lineno


def unquote(tok):
    """C-escaped strace string token ("..."[...]) -> str; None if not a string token"""
    tok = tok.strip()
    if not tok.startswith('"'):
        return None
    out = bytearray()
    i = 1
    n = len(tok)
    while i < n:
        c = tok[i]
        if c == '"':
            break
        if c == "\\" and i + 1 < n:
            d = tok[i + 1]
            if d in "01234567":
                j = i + 1
                while j < n and j < i + 4 and tok[j] in "01234567":
                    j += 1
                out.append(int(tok[i + 1:j], 8) & 0xFF)
                i = j
                continue
            if d == "x":
                j = i + 2
                while j < n and j < i + 4 and tok[j] in "0123456789abcdefABCDEF":
                    j += 1
                out.append(int(tok[i + 2:j] or "0", 16))
                i = j
                continue
            out.append(_ESC.get(d, ord(d) & 0xFF))
            i += 2
            continue
        out += c.encode("utf-8", "surrogateescape")
        i += 1
    return out.decode("utf-8", "surrogateescape")


def split_args(s):
    """split a strace argument list on top-level commas"""
    args = []
    cur = []
    depth = 0
    i = 0
    n = len(s)
    while i < n:
        c = s[i]
        if c == '"':
            j = i + 1
            while j < n:
                if s[j] == "\\":
                    j += 2
                    continue
                if s[j] == '"':
                    break
                j += 1
            cur.append(s[i:j + 1])
            i = j + 1
            continue
        if c == "<" and re.fullmatch(r"\s*(-?\d+|AT_FDCWD)", "".join(cur)):
            # fd annotation of -y: up to a '>' that is followed by , ) or the end
            j = i + 1
            while j < n:
                if s[j] == ">" and (j + 1 == n or s[j + 1] in ",)} "):
                    break
                j += 1
            cur.append(s[i:j + 1])
            i = j + 1
            continue
        if c in "([{":
            depth += 1
        elif c in ")]}":
            depth -= 1
        elif c == "," and depth == 0:
            args.append("".join(cur).strip())
            cur = []
            i += 1
            continue
        cur.append(c)
        i += 1
    tail = "".join(cur).strip()
    if tail or args:
        args.append(tail)
    return args


def fd_parts(tok):
    """'3</a/b>' -> (3, '/a/b'); 'AT_FDCWD</cwd>' -> ('AT_FDCWD', '/cwd'); '3' -> (3, None)"""
    tok = tok.strip()
    m = re.match(r"^(-?\d+|AT_FDCWD)(?:<(.*)>)?$", tok, re.S)
    if not m:
        return None, None
    fd = m.group(1)
    return (fd if fd == "AT_FDCWD" else int(fd)), m.group(2)


def parse_call(pid, text, lineno):
    p = text.find("(")
    if p <= 0:
        return None
    name = text[:p]
    if not re.fullmatch(r"[A-Za-z0-9_]+", name):
        return None
    q = text.rfind(") = ")
    if q < 0:
        # e.g. killed mid-call
        return Ev(pid, name, split_args(text[p + 1:]), None, text, lineno)
    return Ev(pid, name, split_args(text[p + 1:q]), text[q + 4:].strip(), text, lineno)


def iter_events(path):
    """yield Ev for calls; name '+++' / '---' for exit and signal lines; ('?', raw) is never yielded:
    unparsable lines are counted in iter_events.unparsed"""
    pending = {}
    unparsed = 0
    with open(path, "r", encoding="utf-8", errors="surrogateescape") as f:
        for lineno, line in enumerate(f, 1):
            m = _LINE.match(line.rstrip("\n"))
            if not m:
                unparsed += 1
                continue
            pid = int(m.group(1))
            rest = m.group(2)
            if rest.startswith("<... "):
                i = rest.find(" resumed>")
                if i < 0:
                    unparsed += 1
                    continue
                head = pending.pop(pid, None)
                text = (head if head is not None else rest[5:i] + "(") + rest[i + 9:]
            elif rest.endswith("<unfinished ...>"):
                pending[pid] = rest[:-len("<unfinished ...>")].rstrip()
                continue
            elif rest.startswith("+++") or rest.startswith("---"):
                yield Ev(pid, rest[:3], [], None, rest, lineno)
                continue
            else:
                text = rest
            ev = parse_call(pid, text, lineno)
            if ev is None:
                unparsed += 1
                continue
            yield ev
    for pid, head in pending.items():
        ev = parse_call(pid, head + ")", -1)
        if ev is not None:
            yield ev
    iter_events.unparsed = unparsed


iter_events.unparsed = 0


def norm(path, base=None):
    if path is None:
        return None
    if not path.startswith("/"):
        path = os.path.join(base or "/", path)
    return os.path.normpath(path)


def ev_paths(ev):
    """(list of normalised absolute paths named by the call, open-flags string or None)"""
    a = ev.args
    nm = ev.name
    try:
        if nm in ("open", "creat", "stat", "lstat", "access", "readlink", "truncate", "chmod", "chown", "lchown",
                  "unlink", "mkdir", "rmdir", "mknod", "utime", "utimes", "chdir", "chroot", "statfs", "execve",
                  "setxattr", "lsetxattr", "removexattr", "lremovexattr", "getxattr", "lgetxattr", "swapon", "acct"):
            p = unquote(a[0])
            flags = a[1] if nm == "open" and len(a) > 1 else ("O_WRONLY|O_CREAT|O_TRUNC" if nm == "creat" else None)
            return [norm(p)], flags
        if nm in ("openat", "openat2", "newfstatat", "statx", "faccessat", "faccessat2", "readlinkat", "unlinkat",
                  "mkdirat", "mknodat", "fchmodat", "fchmodat2", "fchownat", "utimensat", "futimesat", "execveat",
                  "name_to_handle_at", "open_tree"):
            _fd, base = fd_parts(a[0])
            p = unquote(a[1])
            flags = None
            if nm == "openat" and len(a) > 2:
                flags = a[2]
            elif nm == "openat2" and len(a) > 2:
                m = re.search(r"flags=([A-Z_0-9|x]+)", a[2])
                flags = m.group(1) if m else a[2]
            if p is None:
                return [base], flags
            if p == "" and base:
                return [base], flags
            return [norm(p, base)], flags
        if nm in ("rename", "link", "symlink"):
            return [norm(unquote(a[0])) if nm != "symlink" else unquote(a[0]), norm(unquote(a[1]))], None
        if nm in ("renameat", "renameat2", "linkat"):
            _f1, b1 = fd_parts(a[0])
            _f2, b2 = fd_parts(a[2])
            return [norm(unquote(a[1]), b1), norm(unquote(a[3]), b2)], None
        if nm == "symlinkat":
            _f, b = fd_parts(a[1])
            return [unquote(a[0]), norm(unquote(a[2]), b)], None
        if nm in ("mount", "move_mount", "pivot_root"):
            return [norm(unquote(x)) for x in a[:2] if unquote(x) is not None], None
    except (IndexError, TypeError):
        pass
    return [], None


def fd_of(ev):
    """(fd, path) of the first argument when it is a descriptor"""
    if not ev.args:
        return None, None
    return fd_parts(ev.args[0])


def is_marker(ev):
    if ev.name not in ("statx", "newfstatat", "stat", "access", "faccessat", "faccessat2", "lstat"):
        return None
    for tok in ev.args[:2]:
        s = unquote(tok)
        if s is not None and s.startswith("/VERIF/"):
            return s
    return None


def zone_path_ok(p, tz_files=()):
    if p is None:
        return False
    if p in ZONE_FILES or p in ZONE_DIRS:
        return True
    if any(p.startswith(d + "/") for d in ZONE_DIRS):
        return True
    return p in tz_files


def runtime_path(p):
    return p is not None and (p.startswith(RUNTIME_PREFIXES) or p.startswith("/etc/ld.so")
                              or re.search(r"\.so(\.[0-9.]+)?$", p) is not None)


class Policy:
    """Judges one event of an execution phase (or of a whole CLI run).

    zone_ok     the program contains a local-time / zone-name filter
    tz_file     set of absolute paths the TZ variable may name (jiff falls back to reading TZ as a file)
    read_ok     set of absolute paths that may be opened read-only (learned noise + named files)
    write_ok    predicate(path) for the --in-place temp file / target (None = nothing)
    Returns None (allowed / irrelevant) or (class, detail)."""

    def __init__(self, zone_ok=False, tz_file=None, read_ok=(), write_ok=None, std_fds=(0, 1, 2)):
        self.zone_ok = zone_ok
        self.tz_files = set(tz_file or ())
        self.read_ok = set(read_ok)
        self.write_ok = write_ok
        self.std_fds = set(std_fds)
        self.seen_open = set()      # resolved paths of opens already judged (their reads are not judged again)

    def read_allowed(self, p, resolved=None):
        if p in self.read_ok or (resolved is not None and resolved in self.read_ok):
            return True
        if self.zone_ok and zone_path_ok(p, self.tz_files):
            return True
        return False

    def judge(self, ev):
        nm = ev.name
        if nm in OPEN:
            paths, flags = ev_paths(ev)
            p = paths[0] if paths else None
            flags = flags or ""
            if nm == "open_by_handle_at":
                return ("open-read", {"path": None, "syscall": nm})
            if any(f in flags for f in WRITE_FLAGS):
                if self.write_ok is not None and p is not None and self.write_ok(p, "open"):
                    return None
                return ("open-write", {"path": p, "flags": flags, "syscall": nm})
            resolved = None
            if ev.ret:
                _fd, resolved = fd_parts(ev.ret.split(" ")[0])
            if resolved:
                self.seen_open.add(resolved)
            if self.read_allowed(p, resolved):
                return None
            return ("open-read", {"path": p, "flags": flags, "syscall": nm, "result": (ev.ret or "")[:80]})
        if nm in MUTATE:
            paths, _ = ev_paths(ev)
            if not paths:
                _fd, fp = fd_of(ev)
                paths = [fp]
            if self.write_ok is not None and paths and all(p is not None and self.write_ok(p, nm) for p in paths):
                return None
            return ("fs-mutation", {"syscall": nm, "paths": paths})
        if nm in NETWORK:
            return ("network", {"syscall": nm, "args": ", ".join(ev.args)[:200]})
        if nm in PROC_CREATE:
            if nm in ("clone", "clone3") and "CLONE_THREAD" in ev.raw:
                return None
            paths, _ = ev_paths(ev)
            return ("process", {"syscall": nm, "path": paths[0] if paths else None, "args": ", ".join(ev.args)[:200]})
        if nm in IOURING:
            return ("io_uring", {"syscall": nm})
        if nm in WRITE_FD:
            fd, fp = fd_of(ev)
            if nm in ("sendfile", "sendfile64", "splice", "tee", "copy_file_range"):
                # (out_fd, in_fd, ...) resp. (fd_in, off, fd_out, ...): judge every descriptor argument
                fds = [fd_parts(t) for t in ev.args if re.match(r"^\s*\d+(<|$)", t)]
                bad = [(f, q) for f, q in fds if f not in self.std_fds
                       and not (self.write_ok is not None and q and self.write_ok(q, "write"))]
                return ("write-fd", {"syscall": nm, "fds": bad}) if bad else None
            if fd in (1, 2) and fd in self.std_fds:
                return None
            if self.write_ok is not None and fp and self.write_ok(fp, "write"):
                return None
            return ("write-fd", {"syscall": nm, "fd": fd, "path": fp})
        if nm in READ_FD:
            fd, fp = fd_of(ev)
            if fd == 0 and 0 in self.std_fds:
                return None
            if fp is None or fp in self.seen_open:
                return None
            q = fp
            if q.startswith("/proc/") and re.match(r"^/proc/\d+/", q):
                q2 = re.sub(r"^/proc/\d+/", "/proc/self/", q)
                if q2 in self.read_ok:
                    return None
            if self.read_allowed(q, q):
                return None
            if self.write_ok is not None and self.write_ok(q, "read"):
                return None
            return ("read-fd", {"syscall": nm, "fd": fd, "path": fp})
        return None
