"""The manual's value model made executable: ordering, equality, arithmetic, positions.

Written from docs/corelang.dj and docs/advanced.dj only (never from the Rust sources).
Errors the manual prescribes are raised as JqError; corners the manual leaves open raise
Unspecified, which makes the *case* trivial (skipped), never a verdict."""
import math

from .codec import Big, Dec, Obj, Str


class JqError(Exception):
    """An error the semantics prescribes. `payload` is a model value for user-thrown errors
    (error(v)) or BUILTIN for errors whose text the manual does not define."""

    def __init__(self, payload=None, builtin=True):
        super().__init__("jq error")
        self.payload = payload
        self.builtin = builtin


class Unspecified(Exception):
    """The manual does not say what happens here."""


BIG53 = 2 ** 53


def norm(v):
    """injection-only wrappers -> plain model values"""
    if isinstance(v, Big):
        return v.n
    if isinstance(v, list):
        return [norm(x) for x in v]
    if isinstance(v, Obj):
        return Obj([(norm(k), norm(x)) for k, x in v.items])
    return v


def kind(v):
    if v is None:
        return "null"
    if v is True or v is False:
        return "boolean"
    if isinstance(v, (int, float, Dec, Big)):
        return "number"
    if isinstance(v, Str):
        return "string"
    if isinstance(v, list):
        return "array"
    if isinstance(v, Obj):
        return "object"
    raise TypeError(repr(v))


KIND_RANK = {"null": 0, "boolean": 1, "number": 2, "string": 3, "array": 4, "object": 5}


def is_int(v):
    return (isinstance(v, int) and not isinstance(v, bool)) or isinstance(v, Big)


def ival(v):
    return v.n if isinstance(v, Big) else v


def is_num(v):
    return kind(v) == "number"


def int_to_float(i):
    try:
        return float(i)
    except OverflowError:
        return math.inf if i > 0 else -math.inf


def dec_to_float(text):
    try:
        return float(text)
    except ValueError:
        return math.nan


def to_float(v):
    if isinstance(v, float):
        return v
    if isinstance(v, Dec):
        return dec_to_float(v.text)
    return int_to_float(ival(v))


def truthy(v):
    return not (v is None or v is False)


# ---------------------------------------------------------------------------------------
# ordering (corelang §Ordering, §Equality)

def _num_cmp(a, b):
    """NaN is smaller than any number including itself; ints compare exactly among
    themselves; int vs float compares the int converted to a float (manual: "i converted to
    a float is equal to f")."""
    ai, bi = is_int(a), is_int(b)
    if ai and bi:
        a, b = ival(a), ival(b)
        return (a > b) - (a < b)
    fa, fb = to_float(a), to_float(b)
    if math.isnan(fa):
        return -1
    if math.isnan(fb):
        return 1
    # an integer is finite however large it is (manual §Ordering: -Infinity < finite < Infinity;
    # §Equality: an integer equals a float only if the float is finite)
    if ai and math.isinf(fb):
        return -1 if fb > 0 else 1
    if bi and math.isinf(fa):
        return 1 if fa > 0 else -1
    return (fa > fb) - (fa < fb)


def cmp(a, b):
    ka, kb = kind(a), kind(b)
    if ka != kb:
        return (KIND_RANK[ka] > KIND_RANK[kb]) - (KIND_RANK[ka] < KIND_RANK[kb])
    if ka == "null":
        return 0
    if ka == "boolean":
        return (a > b) - (a < b)
    if ka == "number":
        return _num_cmp(a, b)
    if ka == "string":
        return (a.b > b.b) - (a.b < b.b)
    if ka == "array":
        for x, y in zip(a, b):
            c = cmp(x, y)
            if c:
                return c
        return (len(a) > len(b)) - (len(a) < len(b))
    # objects: to_entries | sort_by(.key); keys first, then values
    ea = sorted_entries(a)
    eb = sorted_entries(b)
    c = cmp([k for k, _ in ea], [k for k, _ in eb])
    if c:
        return c
    return cmp([v for _, v in ea], [v for _, v in eb])


class _Key:
    __slots__ = ("v",)

    def __init__(self, v):
        self.v = v

    def __lt__(self, o):
        return cmp(self.v, o.v) < 0


def sorted_entries(o):
    return sorted(o.items, key=lambda kv: _Key(kv[0]))


def sort_values(xs):
    """stable sort by the model order"""
    return sorted(xs, key=_Key)


def eq(a, b):
    ka, kb = kind(a), kind(b)
    if ka != kb:
        return False
    if ka == "number":
        if not (is_int(a) and is_int(b)):
            if math.isnan(to_float(a)) or math.isnan(to_float(b)):
                return False
        return _num_cmp(a, b) == 0
    if ka == "array":
        return len(a) == len(b) and all(eq(x, y) for x, y in zip(a, b))
    if ka == "object":
        if len(a.items) != len(b.items):
            return False
        for k, v in a.items:
            f = obj_get(b, k)
            if f is MISSING or not eq(v, f):
                return False
        return True
    return cmp(a, b) == 0


def has_nan(v):
    if isinstance(v, float):
        return math.isnan(v)
    if isinstance(v, Dec):
        return math.isnan(dec_to_float(v.text))
    if isinstance(v, list):
        return any(has_nan(x) for x in v)
    if isinstance(v, Obj):
        return any(has_nan(k) or has_nan(x) for k, x in v.items)
    return False


def numbers_in(v, out):
    if is_num(v):
        out.append(v)
    elif isinstance(v, list):
        for x in v:
            numbers_in(x, out)
    elif isinstance(v, Obj):
        for k, x in v.items:
            numbers_in(k, out)
            numbers_in(x, out)
    return out


def cmp_in_domain(a, b):
    """C08's domain: no NaN; integers beyond 2^53 only against integers or infinities."""
    if has_nan(a) or has_nan(b):
        return False
    na, nb = numbers_in(a, []), numbers_in(b, [])
    bigs = [x for x in na + nb if is_int(x) and abs(ival(x)) > BIG53]
    if bigs:
        for x in na + nb:
            if not is_int(x) and not math.isinf(to_float(x)):
                return False
    # floats beyond 2^53 in magnitude against integers beyond 2^53 are excluded above;
    # a float beyond 2^53 against a small integer is fine
    return True


MISSING = object()


def obj_get(o, k):
    for kk, v in o.items:
        if eq(kk, k):
            return v
    return MISSING


def obj_set(o, k, v):
    """insert or overwrite keeping position; returns a new Obj"""
    items = list(o.items)
    for i, (kk, _) in enumerate(items):
        if eq(kk, k):
            items[i] = (kk, v)
            return Obj(items)
    items.append((k, v))
    return Obj(items)


# ---------------------------------------------------------------------------------------
# arithmetic (corelang §Binary simple, §Numbers)

def _num_result(a, b, fi, ff):
    if is_int(a) and is_int(b):
        return fi(ival(a), ival(b))
    return ff(to_float(a), to_float(b))


def _fdiv(x, y):
    try:
        return x / y
    except ZeroDivisionError:
        if x == 0 or math.isnan(x):
            return math.nan
        neg = (math.copysign(1, x) < 0) != (math.copysign(1, y) < 0)
        return -math.inf if neg else math.inf


def _frem(x, y):
    if math.isnan(x) or math.isnan(y) or math.isinf(x) or y == 0:
        return math.nan
    if math.isinf(y):
        return x
    return math.fmod(x, y)


def _irem(x, y):
    r = abs(x) % abs(y)
    return -r if x < 0 else r


def add(a, b):
    if a is None:
        return b
    if b is None:
        return a
    ka, kb = kind(a), kind(b)
    if ka == kb == "number":
        return _num_result(a, b, lambda x, y: x + y, lambda x, y: x + y)
    if ka == kb == "string":
        if a.text != b.text:
            raise Unspecified("text + byte string")
        return Str(a.b + b.b, a.text)
    if ka == kb == "array":
        return list(a) + list(b)
    if ka == kb == "object":
        r = a
        for k, v in b.items:
            r = obj_set(r, k, v)
        return r
    raise JqError()


def sub(a, b):
    ka, kb = kind(a), kind(b)
    if ka == kb == "number":
        return _num_result(a, b, lambda x, y: x - y, lambda x, y: x - y)
    if ka == kb == "array":
        return [x for x in a if not any(eq(x, y) for y in b)]
    raise JqError()


def mul(a, b):
    ka, kb = kind(a), kind(b)
    if ka == kb == "number":
        return _num_result(a, b, lambda x, y: x * y, lambda x, y: x * y)
    if ka == "string" and kb == "number" or ka == "number" and kb == "string":
        s, n = (a, b) if ka == "string" else (b, a)
        if not is_int(n):
            raise JqError()
        n = ival(n)
        if n <= 0:
            return None
        if n * len(s.b) > (1 << 26):
            raise Unspecified("huge repetition")
        return Str(s.b * n, s.text)
    if ka == kb == "object":
        r = a
        for k, v in b.items:
            cur = obj_get(r, k)
            if cur is not MISSING and isinstance(cur, Obj) and isinstance(v, Obj):
                r = obj_set(r, k, mul(cur, v))
            else:
                r = obj_set(r, k, v)
        return r
    raise JqError()


def split_str(s, sep):
    if s.text != sep.text:
        raise Unspecified("text / byte string")
    if len(s.b) == 0:
        return []
    if len(sep.b) == 0:
        if not s.text:
            return [Str(bytes([c]), False) for c in s.b]
        return [Str(c, True) for c in utf8_chunks(s.b)]
    return [Str(p, s.text) for p in s.b.split(sep.b)]


def div(a, b):
    ka, kb = kind(a), kind(b)
    if ka == kb == "number":
        return _fdiv(to_float(a), to_float(b))
    if ka == kb == "string":
        return split_str(a, b)
    raise JqError()


def rem(a, b):
    ka, kb = kind(a), kind(b)
    if ka == kb == "number":
        if is_int(a) and is_int(b):
            if ival(b) == 0:
                raise JqError()
            return _irem(ival(a), ival(b))
        return _frem(to_float(a), to_float(b))
    raise JqError()


def neg(a):
    if not is_num(a):
        raise JqError()
    if is_int(a):
        return -ival(a)
    if isinstance(a, Dec):
        # a literal that is not calculated with keeps its spelling; negation flips the sign
        return Dec(a.text[1:]) if a.text.startswith("-") else Dec("-" + a.text)
    return -a


MATH = {"+": add, "-": sub, "*": mul, "/": div, "%": rem}


# ---------------------------------------------------------------------------------------
# positions (corelang §Path operators)

def utf8_chunks(b):
    """Split bytes into 'characters' the way a lossy UTF-8 decoder walks them: maximal valid
    sequences are one character each, every invalid byte (or truncated prefix) is one unit.
    Used only for *valid* text in verdicts; invalid text is compared more loosely."""
    out = []
    i = 0
    n = len(b)
    while i < n:
        c = b[i]
        if c < 0x80:
            ln = 1
        elif 0xC2 <= c <= 0xDF:
            ln = 2
        elif 0xE0 <= c <= 0xEF:
            ln = 3
        elif 0xF0 <= c <= 0xF4:
            ln = 4
        else:
            ln = 1
        chunk = b[i:i + ln]
        try:
            chunk.decode("utf-8")
        except UnicodeDecodeError:
            # invalid: take the maximal prefix the standard "substitution of maximal
            # subparts" practice would replace by one U+FFFD
            ln = _invalid_len(b, i)
            chunk = b[i:i + ln]
        out.append(chunk)
        i += len(chunk)
    return out


def _invalid_len(b, i):
    c = b[i]
    n = len(b)

    def cont(j, lo=0x80, hi=0xBF):
        return j < n and lo <= b[j] <= hi
    if 0xC2 <= c <= 0xDF:
        return 1
    if c == 0xE0:
        return 2 if cont(i + 1, 0xA0, 0xBF) else 1
    if 0xE1 <= c <= 0xEC or 0xEE <= c <= 0xEF:
        return 2 if cont(i + 1) else 1
    if c == 0xED:
        return 2 if cont(i + 1, 0x80, 0x9F) else 1
    if c == 0xF0:
        if cont(i + 1, 0x90, 0xBF):
            return 3 if cont(i + 2) else 2
        return 1
    if 0xF1 <= c <= 0xF3:
        if cont(i + 1):
            return 3 if cont(i + 2) else 2
        return 1
    if c == 0xF4:
        if cont(i + 1, 0x80, 0x8F):
            return 3 if cont(i + 2) else 2
        return 1
    return 1


def is_valid_utf8(b):
    try:
        b.decode("utf-8")
        return True
    except UnicodeDecodeError:
        return False


def seq_of(v):
    """positions of a rangeable value as a list of units"""
    if isinstance(v, list):
        return list(v)
    if isinstance(v, Str):
        if v.text:
            return utf8_chunks(v.b)
        return list(v.b)
    raise JqError()


def seq_back(v, units):
    if isinstance(v, list):
        return list(units)
    if v.text:
        return Str(b"".join(units), True)
    return Str(bytes(units), False)


def length(v):
    k = kind(v)
    if k == "null":
        return 0
    if k == "boolean":
        raise JqError()
    if k == "number":
        if is_int(v):
            return abs(ival(v))
        return abs(to_float(v))
    if k == "string":
        return len(seq_of(v))
    if k == "array":
        return len(v)
    return len(v.items)


def _as_index(i):
    if not is_int(i):
        raise JqError()
    return ival(i)


def clip_bound(i, n, default):
    """slice bound: null = open, negative counts from the end, clipped into [0, n]"""
    if i is None:
        return default
    i = _as_index(i)
    if i < 0:
        i += n
    return min(max(i, 0), n)


def slice_(v, a, b):
    if not isinstance(v, (list, Str)):
        raise JqError()
    units = seq_of(v)
    n = len(units)
    lo = clip_bound(a, n, 0)
    hi = clip_bound(b, n, n)
    return seq_back(v, units[lo:hi] if hi > lo else [])


def index(v, i):
    """.[i] (corelang §Indexing): value or JqError"""
    if v is None:
        return None
    if isinstance(v, Obj):
        r = obj_get(v, i)
        return None if r is MISSING else r
    if isinstance(v, (list, Str)) and isinstance(i, Obj):
        start = obj_get(i, Str(b"start"))
        end = obj_get(i, Str(b"end"))
        return slice_(v, None if start is MISSING else start, None if end is MISSING else end)
    if isinstance(v, list) and isinstance(i, list):
        return indices_arr(v, i)
    if isinstance(v, list) or (isinstance(v, Str) and not v.text):
        if not is_int(i):
            raise JqError()
        units = seq_of(v)
        j = ival(i)
        if j < 0:
            j += len(units)
        if 0 <= j < len(units):
            return units[j]
        return None
    raise JqError()


def indices_arr(v, x):
    if len(x) == 0:
        raise Unspecified("indices of empty needle")
    m = len(x)
    return [i for i in range(len(v) - m + 1) if all(eq(v[i + j], x[j]) for j in range(m))]


def iterate(v):
    if isinstance(v, list):
        return list(v)
    if isinstance(v, Obj):
        return [x for _, x in v.items]
    raise JqError()


def key_values(v):
    if isinstance(v, list):
        return list(enumerate(v))
    if isinstance(v, Obj):
        return list(v.items)
    raise JqError()


def has(v, k):
    """has($k) is true exactly when .[$k] points into the value (stdlib §has)"""
    if v is None:
        return False
    if isinstance(v, Obj):
        return obj_get(v, k) is not MISSING
    if isinstance(v, (list, Str)) and isinstance(k, Obj):
        # slices always point into the value
        slice_(v, *_start_end(k))
        return True
    if isinstance(v, list) or (isinstance(v, Str) and not v.text):
        if isinstance(v, list) and isinstance(k, list):
            raise Unspecified("has with array key")
        if not is_int(k):
            raise JqError()
        n = len(seq_of(v))
        return -n <= ival(k) < n
    raise JqError()


def _start_end(i):
    start = obj_get(i, Str(b"start"))
    end = obj_get(i, Str(b"end"))
    return (None if start is MISSING else start, None if end is MISSING else end)
