"""Sanitizer builds of the helper for C19 (ThreadSanitizer binary, Miri runs).

Same discipline as vlib/build.py: built from /repo's *current working tree*, dependency
versions pinned by /repo/Cargo.lock, the build lock is held, output under /verif/.target
(own sub-directories, so that the ordinary builds stay incremental). A failing sanitizer
build is *returned* (not raised): the check reports that detector as not run."""
import os
import subprocess

from . import build

NIGHTLY = os.environ.get("VERIF_NIGHTLY", "+nightly")
TRIPLE = "x86_64-unknown-linux-gnu"
TSAN_DIR = os.path.join(build.TARGET, "tsan")
MIRI_DIR = os.path.join(build.TARGET, "miri")
FEATURES = ("sync",)


def _base_env():
    env = build._env()
    env.pop("RUSTUP_TOOLCHAIN", None)
    return env


def tsan_cmd():
    return ["cargo", NIGHTLY, "build", "--offline", "-q", "-Zbuild-std", "--target", TRIPLE,
            "--profile", "release", "--features", ",".join(FEATURES)]


def tsan_env():
    env = _base_env()
    env["CARGO_TARGET_DIR"] = TSAN_DIR
    env["RUSTFLAGS"] = f"--cfg {build.GUARD} -Zsanitizer=thread"
    return env


def jaqmon_tsan(timeout=1500):
    """-> (path | None, log tail). Helper + jaq + dependencies + std instrumented by
    ThreadSanitizer (feature `sync`: Arc-backed values, so that values can be shared)."""
    lock = build._lock()
    try:
        build._sync_lockfile()
        try:
            p = subprocess.run(tsan_cmd(), env=tsan_env(), cwd=build.HARNESS, stdout=subprocess.PIPE,
                               stderr=subprocess.STDOUT, text=True, timeout=timeout)
        except subprocess.TimeoutExpired:
            return None, "build timed out"
        if p.returncode != 0:
            return None, p.stdout[-3000:]
        return os.path.join(TSAN_DIR, TRIPLE, "release", "jaqmon"), p.stdout[-500:]
    finally:
        lock.close()


def miri_env(flags):
    env = _base_env()
    env["CARGO_TARGET_DIR"] = MIRI_DIR
    env["RUSTFLAGS"] = f"--cfg {build.GUARD}"
    env["MIRIFLAGS"] = flags
    return env


def miri_cmd(args):
    return ["cargo", NIGHTLY, "miri", "run", "--offline", "-q", "--features", ",".join(FEATURES), "--"] + list(args)


def miri_prepare(timeout=1500):
    """Build the Miri sysroot and the helper's dependencies for Miri (no execution of the
    workload): `cargo miri run -- threads --noop`. -> (ok, log tail)"""
    lock = build._lock()
    try:
        build._sync_lockfile()
        try:
            p = subprocess.run(miri_cmd(["threads", "--noop"]), env=miri_env("-Zmiri-disable-isolation"), cwd=build.HARNESS,
                               stdout=subprocess.PIPE, stderr=subprocess.STDOUT, text=True, timeout=timeout)
        except subprocess.TimeoutExpired:
            return False, "miri build timed out"
        return p.returncode == 0, p.stdout[-3000:]
    finally:
        lock.close()


if __name__ == "__main__":
    import sys
    what = sys.argv[1:] or ["tsan", "miri"]
    if "tsan" in what:
        print(jaqmon_tsan())
    if "miri" in what:
        print(miri_prepare())
