"""C05 workload 1: filter texts. Seeds are the manual's examples and the prelude definitions of the
current tree; mutations are grammar-aware (on a token list) and character-level."""
import glob
import os
import re

TOKEN_RE = re.compile(r'''
    (?P<ws>\s+) | (?P<comment>\#[^\n]*) |
    (?P<str>(?:@[A-Za-z_][A-Za-z0-9_]*\s*)?"(?:\\.|[^"\\])*"?) |
    (?P<num>[0-9]+(?:\.[0-9]+)?(?:[eE][+-]?[0-9]+)?) |
    (?P<var>\$[A-Za-z_][A-Za-z0-9_:]*|\$) | (?P<fmt>@[A-Za-z_][A-Za-z0-9_]*|@) |
    (?P<field>\.[A-Za-z_][A-Za-z0-9_]*) |
    (?P<word>[A-Za-z_][A-Za-z0-9_]*(?:::[A-Za-z_][A-Za-z0-9_]*)*) |
    (?P<op>\?//|\|=|\+=|-=|\*=|/=|%=|//=|==|!=|<=|>=|//|\.\.|and|or|[|,.;:?()\[\]{}<>=+\-*/%]) |
    (?P<other>.)
''', re.X | re.S)


def lex(code):
    toks = []
    for m in TOKEN_RE.finditer(code):
        k = m.lastgroup
        if k == "ws":
            continue
        toks.append(m.group(0))
    return toks


def doc_seeds(repo):
    """`code --> out` examples of the manual (inline spans and fenced blocks), jq code blocks,
    the prelude definitions, the example programs."""
    seeds = []
    for f in sorted(glob.glob(os.path.join(repo, "docs", "*.dj"))):
        s = open(f, encoding="utf-8").read()
        for m in re.finditer(r"`([^`]*?)\s*-->\s*([^`]*)`", s):
            seeds.append(m.group(1).strip())
        for m in re.finditer(r"```+ *(\w*)\n(.*?)```", s, re.S):
            lang, body = m.group(1), m.group(2)
            if "-->" in body:
                seeds.append(body.split("-->")[0].strip())
            elif lang == "jq":
                seeds.append(body.strip())
    for f in sorted(glob.glob(os.path.join(repo, "*", "src", "defs.jq"))):
        s = open(f, encoding="utf-8").read()
        seeds.append(s + "\n.")
        # individual top-level definitions (a def ends at a ';' at column-0 nesting; approximate by blank-line/def boundaries)
        for m in re.finditer(r"^def .*?;[ \t]*(?=\n(?:def |\n|#|$))", s, re.S | re.M):
            d = m.group(0)
            if len(d) < 1500:
                seeds.append(d + " .")
    for f in sorted(glob.glob(os.path.join(repo, "examples", "*.jq"))) + sorted(glob.glob(os.path.join(repo, "docs", "*.jq"))):
        try:
            s = open(f, encoding="utf-8").read()
        except Exception:
            continue
        if len(s) < 6000:
            seeds.append(s)
    seeds += HAND_SEEDS
    out = []
    seen = set()
    for s in seeds:
        if s and s not in seen:
            seen.add(s)
            out.append(s)
    return out


HAND_SEEDS = [
    '. as [$a, {b: $c, $d, "e": $f, (1): $g}] ?// $h | [$a, $c, $d, $f, $g, $h]',
    'def f(g; $x; h): g + $x | h; f(1; 2; .)', 'def f: def g: f; g; 1', 'def f($a; $a): $a; f(1; 2)',
    'reduce .[] as [$x, $y] (0; . + $x)', 'foreach (1, 2) as $x (0; . + $x; [., $x])', 'foreach .[] as {a: $x} (0; 1)',
    'label $out | 1, break $out, 2', 'try error("x") catch .', 'try (1, error) catch (., .)', '.a?.b?[0]?."c"?', '.. |= (numbers |= . + 1)',
    'if . then 1 elif . == null then 2 else 3 end', 'if . then 1 end', '[.[] | select(. > 1)] | @json "v=\\(.) \\(1 + 2)"',
    '@base64 "a\\(1)b\\("x\\(2)y")c"', '"\\u00e9\\ud83d\\udca3\\n\\t\\"\\\\\\/"', '$__loc__', '$ENV.PATH', 'env | type', 'input', '[inputs]',
    '{a: 1, "b": 2, (1 + 2 | tostring): 3, $__loc__, @base64 "x": 4, "\\(1)": 5}', '{$x, y: 1} as {$x} | $x', '. as $x | [$x, $x::y]',
    'import "a" as b; b::f', 'include "a"; .', 'import "a" as $b; $b', 'import "a" as $b::c; .', 'import "a" as b {search: "x"}; .',
    'module {name: "m"}; .', 'module {}; import "a" as $a {"x": 1}; def f: 1; f', 'a::b', 'a::b(1; 2)', '$a::b', '@a::b',
    '.[1:2] = [3]', '.[:-1] |= map(. + 1)', '.a += 1 | .b -= 1 | .c *= 2 | .d /= 2 | .e %= 2 | .f //= 3', 'limit(3; repeat(1))',
    'first(range(10; 0; -3))', '[range(0; 1; 0.3)]', 'getpath(["a", 0]) = 1', 'path(..)', 'paths(type == "number")', 'del(.[0, 2])',
    'to_entries | from_entries', 'with_entries(.value += 1)', 'walk(if type == "number" then . + 1 end)', 'ltrimstr("a") | rtrimstr("b")',
    'splits("a+"; "g")', 'sub("(?<x>a)"; "\\(.x)b")', 'gsub("\\\\s"; "")', 'test("A"; "i")', '[match("a"; "g").offset]', 'capture("(?<y>\\\\d+)")',
    'ascii_downcase | explode | implode', 'tojson | fromjson', 'tostring | tonumber', '@sh', '@csv, @tsv, @html, @uri, @text, @json',
    'now | gmtime | mktime | todate | fromdate', 'strftime("%Y") | strptime("%Y")', 'min_by(.a), max_by(.a), group_by(.a), unique_by(.a), sort_by(.a, .b)',
    'input_line_number', 'splits', 'error', 'error(null)', 'halt_error', 'halt', '1 as $x | 2 as $y | [$x, $y, $__loc__]', '-(1, 2)', '- - 1', '.[-1:]',
    '."a"', '."a\\(1)"', '.["a"]', '.a.[0]', '.a[]?', '..a', '...', '.[]?', '?', '1?', '1??', 'try 1', 'try', '(1;2)', 'f(;)', 'def f(): 1; f',
    'def f(a; a): a; f(1; 2)', 'def f: reduce .[] as $x (0; . + $x); f', 'def fac: if . <= 1 then 1 else . * (. - 1 | fac) end; 5 | fac',
    'def r: if . < 10000 then . + 1 | r end; 0 | r', '[limit(5; def r: ., (. + 1 | r); 0 | r)]', 'reduce range(100) as $i ([]; . + [$i]) | length',
    'tobytes | .[0]', '"x" * 3', '"a,b" / ","', '{} * {a: {b: 1}}', '[1, 2] - [2]', '1 % 0', '5 / 0', 'nan < nan', 'infinite | floor', '[.[] as [$a] ?// $a | $a]',
    '. as {a: [$x, {b: $y}]} | $x + $y', '. as [] | 1', '. as {} | 1', '. as {$a: [$b]} | $a', '. as {"a": $x, ("b", "c"): $y} | [$x, $y]',
    'ltrimstr(1)', 'toyaml | fromyaml', 'tocbor | fromcbor', 'totoml', 'toxml', 'tocsv, totsv', 'fromcsv, fromtsv', '@base64d', '@urid', '@htmld',
    'getpath(["a"]; 1)', 'setpath([]; 1)', 'delpaths([[]])', 'pick(.a.b)', 'pick(first)', 'have_literal_numbers', 'splits("")', 'ascii', 'abs', 'toarray', 'trim, ltrim, rtrim',
    'limit(-1; 1)', 'skip(1; 1, 2)', 'nth(1; 1, 2)', 'until(. > 3; . + 1)', 'while(. < 3; . + 1)', 'recurse(if . < 3 then . + 1 else empty end)', 'combinations', 'combinations(2)',
    'isvalid(1)', 'add(.[])', 'any, all', 'any(. > 1), all(. > 1)', 'flatten(1)', 'indices(1)', 'index("a"), rindex("a")', 'inside([1]), contains([1])', 'bsearch(1)',
    'significand, logb, gamma, lgamma, frexp, modf, drem(1; 2), ldexp(1; 2), scalb(1; 2), scalbln(1; 2), nearbyint, trunc', 'debug, stderr', 'debug("x")', 'input_filename',
    '$__prog_args', 'getpath(1)', 'tojson | @json "\\(.)"', '@text "\\(1)\\(2)"', '@sh "echo \\(.)"', '@uri "?q=\\(.)"', '@html "<b>\\(.)</b>"', '@csv "\\([1, "a"])"',
]

KEYWORDS = ["def", "if", "then", "elif", "else", "end", "as", "reduce", "foreach", "try", "catch", "label", "import", "include", "module",
            "and", "or", "not", "__loc__", "break"]
VOCAB = KEYWORDS + [".", "..", "[", "]", "(", ")", "{", "}", ",", ";", ":", "|", "//", "?", "?//", "|=", "+=", "-=", "*=", "/=", "%=", "//=", "=", "==",
                    "!=", "<", "<=", ">", ">=", "+", "-", "*", "/", "%", "$x", "$__loc__", "$ENV", "$", "@", "@base64", "@json", "@x", ".a", ".[]", ".[0]",
                    "\"a\"", "\"\\(1)\"", "\"", "1", "0", "1.5", "1e3", "null", "true", "false", "empty", "error", "f", "g", "map", "select", "x::y", "::", "$x::y",
                    "input", "first", "limit", "range", "recurse", "path", "getpath", "tojson", "length", "add", "not", "é", "💣", "#", "\\", "'", "`", "~", "^", "&",
                    "!", "\u00a0", "\u2028", "\ufeff", "\x00", "\x7f", "\t", "\r\n", "\r", "\n"]
FRAGMENTS = ['"\\u12', '"\\(', '\\(', '@', '$', '$__loc__', '@ ', '$ ', 'é', '💣', '\u00a0', '\u2028', '\ufeff', '\u200b', 'e\u0301', '\u202e', '日本',
             '# c \\\n', '#\\\r\n', '# \\\\\n', '#\\', '#', '\r\n', '\t', '\x00', '\x7f', '\r', '"\\ud800"', '"\\udc00\\ud800"', '"\\ud83d\\udca3"', '"\\x"', '"\\',
             '"\\u', '"\\u{1}"', '"\\U', '"\\uD83D"', '"\\u00', '"\\uzzzz"', '"\\u12é4"', '"\\u１２３４"', '@base64 "', '@foo "x"', '@ "x"', '@1', '$1', '$é', 'a::', '::b',
             'a::$x', 'a::@x', 'a::b::c', '9223372036854775808', '1e1000', '0.0000001', '1E-400', '00', '0e', '1.', '1e+', '100000000000000000000', '.e1', '1.e1',
             '0x10', '1_0', '"' * 3, ')(', '][', '}{', '?//', '//=', '=//', '|=|', '..a', '.."a"', '.1', '. 1', '.[', '.[]?.', '.a.', '."', '.@x', '.$x', '."a"."b"',
             '"\\(', '\\("', '"\\(")', '"\\(1', '"\\()"', '"\\(;)"', '"\\(def f: 1; f)"', '"\\("\\("\\(1)")")"', 'reduce', 'foreach . as $x (', 'if', 'then', 'end',
             'def f:', 'def f(', 'def f($', 'def f(a;', 'as', 'as [', 'as {', 'as $', 'as {a:', 'as {$a:', 'as {(1):', 'as [$a, $a]', 'label', 'label $', 'break', 'break $x',
             'try', 'catch', 'import', 'import "a"', 'import "a" as', 'import "a" as $', 'include', 'include "', 'module', 'module 1;', '-', '--', '- -', '+', '?', '??',
             '１', '٣', 'Ａ', 'ﬁ', '\u0301', '\U000e0041', '\ud7ff', '\uffff', '\U0010ffff', '\x1b[31m', '\x08', '\x0c', '\x0b', '\x85', '\u3000']


def nest(rng, depth):
    """deep-but-bounded nesting (<= 200)"""
    n = rng.choice([2, 5, 20, 50, 100, 150, 200, 199, depth])
    n = min(n, 200)
    kind = rng.randrange(22)
    core = rng.choice(["1", ".", ".a", "empty", "$x", ""])
    if kind == 0:
        return "[" * n + core + "]" * n
    if kind == 1:
        return "(" * n + core + ")" * n
    if kind == 2:
        return "{a:" * n + (core or "1") + "}" * n
    if kind == 3:
        return "-(" * n + (core or "1") + ")" * n
    if kind == 4:
        return ".[" * n + (core or "0") + "]" * n
    if kind == 5:
        return "if . then " * n + (core or "1") + " end" * n
    if kind == 6:
        return "try " * n + (core or "1")
    if kind == 7:
        return "def f: " * n + "1" + "; f" * n
    if kind == 8:
        return "reduce . as $x (" * min(n, 100) + "1" + "; 2)" * min(n, 100)
    if kind == 9:
        return ". as " + "[" * n + "$x" + "]" * n + " | $x"
    if kind == 10:
        return ". as " + "{a:" * n + "$x" + "}" * n + " | $x"
    if kind == 11:
        return "." + "?" * n
    if kind == 12:
        return " | ".join(["."] * n)
    if kind == 13:
        return '"\\(' * n + "1" + ')"' * n
    if kind == 14:
        return '@base64 "\\(' * min(n, 100) + "1" + ')"' * min(n, 100)
    if kind == 15:
        return "-" * n + "1"
    if kind == 16:
        return "1" + " + 1" * n
    if kind == 17:
        return "[" * n
    if kind == 18:
        return '"\\(' * n
    if kind == 19:
        return "1 as $x | " * n + "$x"
    if kind == 20:
        return "def f(" + "; ".join("a%d" % i for i in range(n)) + "): 1; f(" + "; ".join(["1"] * n) + ")"
    return "label $a | " * n + "break $a"


def join_tokens(rng, toks):
    r = rng.random()
    if r < 0.6:
        return " ".join(toks)
    if r < 0.8:
        return "".join(toks)
    seps = [" ", "", "\n", "\t", "\r\n", "  ", " # c\n", " #\\\n x\n"]
    return "".join(t + rng.choice(seps) for t in toks)


OPENERS = "([{\""
CLOSERS = ")]}\""

MUT_OPS = ["tok-del", "tok-dup", "tok-swap", "tok-repl", "tok-ins", "delim", "keyword", "trunc", "frag", "nest-wrap", "nest", "interp-wrap", "crlf",
           "char-del", "char-ins", "splice", "soup", "num", "comment"]


def mutate(rng, seeds, idx=None):
    """-> (op, text)"""
    seed = seeds[rng.randrange(len(seeds)) if idx is None else idx % len(seeds)]
    op = rng.choice(MUT_OPS)
    toks = lex(seed)
    if not toks:
        toks = ["."]
    i = rng.randrange(len(toks))
    if op == "tok-del":
        n = rng.choice([1, 1, 1, 2, 3])
        del toks[i:i + n]
        return op, join_tokens(rng, toks)
    if op == "tok-dup":
        toks[i:i] = [toks[i]] * rng.choice([1, 1, 2, 5])
        return op, join_tokens(rng, toks)
    if op == "tok-swap":
        j = rng.randrange(len(toks))
        toks[i], toks[j] = toks[j], toks[i]
        return op, join_tokens(rng, toks)
    if op == "tok-repl":
        toks[i] = rng.choice(VOCAB)
        return op, join_tokens(rng, toks)
    if op == "tok-ins":
        toks[i:i] = [rng.choice(VOCAB) for _ in range(rng.choice([1, 1, 2, 3]))]
        return op, join_tokens(rng, toks)
    if op == "delim":
        ds = [k for k, t in enumerate(toks) if t in ("(", ")", "[", "]", "{", "}") or t.startswith('"')]
        if ds and rng.random() < 0.6:
            k = rng.choice(ds)
            if toks[k].startswith('"') and len(toks[k]) > 1:
                toks[k] = toks[k][:-1] if rng.random() < 0.5 else toks[k][1:]
            else:
                del toks[k]
        else:
            toks.insert(i, rng.choice("()[]{}\""))
        return op, join_tokens(rng, toks)
    if op == "keyword":
        toks.insert(i, rng.choice(KEYWORDS))
        return op, join_tokens(rng, toks)
    if op == "trunc":
        k = rng.randrange(len(seed) + 1)
        return op, seed[:k] if rng.random() < 0.8 else seed[k:]
    if op == "frag":
        k = rng.randrange(len(seed) + 1)
        f = rng.choice(FRAGMENTS)
        if rng.random() < 0.3:
            return op, seed[:k] + f
        return op, seed[:k] + f + seed[k:]
    if op == "nest-wrap":
        n = rng.choice([3, 20, 100, 200])
        o, c = rng.choice([("[", "]"), ("(", ")"), ("{a:", "}"), ('"\\(', ')"'), ("try ", ""), ("-(", ")"), ("[.[] | ", "]"), ("first(", ")"), ("path(", ")")])
        return op, o * n + seed + c * n
    if op == "nest":
        return op, nest(rng, rng.randrange(1, 200))
    if op == "interp-wrap":
        j = min(len(toks), i + rng.randrange(1, 6))
        toks[i:j] = ['"\\(' + " ".join(toks[i:j]) + ')"']
        return op, join_tokens(rng, toks)
    if op == "crlf":
        return op, seed.replace("\n", "\r\n").replace(" ", rng.choice(["\r\n", "\t", "\r", " \t "]), rng.choice([1, 3, 1000]))
    if op == "char-del":
        k = rng.randrange(len(seed))
        return op, seed[:k] + seed[k + rng.choice([1, 1, 2, 4]):]
    if op == "char-ins":
        k = rng.randrange(len(seed) + 1)
        c = rng.choice(['"', "\\", "(", ")", "[", "]", "{", "}", "$", "@", ".", "?", ":", ";", "|", "#", "'", "é", "\x00", "0", "e", "-", "\n", "\r"])
        return op, seed[:k] + c + seed[k:]
    if op == "splice":
        other = lex(seeds[rng.randrange(len(seeds))]) or ["."]
        j = rng.randrange(len(other))
        toks[i:i + rng.randrange(0, 4)] = other[j:j + rng.randrange(1, 8)]
        return op, join_tokens(rng, toks)
    if op == "soup":
        return op, join_tokens(rng, [rng.choice(VOCAB) for _ in range(rng.randrange(1, 30))])
    if op == "num":
        ns = [k for k, t in enumerate(toks) if t[0].isdigit()]
        lit = rng.choice(["9223372036854775807", "9223372036854775808", "-9223372036854775808", "1e1000", "1E-400", "0.1", "4294967296", "2147483648", "255", "256",
                          "1e17", "100000000000000000000", "1.0", "00", "0e", "1.", "0.5e", "1e-", "127", "128", "9223372036855", "0.0000001", "3"])
        if ns:
            toks[rng.choice(ns)] = lit
        else:
            toks.insert(i, lit)
        return op, join_tokens(rng, toks)
    # comment
    k = rng.randrange(len(seed) + 1)
    c = rng.choice(["# x\n", "# x \\\n y\n", "# x \\\\\n", "#\\\r\n1\n", "# é \\", "#", "# \\\r\n\\\r\n", "#\r", "# x\r\n"])
    return op, seed[:k] + c + seed[k:]
